//! C09: TLS admits only authenticated peers at or above the minimum protocol version.

use crate::hserver::{hex, PolicySpec, PolicyState};
use crate::net::*;
use crate::refmodel::pdu::mbap_frame;
use crate::refmodel::server::{Call, Policy};
use crate::report::*;
use rodbus::client::*;
use rodbus::server::*;
use rodbus::*;
use serde::{Deserialize, Serialize};
use serde_json::json;
use std::sync::{Arc, Mutex};
use std::time::Duration;
use tokio::io::AsyncWriteExt;
use tokio_rustls::rustls;

#[derive(Clone, Copy, Debug, PartialEq, Eq, Hash, Serialize, Deserialize)]
pub enum CertKind {
    Valid,
    WrongAuthority,
    WrongName,
    Expired,
    NotYetValid,
    RoleLess,
    OtherRole,
    /// not one of the seven kinds of the property's grid: a certificate *issued by* the pinned
    /// self-signed certificate (self-signed mode demands a byte-identical match)
    IssuedByPinned,
    /// outside the grid too: the differently-roled client certificate followed, in the presented
    /// chain, by an unrelated certificate that carries the role "operator" (the role of the session
    /// is that of the *client* certificate)
    ViewerThenOperatorInChain,
    /// the role-less client certificate followed by an unrelated certificate with a role
    RoleLessThenOperatorInChain,
    /// a client certificate whose role has a leading blank and a capital letter (" Operator"): the
    /// session's role is exactly that string
    OddRole,
    /// self-signed mode: another certificate with the pinned certificate's subject (new key)
    SameSubjectOtherKey,
    /// self-signed mode: the pinned key and subject re-issued with another validity (other bytes)
    SameKeyReissued,
}

pub const CERT_KINDS: [CertKind; 7] = [
    CertKind::Valid,
    CertKind::WrongAuthority,
    CertKind::WrongName,
    CertKind::Expired,
    CertKind::NotYetValid,
    CertKind::RoleLess,
    CertKind::OtherRole,
];

#[derive(Clone, Copy, Debug, PartialEq, Eq, Hash, Serialize, Deserialize)]
pub struct Cell {
    pub min13: bool,
    pub self_signed: bool,
    pub authz: bool,
    pub rodbus_is_server: bool,
    pub peer: PeerVersions,
    pub cert: CertKind,
    /// use the spawn_* constructor instead of create_*
    pub spawn: bool,
    /// how the client configuration is built: 0 = `full_pki(Some(name))` / `self_signed`,
    /// 1 = the legacy `TlsClientConfig::new(name, .., mode)`, 2 = `full_pki(None)` (no expected name),
    /// 3 = `full_pki(Some("127.0.0.1"))`: the expected name is an IP literal ("valid" is then the
    /// certificate with the SAN IP:127.0.0.1, "wrong name" the one for test.com)
    #[serde(default)]
    pub ctor: u8,
}

#[derive(Clone, Debug, PartialEq, Eq)]
pub struct Expectation {
    pub admitted: bool,
    pub role: Option<&'static str>,
}

/// certificates minted at run time for one cell: (trusted by rodbus, presented by the peer)
static CERT_OVERRIDE: Mutex<Vec<(Cell, &'static str, &'static str)>> = Mutex::new(Vec::new());

/// (certificate rodbus is configured to trust, certificate the peer presents); None = cell is not meaningful
fn certs_for(c: &Cell) -> Option<(&'static str, &'static str)> {
    use CertKind::*;
    if let Some(x) = CERT_OVERRIDE.lock().unwrap().iter().find(|x| x.0 == *c) {
        return Some((x.1, x.2));
    }
    Some(match (c.rodbus_is_server, c.self_signed, c.cert) {
        (true, false, Valid) => ("ca_a", "cli_operator"),
        (true, false, WrongAuthority) => ("ca_a", "cli_wrong_ca"),
        (true, false, Expired) => ("ca_a", "cli_expired"),
        (true, false, NotYetValid) => ("ca_a", "cli_future"),
        (true, false, RoleLess) => ("ca_a", "cli_norole"),
        (true, false, OtherRole) => ("ca_a", "cli_viewer"),
        (true, true, Valid) => ("ss_client", "ss_client"),
        (true, true, WrongAuthority) => ("ss_client", "ss_client_other"),
        (true, true, Expired) => ("ss_client_expired", "ss_client_expired"),
        (true, true, NotYetValid) => ("ss_client_future", "ss_client_future"),
        (true, true, RoleLess) => ("ss_client_norole", "ss_client_norole"),
        (true, true, OtherRole) => ("ss_client_viewer", "ss_client_viewer"),
        (false, false, Valid) => ("ca_a", "srv_valid"),
        (false, false, WrongAuthority) => ("ca_a", "srv_wrong_ca"),
        (false, false, WrongName) => ("ca_a", "srv_wrong_name"),
        (false, false, Expired) => ("ca_a", "srv_expired"),
        (false, false, NotYetValid) => ("ca_a", "srv_future"),
        (false, true, Valid) => ("ss_server", "ss_server"),
        (false, true, WrongAuthority) => ("ss_server", "ss_server_other"),
        (false, true, Expired) => ("ss_server_expired", "ss_server_expired"),
        (false, true, NotYetValid) => ("ss_server_future", "ss_server_future"),
        (true, true, IssuedByPinned) => ("ss_client", "cli_child_of_ss"),
        (true, true, SameSubjectOtherKey) => ("ss_client", "ss_client_same_subject"),
        (true, true, SameKeyReissued) => ("ss_client", "ss_client_same_key"),
        (false, true, SameSubjectOtherKey) => ("ss_server", "ss_server_same_subject"),
        (false, true, SameKeyReissued) => ("ss_server", "ss_server_same_key"),
        (true, false, ViewerThenOperatorInChain) => ("ca_a", "cli_viewer+cli_operator"),
        (true, false, OddRole) => ("ca_a", "cli_oddrole"),
        (true, false, RoleLessThenOperatorInChain) => ("ca_a", "cli_norole+cli_operator"),
        (false, true, IssuedByPinned) => ("ss_server", "srv_child_of_ss"),
        // the name is not part of the server endpoint's / self-signed mode's checks; roles are a
        // property of client certificates
        _ => return None,
    })
}

/// the admission predicate of the property, as a function of the cell
/// expected server names that are neither a DNS name nor an IP address (client cells, ctor 10..)
pub const ODD_NAMES: [&str; 5] = ["*", "", "*.com", "test.com:802", "test com"];

pub fn ref_tls(c: &Cell) -> Option<Expectation> {
    certs_for(c)?;
    if !c.rodbus_is_server && c.authz {
        // authorization is a server-side notion
        return None;
    }
    let version_ok = !c.min13 || c.peer != PeerVersions::Tls12Only;
    let cert_ok = match c.cert {
        // an expected name that cannot be a name matches no certificate
        _ if c.ctor >= 10 && c.ctor < 20 => false,
        CertKind::Valid | CertKind::OtherRole | CertKind::ViewerThenOperatorInChain | CertKind::OddRole => true,
        CertKind::RoleLess | CertKind::RoleLessThenOperatorInChain => !(c.rodbus_is_server && c.authz),
        // no expected name configured: any server that chains to the authority is valid
        CertKind::WrongName => !c.rodbus_is_server && !c.self_signed && c.ctor == 2,
        _ => false,
    };
    let role = if c.rodbus_is_server && c.authz && version_ok && cert_ok {
        Some(if matches!(c.cert, CertKind::OtherRole | CertKind::ViewerThenOperatorInChain) {
            "viewer"
        } else if c.cert == CertKind::OddRole {
            " Operator"
        } else {
            "operator"
        })
    } else {
        None
    };
    Some(Expectation { admitted: version_ok && cert_ok, role })
}

#[derive(Clone, Debug, PartialEq, Eq, Hash)]
pub struct Observed {
    pub admitted: bool,
    pub version: String,
    pub roles_seen: Vec<String>,
    pub handler_calls: usize,
    pub detail: String,
}

struct AllowAll {
    policy: Mutex<PolicyState>,
    log: crate::hserver::Log,
}

impl AllowAll {
    fn q(&self, unit: UnitId, fc: u8, a: u16, b: u16, role: &str) -> Authorization {
        let allow = self.policy.lock().unwrap().decide(unit.value, fc, a, b, role);
        self.log.lock().unwrap().push(Call::Auth { unit: unit.value, fc, a, b, role: role.to_string(), allow });
        if allow { Authorization::Allow } else { Authorization::Deny }
    }
}

impl AuthorizationHandler for AllowAll {
    fn read_coils(&self, u: UnitId, r: AddressRange, role: &str) -> Authorization {
        self.q(u, 1, r.start, r.count, role)
    }
    fn read_discrete_inputs(&self, u: UnitId, r: AddressRange, role: &str) -> Authorization {
        self.q(u, 2, r.start, r.count, role)
    }
    fn read_holding_registers(&self, u: UnitId, r: AddressRange, role: &str) -> Authorization {
        self.q(u, 3, r.start, r.count, role)
    }
    fn read_input_registers(&self, u: UnitId, r: AddressRange, role: &str) -> Authorization {
        self.q(u, 4, r.start, r.count, role)
    }
    fn write_single_coil(&self, u: UnitId, i: u16, role: &str) -> Authorization {
        self.q(u, 5, i, 0, role)
    }
    fn write_single_register(&self, u: UnitId, i: u16, role: &str) -> Authorization {
        self.q(u, 6, i, 0, role)
    }
    fn write_multiple_coils(&self, u: UnitId, r: AddressRange, role: &str) -> Authorization {
        self.q(u, 15, r.start, r.count, role)
    }
    fn write_multiple_registers(&self, u: UnitId, r: AddressRange, role: &str) -> Authorization {
        self.q(u, 16, r.start, r.count, role)
    }
}

fn min_version(c: &Cell) -> MinTlsVersion {
    if c.min13 { MinTlsVersion::V1_3 } else { MinTlsVersion::V1_2 }
}

fn mode(c: &Cell) -> CertificateMode {
    if c.self_signed { CertificateMode::SelfSigned } else { CertificateMode::AuthorityBased }
}

pub struct TlsServerUnderTest {
    pub handle: ServerHandle,
    pub addr: std::net::SocketAddr,
    pub app: NetApp,
}

/// start a rodbus TLS server for the cell
pub async fn start_tls_server(c: &Cell, trust: &str, filter: AddressFilter, ip: &str, max_sessions: usize) -> Result<TlsServerUnderTest, String> {
    start_tls_server_with_policy(c, trust, filter, ip, max_sessions, PolicySpec::FcMask(0xFF)).await
}

pub async fn start_tls_server_with_policy(c: &Cell, trust: &str, filter: AddressFilter, ip: &str, max_sessions: usize, policy: PolicySpec) -> Result<TlsServerUnderTest, String> {
    let local = if c.self_signed { "ss_server" } else { "srv_valid" };
    let cfg = TlsServerConfig::new(&cert_path(trust), &cert_path(local), &key_path(local), None, min_version(c), mode(c))
        .map_err(|e| format!("TlsServerConfig::new: {e}"))?;
    let app = net_app(&[1]);
    let auth: Option<Arc<dyn AuthorizationHandler>> = if c.authz {
        Some(Arc::new(AllowAll { policy: Mutex::new(PolicyState { spec: policy, n: 0 }), log: app.log.clone() }))
    } else {
        None
    };
    let (mut listener, mut addr) = listen(ip).await;
    let handle = if c.spawn {
        // spawn_* binds by itself: release the port and let it bind again; when somebody else was
        // handed the port in between, the bind fails and another port is tried
        let mut tries = 0;
        loop {
            drop(listener);
            let r = match auth.clone() {
                Some(a) => spawn_tls_server_task_with_authz(max_sessions, addr, app.map.clone(), a, cfg.clone(), filter.clone(), DecodeLevel::nothing()).await,
                None => spawn_tls_server_task(max_sessions, addr, app.map.clone(), cfg.clone(), filter.clone(), DecodeLevel::nothing()).await,
            };
            match r {
                Ok(h) => break h,
                Err(e) if tries >= 8 => return Err(format!("spawn: {e}")),
                Err(_) => {
                    tries += 1;
                    (listener, addr) = listen(ip).await;
                }
            }
        }
    } else {
        let (h, task) = match auth {
            Some(a) => create_tls_server_task_with_authz(max_sessions, listener, app.map.clone(), a, cfg, filter, DecodeLevel::nothing()),
            None => create_tls_server_task(max_sessions, listener, app.map.clone(), cfg, filter, DecodeLevel::nothing()),
        };
        tokio::spawn(task.run());
        h
    };
    Ok(TlsServerUnderTest { handle, addr, app })
}

const SENTINEL: [u8; 5] = [3, 0, 0, 0, 2];

async fn run_server_cell(c: &Cell) -> Result<Observed, String> {
    let (trust, present) = certs_for(c).unwrap();
    let s = start_tls_server(c, trust, AddressFilter::Any, "127.0.0.1", 4).await?;
    let connector = tokio_rustls::TlsConnector::from(peer_client_config(c.peer, present));
    let tcp = connect_from("127.0.0.1", s.addr).await.map_err(|e| format!("connect: {e}"))?;
    let name = rustls::pki_types::ServerName::try_from("test.com").unwrap();
    let mut detail = String::new();
    let mut admitted = false;
    let mut version = "none".to_string();
    match tokio::time::timeout(STEP_TIMEOUT, connector.connect(name, tcp)).await {
        Err(_) => detail = "peer handshake timed out".into(),
        Ok(Err(e)) => detail = format!("peer handshake failed: {e}"),
        Ok(Ok(mut tls)) => {
            version = version_name(tls.get_ref().1.protocol_version());
            // in TLS 1.3 the client finishes before the server has judged its certificate: only an
            // answered Modbus request proves admission
            let req = mbap_frame(0x0102, 1, &SENTINEL);
            if write_all(&mut tls, &req).await {
                match read_n(&mut tls, 13, STEP_TIMEOUT).await {
                    ReadOutcome::Bytes(b) => {
                        admitted = b[..2] == [1, 2] && b[7] == 3;
                        detail = format!("reply {}", hex(&b));
                    }
                    other => detail = format!("no reply: {other:?}"),
                }
            } else {
                detail = "write failed".into();
            }
            let _ = tls.shutdown().await;
        }
    }
    // a peer that must be refused gets no session at all: on further connections the server ends
    // the connection by itself while the peer stays silent, and nothing the peer sends - not even
    // a frame no handler would ever see - is answered
    if !admitted && ref_tls(c).map(|e| !e.admitted).unwrap_or(false) {
        for probe in [&b""[..], &[0x00, 0x09, 0x00, 0x00, 0x00, 0x02, 0x01, 0x41][..], &[0x00, 0x0A, 0x00, 0x00, 0x00, 0x06, 0x01, 0x03, 0x00][..]] {
            let Ok(tcp) = connect_from("127.0.0.1", s.addr).await else { continue };
            let connector = tokio_rustls::TlsConnector::from(peer_client_config(c.peer, present));
            let name = rustls::pki_types::ServerName::try_from("test.com").unwrap();
            if let Ok(Ok(mut tls)) = tokio::time::timeout(STEP_TIMEOUT, connector.connect(name, tcp)).await {
                if !probe.is_empty() {
                    let _ = write_all(&mut tls, probe).await;
                }
                match read_n(&mut tls, 1, STEP_TIMEOUT).await {
                    ReadOutcome::Bytes(b) => {
                        admitted = true;
                        detail = format!("after sending {} the peer received application data ({}...)", hex(probe), hex(&b));
                    }
                    ReadOutcome::Timeout(_) => {
                        admitted = true;
                        detail = format!("after sending {} the connection was still open after {STEP_TIMEOUT:?}: the peer holds a session", if probe.is_empty() { "nothing".to_string() } else { hex(probe) });
                    }
                    _ => {}
                }
                if admitted {
                    break;
                }
            }
        }
    }
    tokio::time::sleep(Duration::from_millis(5)).await;
    let calls = s.app.log.lock().unwrap().clone();
    let roles_seen: Vec<String> = calls.iter().filter_map(|c| if let Call::Auth { role, .. } = c { Some(role.clone()) } else { None }).collect();
    let handler_calls = calls.iter().filter(|c| !matches!(c, Call::Auth { .. })).count();
    let _ = s.handle.shutdown().await;
    Ok(Observed { admitted, version, roles_seen, handler_calls, detail })
}

/// TLS session resumption must not carry an authentication verdict from one rodbus server to
/// another: a peer that server A (trusting authority A / pinning certificate A) admitted resumes
/// nothing on server B of the same process, which trusts another authority / pins another
/// certificate. The peer is one rustls client configuration (its session store and tickets are
/// shared by both connections); admission is judged by an answered Modbus request.
pub async fn resumption_probe(versions: PeerVersions, self_signed: bool) -> Result<(bool, bool, String), String> {
    let mk = |trust: &'static str| Cell { min13: false, self_signed, authz: false, rodbus_is_server: true, peer: versions, cert: CertKind::Valid, spawn: false, ctor: 0 };
    let (trust_a, present, trust_b) = if self_signed { ("ss_client", "ss_client", "ss_client_other") } else { ("ca_a", "cli_operator", "ca_b") };
    let a = start_tls_server(&mk(trust_a), trust_a, AddressFilter::Any, "127.0.0.1", 4).await?;
    let b = start_tls_server(&mk(trust_b), trust_b, AddressFilter::Any, "127.0.0.1", 4).await?;
    let config = peer_client_config(versions, present);
    let mut admitted = vec![];
    let mut detail = String::new();
    for (which, addr) in [("A", a.addr), ("B", b.addr)] {
        let connector = tokio_rustls::TlsConnector::from(config.clone());
        let tcp = connect_from("127.0.0.1", addr).await.map_err(|e| format!("connect: {e}"))?;
        let name = rustls::pki_types::ServerName::try_from("test.com").unwrap();
        let mut ok = false;
        match tokio::time::timeout(STEP_TIMEOUT, connector.connect(name, tcp)).await {
            Err(_) => detail.push_str(&format!("{which}: handshake timed out; ")),
            Ok(Err(e)) => detail.push_str(&format!("{which}: handshake failed: {e}; ")),
            Ok(Ok(mut tls)) => {
                let req = mbap_frame(0x0102, 1, &SENTINEL);
                if write_all(&mut tls, &req).await {
                    match read_n(&mut tls, 13, Duration::from_millis(1500)).await {
                        ReadOutcome::Bytes(bts) => {
                            ok = bts[..2] == [1, 2] && bts[7] == 3;
                            detail.push_str(&format!("{which}: reply {}; ", hex(&bts)));
                        }
                        other => detail.push_str(&format!("{which}: no reply: {other:?}; ")),
                    }
                }
                // a second exchange gives a TLS 1.3 server time to deliver its session tickets
                if ok {
                    let _ = write_all(&mut tls, &mbap_frame(0x0103, 1, &SENTINEL)).await;
                    let _ = read_n(&mut tls, 13, Duration::from_millis(1500)).await;
                }
                let _ = tls.shutdown().await;
            }
        }
        admitted.push(ok);
    }
    let _ = a.handle.shutdown().await;
    let _ = b.handle.shutdown().await;
    Ok((admitted[0], admitted[1], detail))
}

/// C08 over a real TLS server with authorization: the role the policy is asked about is the role
/// of the certificate, character for character; a request the policy denies changes nothing and
/// is answered with exception 01
/// Sessions of one server whose client certificates differ in nothing but the role (the second one
/// is minted at run time from the first: same subject, same key): every session is judged by the
/// role of its own certificate, whichever came first and whether or not the other is still open
pub fn c08_same_subject_phase() -> Stats {
    let mut st = Stats::default();
    let minted = match mint_roles("cli_operator", "ca_a", &["observer"], "role-observer") {
        Ok(n) => n,
        Err(e) => {
            st.violation(Violation { signature: "MACHINERY:mint".into(), summary: format!("same-subject certificate: {e}"), replay: json!({}) });
            return st;
        }
    };
    let minted: &'static str = Box::leak(minted.into_boxed_str());
    let certs: [(&'static str, &'static str); 2] = [("cli_operator", "operator"), (minted, "observer")];
    for order in [vec![0usize, 1], vec![1, 0], vec![0, 1, 0], vec![1, 0, 1], vec![0, 1, 1, 0]] {
        for keep_open in [false, true] {
            let order2 = order.clone();
            let r: Result<Vec<(usize, Vec<u8>, Vec<String>)>, String> = rt().block_on(async move {
                let cell = Cell { min13: false, self_signed: false, authz: true, rodbus_is_server: true, peer: PeerVersions::Both, cert: CertKind::Valid, spawn: false, ctor: 0 };
                let s = start_tls_server_with_policy(&cell, "ca_a", AddressFilter::Any, "127.0.0.1", 8, PolicySpec::RoleIs("operator".to_string())).await?;
                let mut open = vec![];
                let mut out = vec![];
                for (k, ci) in order2.iter().enumerate() {
                    let connector = tokio_rustls::TlsConnector::from(peer_client_config(PeerVersions::Both, certs[*ci].0));
                    let tcp = connect_from("127.0.0.1", s.addr).await.map_err(|e| format!("connect: {e}"))?;
                    let name = rustls::pki_types::ServerName::try_from("test.com").unwrap();
                    let mut tls = tokio::time::timeout(STEP_TIMEOUT, connector.connect(name, tcp)).await.map_err(|_| "handshake timed out".to_string())?.map_err(|e| format!("handshake: {e}"))?;
                    let before = s.app.log.lock().unwrap().len();
                    let req = mbap_frame(0x0B00 + k as u16, 1, &[6, 0, k as u8, 0x12, 0x34]);
                    if !write_all(&mut tls, &req).await {
                        return Err("write failed".to_string());
                    }
                    let reply = match read_n(&mut tls, 9, STEP_TIMEOUT).await {
                        ReadOutcome::Bytes(b) => b,
                        other => return Err(format!("no reply: {other:?}")),
                    };
                    let roles: Vec<String> = s.app.log.lock().unwrap()[before..].iter().filter_map(|c| if let Call::Auth { role, .. } = c { Some(role.clone()) } else { None }).collect();
                    out.push((*ci, reply, roles));
                    if keep_open {
                        open.push(tls);
                    } else {
                        let _ = tls.shutdown().await;
                    }
                }
                drop(open);
                let _ = s.handle.shutdown().await;
                Ok(out)
            });
            st.evaluations += 1;
            st.traces += 1;
            st.class("tls-authz:same-subject-other-role");
            match r {
                Err(e) => st.violation(Violation { signature: "MACHINERY:tls-authz-cell".into(), summary: format!("same-subject sessions {order:?}: {e}"), replay: json!({}) }),
                Ok(steps) => {
                    st.observe(&(order.clone(), keep_open, steps.iter().map(|x| x.1.get(7).copied()).collect::<Vec<_>>()));
                    for (k, (ci, reply, roles)) in steps.iter().enumerate() {
                        st.transitions += 1;
                        let role = certs[*ci].1;
                        let allow = role == "operator";
                        let want: Vec<u8> = if allow { vec![0x0B, k as u8, 0, 0, 0, 6, 1, 6, 0] } else { vec![0x0B, k as u8, 0, 0, 0, 3, 1, 0x86, 1] };
                        if *roles != vec![role.to_string()] || *reply != want {
                            st.violation(Violation {
                                signature: format!("tls-authz:session-judged-by-another-role:{}", if allow { "allow" } else { "deny" }),
                                summary: format!("sessions (roles {:?}, same subject and key, {}): session #{k} has role {role:?}; the authorization handler was asked about {roles:?} and the write was answered {} (expected {})", order.iter().map(|c| certs[*c].1).collect::<Vec<_>>(), if keep_open { "all kept open" } else { "one after the other" }, hex(reply), hex(&want)),
                                replay: json!({"kind": "c08-tls"}),
                            });
                        }
                    }
                }
            }
        }
    }
    cleanup_minted();
    st
}

pub fn c08_tls_phase() -> Stats {
    let mut st = Stats::default();
    // the last certificate carries no role at all: whatever the policy, nothing it sends has an effect
    let certs: [(&str, &str); 4] = [("cli_operator", "operator"), ("cli_viewer", "viewer"), ("cli_oddrole", " Operator"), ("cli_norole", "<none>")];
    let policy_roles = ["operator", "viewer", " Operator", "Operator", "operator ", "OPERATOR"];
    let results: Arc<Mutex<Vec<(String, String, Result<(Vec<u8>, Vec<Call>), String>)>>> = Arc::new(Mutex::new(vec![]));
    rt().block_on(async {
        let mut joins = vec![];
        for (cert, _) in certs {
            for pr in policy_roles {
                let results = results.clone();
                joins.push(tokio::spawn(async move {
                    let cell = Cell { min13: false, self_signed: false, authz: true, rodbus_is_server: true, peer: PeerVersions::Both, cert: CertKind::Valid, spawn: false, ctor: 0 };
                    let r = async {
                        let s = start_tls_server_with_policy(&cell, "ca_a", AddressFilter::Any, "127.0.0.1", 4, PolicySpec::RoleIs(pr.to_string())).await?;
                        let connector = tokio_rustls::TlsConnector::from(peer_client_config(PeerVersions::Both, cert));
                        let tcp = connect_from("127.0.0.1", s.addr).await.map_err(|e| format!("connect: {e}"))?;
                        let name = rustls::pki_types::ServerName::try_from("test.com").unwrap();
                        let mut tls = tokio::time::timeout(STEP_TIMEOUT, connector.connect(name, tcp)).await.map_err(|_| "handshake timed out".to_string())?.map_err(|e| format!("handshake: {e}"))?;
                        // write single register 3 := 0x1234
                        let req = mbap_frame(0x0A01, 1, &[6, 0, 3, 0x12, 0x34]);
                        if !write_all(&mut tls, &req).await {
                            return Err("write failed".to_string());
                        }
                        let reply = match read_n(&mut tls, 9, STEP_TIMEOUT).await {
                            ReadOutcome::Bytes(b) => b,
                            other => return Err(format!("no reply: {other:?}")),
                        };
                        let _ = tls.shutdown().await;
                        tokio::time::sleep(Duration::from_millis(5)).await;
                        let calls = s.app.log.lock().unwrap().clone();
                        let _ = s.handle.shutdown().await;
                        Ok((reply, calls))
                    }
                    .await;
                    results.lock().unwrap().push((cert.to_string(), pr.to_string(), r));
                }));
            }
        }
        for j in joins {
            let _ = j.await;
        }
    });
    let mut res = results.lock().unwrap().clone();
    res.sort_by_key(|x| (x.0.clone(), x.1.clone()));
    for (cert, pr, r) in res {
        let cert_role = certs.iter().find(|c| c.0 == cert).unwrap().1;
        let allow = cert_role == pr;
        st.evaluations += 1;
        st.class(if allow { "tls-authz:allowed" } else { "tls-authz:denied" });
        st.observe(&(cert.clone(), pr.clone(), r.as_ref().map(|x| x.0.clone()).ok()));
        match r {
            // a certificate without a role is turned away (C09); being refused is "no effect"
            Err(_) if cert_role == "<none>" => {}
            Err(e) => st.violation(Violation { signature: "MACHINERY:tls-authz-cell".into(), summary: format!("{cert} / policy role {pr:?}: {e}"), replay: json!({}) }),
            Ok((reply, calls)) if cert_role == "<none>" => {
                let handler_calls = calls.iter().filter(|c| !matches!(c, Call::Auth { .. })).count();
                if handler_calls != 0 || reply != vec![0x0A, 0x01, 0, 0, 0, 3, 1, 0x86, 1] {
                    st.violation(Violation {
                        signature: "tls-authz:role-less-client-had-effect".into(),
                        summary: format!("TLS server with authorization, client certificate without a role, policy allows exactly {pr:?}: reply {}, {handler_calls} point-handler calls, authorization queries {:?}", hex(&reply), calls.iter().filter(|c| matches!(c, Call::Auth { .. })).count()),
                        replay: json!({"kind": "c08-tls"}),
                    });
                }
            }
            Ok((reply, calls)) => {
                let roles: Vec<String> = calls.iter().filter_map(|c| if let Call::Auth { role, .. } = c { Some(role.clone()) } else { None }).collect();
                let handler_calls = calls.iter().filter(|c| !matches!(c, Call::Auth { .. })).count();
                let want_reply: Vec<u8> = if allow { vec![0x0A, 0x01, 0, 0, 0, 6, 1, 6, 0] } else { vec![0x0A, 0x01, 0, 0, 0, 3, 1, 0x86, 1] };
                let mut bad = vec![];
                if roles != vec![cert_role.to_string()] {
                    bad.push(format!("the authorization handler was asked about roles {roles:?}, the certificate's role is {cert_role:?}"));
                }
                if reply != want_reply {
                    bad.push(format!("reply {} expected {}", hex(&reply), hex(&want_reply)));
                }
                if handler_calls != usize::from(allow) {
                    bad.push(format!("{handler_calls} point-handler calls, expected {}", usize::from(allow)));
                }
                if !bad.is_empty() {
                    st.violation(Violation {
                        signature: format!("tls-authz:{}", if allow { "allowed-request-refused" } else { "denied-request-had-effect" }),
                        summary: format!("TLS server with authorization, client certificate {cert} (role {cert_role:?}), policy allows exactly the role {pr:?}: {}", bad.join("; ")),
                        replay: json!({"kind": "c08-tls"}),
                    });
                }
            }
        }
    }
    st
}

struct States(tokio::sync::mpsc::UnboundedSender<ClientState>);

impl Listener<ClientState> for States {
    fn update(&mut self, value: ClientState) -> MaybeAsync<()> {
        let _ = self.0.send(value);
        MaybeAsync::ready(())
    }
}

async fn run_client_cell(c: &Cell) -> Result<Observed, String> {
    let (trust, mut present) = certs_for(c).unwrap();
    if c.ctor == 3 {
        present = match c.cert {
            CertKind::Valid => "srv_ip",
            CertKind::WrongName => "srv_valid",
            _ => present,
        };
    }
    let local = if c.self_signed { "ss_client" } else { "cli_operator" };
    #[allow(deprecated)]
    let cfg = if c.ctor == 1 {
        TlsClientConfig::new("test.com", &cert_path(trust), &cert_path(local), &key_path(local), None, min_version(c), mode(c))
    } else if c.self_signed {
        TlsClientConfig::self_signed(&cert_path(trust), &cert_path(local), &key_path(local), None, min_version(c))
    } else {
        TlsClientConfig::full_pki(if c.ctor == 2 { None } else if c.ctor == 3 { Some("127.0.0.1".to_string()) } else if c.ctor >= 10 { Some(ODD_NAMES[(c.ctor - 10) as usize].to_string()) } else { Some("test.com".to_string()) }, &cert_path(trust), &cert_path(local), &key_path(local), None, min_version(c))
    };
    let cfg = match cfg {
        Ok(c) => c,
        // an expected name that is no name at all may be refused right away
        Err(e) if c.ctor >= 10 => return Ok(Observed { admitted: false, version: "none".into(), roles_seen: vec![], handler_calls: 0, detail: format!("configuration refused: {e}") }),
        Err(e) => return Err(format!("TlsClientConfig: {e}")),
    };
    let (listener, addr) = listen("127.0.0.1").await;
    let (tx, mut states) = tokio::sync::mpsc::unbounded_channel();
    let retry = doubling_retry_strategy(Duration::from_secs(30), Duration::from_secs(30));
    let channel = if c.spawn {
        spawn_tls_client_task(HostAddr::ip(addr.ip(), addr.port()), 4, retry, cfg, DecodeLevel::nothing(), Some(Box::new(States(tx))))
    } else {
        let (ch, task) = create_tls_client_task_with_options(HostAddr::ip(addr.ip(), addr.port()), retry, cfg, Some(Box::new(States(tx))), ClientOptions::default());
        tokio::spawn(task.run());
        ch
    };
    channel.enable().await.map_err(|_| "enable failed".to_string())?;
    let acceptor = tokio_rustls::TlsAcceptor::from(peer_server_config(c.peer, present));
    let (tcp, _) = match tokio::time::timeout(STEP_TIMEOUT, listener.accept()).await {
        Ok(Ok(x)) => x,
        _ => return Err("rodbus client never connected".into()),
    };
    let mut detail;
    let mut version = "none".to_string();
    let mut admitted = false;
    let mut modbus_bytes_seen = 0usize;
    let mut seen_early: Vec<String> = vec![];
    match tokio::time::timeout(STEP_TIMEOUT, acceptor.accept(tcp)).await {
        Err(_) => detail = "peer handshake timed out".to_string(),
        Ok(Err(e)) => detail = format!("peer handshake failed: {e}"),
        Ok(Ok(mut tls)) => {
            version = version_name(tls.get_ref().1.protocol_version());
            // lock-step on the listener: the application request is issued once the client has
            // announced Connected (before that it would rightly fail fast with NoConnection)
            let mut connected = false;
            let deadline = tokio::time::Instant::now() + Duration::from_secs(3);
            while let Ok(Some(s)) = tokio::time::timeout_at(deadline, states.recv()).await {
                seen_early.push(format!("{s:?}"));
                if s == ClientState::Connected {
                    connected = true;
                    break;
                }
                if matches!(s, ClientState::WaitAfterFailedConnect(_)) {
                    break;
                }
            }
            let _ = connected;
            let ch = channel.clone();
            let req = tokio::spawn(async move {
                // wait for the Connected announcement first
                ch.read_holding_registers(RequestParam::new(UnitId::new(1), Duration::from_secs(2)), AddressRange::try_from(0, 2).unwrap()).await
            });
            // give the client time to announce Connected before the request (lock-step on the listener)
            match read_n(&mut tls, 12, Duration::from_secs(3)).await {
                ReadOutcome::Bytes(b) => {
                    modbus_bytes_seen = b.len();
                    let reply = mbap_frame(u16::from_be_bytes([b[0], b[1]]), 1, &[3, 4, 0, 7, 0, 9]);
                    write_all(&mut tls, &reply).await;
                    detail = format!("request {}", hex(&b));
                }
                other => detail = format!("no request: {other:?}"),
            }
            match tokio::time::timeout(STEP_TIMEOUT, req).await {
                Ok(Ok(Ok(v))) => {
                    admitted = v.len() == 2 && v[0].value == 7 && v[1].value == 9;
                }
                Ok(Ok(Err(e))) => detail = format!("{detail}; request failed: {e:?}"),
                _ => detail = format!("{detail}; request did not complete"),
            }
        }
    }
    // collect listener states seen so far
    let mut seen = seen_early;
    while let Ok(s) = states.try_recv() {
        seen.push(format!("{s:?}"));
    }
    let _ = channel.shutdown().await;
    detail = format!("{detail}; states {seen:?}");
    Ok(Observed { admitted, version, roles_seen: vec![], handler_calls: modbus_bytes_seen, detail })
}

pub async fn run_cell(c: &Cell) -> Result<Observed, String> {
    if c.rodbus_is_server {
        run_server_cell(c).await
    } else {
        run_client_cell(c).await
    }
}

fn judge(c: &Cell, e: &Expectation, o: &Observed) -> Vec<(String, String)> {
    let mut out = vec![];
    let who = if c.rodbus_is_server { "server" } else { "client" };
    if e.admitted && !o.admitted {
        out.push((format!("valid-peer-refused:{who}:min{}:peer-{:?}:{:?}", if c.min13 { "1.3" } else { "1.2" }, c.peer, c.cert), format!("expected admission, observed: {}", o.detail)));
    }
    if !e.admitted && o.admitted {
        let why = if c.min13 && c.peer == PeerVersions::Tls12Only && matches!(c.cert, CertKind::Valid | CertKind::OtherRole) { "below-minimum-version".to_string() } else { format!("{:?}", c.cert) };
        out.push((format!("peer-admitted:{who}:{why}"), format!("expected refusal, observed admission at TLS {}: {}", o.version, o.detail)));
    }
    if o.admitted {
        let below = c.min13 && o.version != "1.3";
        if below {
            out.push((format!("negotiated-below-minimum:{who}"), format!("negotiated TLS {} with minimum 1.3", o.version)));
        }
    }
    if c.rodbus_is_server {
        if !o.admitted && o.handler_calls > 0 {
            out.push(("modbus-processed-before-authentication".into(), format!("{} handler calls although the peer was refused", o.handler_calls)));
        }
        if let Some(r) = e.role {
            if o.admitted && o.roles_seen != vec![r.to_string()] {
                out.push(("wrong-role".into(), format!("authorization handler saw roles {:?}, expected [{r}]", o.roles_seen)));
            }
        }
        if !o.admitted && !o.roles_seen.is_empty() {
            out.push(("authorization-queried-for-refused-peer".into(), format!("{:?}", o.roles_seen)));
        }
    } else if !o.admitted && o.handler_calls > 0 {
        out.push(("modbus-sent-before-authentication".into(), format!("the client sent {} Modbus bytes to a peer it should have refused", o.handler_calls)));
    }
    out
}

/// peers that send Modbus bytes instead of / before finishing the TLS handshake
async fn pre_handshake_probe(c: &Cell, mid_handshake: bool) -> Result<Vec<(String, String)>, String> {
    let (trust, present) = certs_for(c).unwrap();
    let s = start_tls_server(c, trust, AddressFilter::Any, "127.0.0.1", 4).await?;
    let mut tcp = connect_from("127.0.0.1", s.addr).await.map_err(|e| format!("connect: {e}"))?;
    if mid_handshake {
        // a genuine ClientHello first
        let cfg = peer_client_config(c.peer, present);
        let mut conn = rustls::ClientConnection::new(cfg, rustls::pki_types::ServerName::try_from("test.com").unwrap()).map_err(|e| e.to_string())?;
        let mut hello = vec![];
        conn.write_tls(&mut hello).map_err(|e| e.to_string())?;
        write_all(&mut tcp, &hello).await;
    }
    let req = mbap_frame(0x0102, 1, &SENTINEL);
    write_all(&mut tcp, &req).await;
    let got = read_n(&mut tcp, 4096, Duration::from_millis(if mid_handshake { 400 } else { 1500 })).await;
    let bytes = match &got {
        ReadOutcome::Bytes(b) | ReadOutcome::Eof(b) | ReadOutcome::Timeout(b) | ReadOutcome::Error(_, b) => b.clone(),
    };
    tokio::time::sleep(Duration::from_millis(5)).await;
    let calls = s.app.log.lock().unwrap().len();
    let _ = s.handle.shutdown().await;
    let mut out = vec![];
    if calls > 0 {
        out.push(("modbus-processed-before-authentication".to_string(), format!("{calls} handler/authorization calls for bytes sent before the handshake")));
    }
    // a Modbus reply would echo the transaction id and protocol id 0
    if bytes.windows(4).any(|w| w == [0x01, 0x02, 0x00, 0x00]) {
        out.push(("modbus-reply-before-authentication".to_string(), format!("server answered {}", hex(&bytes))));
    }
    Ok(out)
}

pub fn all_cells(spawn: bool) -> Vec<Cell> {
    let mut v = vec![];
    for min13 in [false, true] {
        for self_signed in [false, true] {
            for authz in [false, true] {
                for rodbus_is_server in [true, false] {
                    for peer in [PeerVersions::Tls12Only, PeerVersions::Tls13Only, PeerVersions::Both] {
                        for cert in CERT_KINDS {
                            v.push(Cell { min13, self_signed, authz, rodbus_is_server, peer, cert, spawn, ctor: 0 });
                        }
                    }
                }
            }
        }
    }
    v
}

/// validity periods that begin or end within minutes of now (certificates minted at run time: a
/// pre-minted one with its two UTCTime values replaced, signed again with the issuer's key)
pub fn validity_phase() -> Stats {
    let mut st = Stats::default();
    let windows: [(&str, i64, i64, CertKind); 3] = [("valid-2min-either-side", -120, 120, CertKind::Valid), ("valid-in-2min", 120, 100_000, CertKind::NotYetValid), ("expired-2min-ago", -100_000, -120, CertKind::Expired)];
    for rodbus_is_server in [true, false] {
        for self_signed in [false, true] {
            for (tag, nb, na, kind) in windows {
                let (base, signer) = match (rodbus_is_server, self_signed) {
                    (true, false) => ("cli_operator", "ca_a"),
                    (true, true) => ("ss_client", "ss_client"),
                    (false, false) => ("srv_valid", "ca_a"),
                    (false, true) => ("ss_server", "ss_server"),
                };
                let minted = match mint_validity(base, signer, nb, na, tag) {
                    Ok(n) => n,
                    Err(e) => {
                        st.violation(Violation { signature: "MACHINERY:mint".into(), summary: format!("{base} {tag}: {e}"), replay: json!({}) });
                        continue;
                    }
                };
                let minted: &'static str = Box::leak(minted.into_boxed_str());
                let trust: &'static str = if self_signed { minted } else { "ca_a" };
                // ctor 7 marks the run-time cells (no other cell uses it)
                let cell = Cell { min13: false, self_signed, authz: false, rodbus_is_server, peer: PeerVersions::Both, cert: kind, spawn: false, ctor: 7 };
                CERT_OVERRIDE.lock().unwrap().retain(|x| x.0 != cell);
                CERT_OVERRIDE.lock().unwrap().push((cell, trust, minted));
                let e = Expectation { admitted: kind == CertKind::Valid, role: None };
                st.evaluations += 1;
                st.class("validity-boundary");
                match rt().block_on(run_cell(&cell)) {
                    Err(err) => st.violation(Violation { signature: "MACHINERY:cell-error".into(), summary: format!("{cell:?} {tag}: {err}"), replay: json!({}) }),
                    Ok(o) => {
                        st.observe(&(rodbus_is_server, self_signed, tag, o.admitted));
                        for (sig, desc) in judge(&cell, &e, &o) {
                            st.violation(Violation { signature: format!("{sig}:validity-{tag}"), summary: format!("{} in {} mode, peer certificate {tag} (validity [now{nb:+} s, now{na:+} s]): {desc}", if rodbus_is_server { "server" } else { "client" }, if self_signed { "self-signed" } else { "authority" }), replay: json!({"kind": "c09-validity"}) });
                        }
                    }
                }
            }
        }
    }
    st
}

/// client certificates carrying the Modbus role extension twice (minted at run time): in
/// authorization mode "the role is exactly the single role extension" leaves no role to pick
pub fn two_roles_phase() -> Stats {
    let mut st = Stats::default();
    for (k, roles) in [("operator", "operator"), ("operator", "observer"), ("observer", "operator")].into_iter().enumerate() {
        let tag = format!("two-roles-{k}");
        let minted = match mint_two_roles("cli_operator", "ca_a", roles, &tag) {
            Ok(n) => n,
            Err(e) => {
                st.violation(Violation { signature: "MACHINERY:mint".into(), summary: format!("two roles {roles:?}: {e}"), replay: json!({}) });
                continue;
            }
        };
        let minted: &'static str = Box::leak(minted.into_boxed_str());
        for authz in [true, false] {
            for peer in [PeerVersions::Tls12Only, PeerVersions::Tls13Only] {
                // ctor 8 marks these cells; CertKind::Valid so that only the override differs
                let cell = Cell { min13: false, self_signed: false, authz, rodbus_is_server: true, peer, cert: CertKind::Valid, spawn: false, ctor: 8 };
                CERT_OVERRIDE.lock().unwrap().retain(|x| x.0 != cell);
                CERT_OVERRIDE.lock().unwrap().push((cell, "ca_a", minted));
                // without authorization nobody reads the extension: the certificate is as good as any
                let e = Expectation { admitted: !authz, role: None };
                st.evaluations += 1;
                st.class("two-role-extensions");
                match rt().block_on(run_cell(&cell)) {
                    Err(err) => st.violation(Violation { signature: "MACHINERY:cell-error".into(), summary: format!("{cell:?} {tag}: {err}"), replay: json!({}) }),
                    Ok(o) => {
                        st.observe(&(authz, peer, roles, o.admitted, &o.roles_seen));
                        for (sig, desc) in judge(&cell, &e, &o) {
                            st.violation(Violation {
                                signature: format!("{sig}:two-role-extensions"),
                                summary: format!("server {} authorization, client certificate with two role extensions {roles:?}, peer {peer:?}: {desc}", if authz { "with" } else { "without" }),
                                replay: json!({"kind": "c09-two-roles"}),
                            });
                        }
                    }
                }
            }
        }
    }
    st
}

/// The client dials a host *name* (`HostAddr::dns("localhost")`) while it is configured to expect
/// the certificate name "test.com": the name that decides is the configured one. Returns
/// (reached, admitted): `reached` is false when the name did not lead to our listener at all.
pub async fn dialed_name_case(present: &str) -> Result<(bool, bool), String> {
    let cfg = TlsClientConfig::full_pki(Some("test.com".to_string()), &cert_path("ca_a"), &cert_path("cli_operator"), &key_path("cli_operator"), None, MinTlsVersion::V1_2).map_err(|e| format!("TlsClientConfig: {e}"))?;
    let (listener, addr) = listen("127.0.0.1").await;
    let retry = doubling_retry_strategy(Duration::from_millis(200), Duration::from_millis(200));
    let (channel, task) = create_tls_client_task_with_options(HostAddr::dns("localhost".to_string(), addr.port()), retry, cfg, None, ClientOptions::default());
    let join = tokio::spawn(task.run());
    channel.enable().await.map_err(|_| "enable failed".to_string())?;
    let ch2 = channel.clone();
    // requests fail at once while the channel is not connected: keep asking
    let req = tokio::spawn(async move {
        loop {
            let _ = ch2.read_holding_registers(RequestParam::new(UnitId::new(1), Duration::from_secs(2)), AddressRange::try_from(0, 2).unwrap()).await;
            tokio::time::sleep(Duration::from_millis(20)).await;
        }
    });
    let acceptor = tokio_rustls::TlsAcceptor::from(peer_server_config(PeerVersions::Both, present));
    let mut reached = false;
    let mut admitted = false;
    if let Ok(Ok((tcp, _))) = tokio::time::timeout(Duration::from_secs(3), listener.accept()).await {
        reached = true;
        if let Ok(Ok(mut tls)) = tokio::time::timeout(STEP_TIMEOUT, acceptor.accept(tcp)).await {
            // a Modbus request from the client means that it accepted our certificate
            if let ReadOutcome::Bytes(_) = read_n(&mut tls, 12, Duration::from_secs(2)).await {
                admitted = true;
            }
        }
    }
    req.abort();
    drop(channel);
    join.abort();
    Ok((reached, admitted))
}

pub fn dialed_name_phase() -> Stats {
    let mut st = Stats::default();
    let minted = match mint_san("srv_valid", "ca_a", "localhost", "san-localhost") {
        Ok(n) => n,
        Err(e) => {
            st.violation(Violation { signature: "MACHINERY:mint".into(), summary: format!("SAN localhost: {e}"), replay: json!({}) });
            return st;
        }
    };
    for (present, want, what) in [(minted.as_str(), false, "a certificate of the configured authority that names only the dialed host (localhost)"), ("srv_valid", true, "the certificate naming test.com")] {
        st.evaluations += 1;
        match rt().block_on(dialed_name_case(present)) {
            Err(e) => st.violation(Violation { signature: "MACHINERY:cell-error".into(), summary: format!("dialed-name case {present}: {e}"), replay: json!({}) }),
            Ok((false, _)) => st.class("dialed-name:localhost-does-not-lead-here"),
            Ok((true, admitted)) => {
                st.class("dialed-name-vs-expected-name");
                st.observe(&(want, admitted));
                if admitted != want {
                    st.violation(Violation {
                        signature: if admitted { "peer-admitted:client:dialed-name".to_string() } else { "valid-peer-refused:client:dialed-name".to_string() },
                        summary: format!("client configured to expect \"test.com\", endpoint given as the host name \"localhost\", server presents {what}: admitted={admitted}, expected {want}"),
                        replay: json!({"kind": "c09-dialed-name"}),
                    });
                }
            }
        }
    }
    st
}

pub fn check_c09(tier: &str) -> i32 {
    let mut rep = Report::new(
        "C09",
        tier,
        "exploration",
        "the whole configuration grid {min version 1.2, 1.3} x {authority, self-signed} x {with, without authorization} x {rodbus is client, server} x peer offers {TLS1.2 only, TLS1.3 only, both} x peer certificate {valid, wrong authority, wrong name, expired, not yet valid, role-less, differently roled} = 336 cells over real loopback sockets: the rodbus endpoint is built with the unmodified public API, the peer is an independent rustls endpoint with explicit protocol versions and a permissive verifier, so the verdict is rodbus' alone; admission is judged by an answered Modbus request, the negotiated version by the peer, the role by an authorization handler; cells that are not meaningful are listed as n/a; per server configuration two more peers send Modbus bytes instead of / in the middle of the handshake; outside the grid: a certificate issued by the pinned self-signed certificate, certificates with the pinned certificate's subject / subject and key but other bytes, client chains in which an unrelated certificate carrying another role follows the client certificate, and client configurations built with the legacy constructor, without an expected server name, with an IP literal as the expected name and with five strings that are neither (\"*\", \"\", \"*.com\", \"test.com:802\", \"test com\"); a client certificate whose role has a leading blank and a capital letter; certificates whose validity begins or ends within two minutes of now and client certificates carrying the role extension twice (both minted at run time); one resuming rustls client against two servers of the same process that trust different authorities / pin different certificates. distinct = distinct (cell, observation) pairs",
    );
    let thorough = rep.thorough();
    let mut cells = all_cells(false);
    if thorough {
        cells.extend(all_cells(true));
    }
    // extra probes outside the 336-cell grid
    for rodbus_is_server in [true, false] {
        for peer in [PeerVersions::Tls12Only, PeerVersions::Tls13Only, PeerVersions::Both] {
            for authz in [false, true] {
                for cert in [CertKind::IssuedByPinned, CertKind::SameSubjectOtherKey, CertKind::SameKeyReissued] {
                    cells.push(Cell { min13: false, self_signed: true, authz, rodbus_is_server, peer, cert, spawn: false, ctor: 0 });
                }
                if rodbus_is_server {
                    for cert in [CertKind::ViewerThenOperatorInChain, CertKind::RoleLessThenOperatorInChain, CertKind::OddRole] {
                        cells.push(Cell { min13: false, self_signed: false, authz, rodbus_is_server, peer, cert, spawn: false, ctor: 0 });
                    }
                }
            }
        }
    }
    // client configurations built by the legacy constructor and without an expected name
    for min13 in [false, true] {
        for self_signed in [false, true] {
            for peer in [PeerVersions::Tls12Only, PeerVersions::Tls13Only] {
                for cert in [CertKind::Valid, CertKind::WrongAuthority, CertKind::WrongName, CertKind::Expired] {
                    cells.push(Cell { min13, self_signed, authz: false, rodbus_is_server: false, peer, cert, spawn: false, ctor: 1 });
                    if !self_signed {
                        cells.push(Cell { min13, self_signed, authz: false, rodbus_is_server: false, peer, cert, spawn: false, ctor: 2 });
                        cells.push(Cell { min13, self_signed, authz: false, rodbus_is_server: false, peer, cert, spawn: false, ctor: 3 });
                    }
                }
            }
        }
    }
    // expected server names that are no names: the configuration is refused or nobody is admitted
    for k in 0..ODD_NAMES.len() as u8 {
        for cert in [CertKind::Valid, CertKind::WrongName] {
            cells.push(Cell { min13: false, self_signed: false, authz: false, rodbus_is_server: false, peer: PeerVersions::Both, cert, spawn: false, ctor: 10 + k });
        }
    }
    rep.bounds = json!({"cells": cells.len(), "constructors": if thorough { "create_* and spawn_*" } else { "create_*" }});
    let results: Arc<Mutex<Vec<(Cell, Option<Expectation>, Result<Observed, String>)>>> = Arc::new(Mutex::new(vec![]));
    let probes: Arc<Mutex<Vec<(Cell, bool, Result<Vec<(String, String)>, String>)>>> = Arc::new(Mutex::new(vec![]));
    rt().block_on(async {
        let sem = Arc::new(tokio::sync::Semaphore::new(12));
        let mut joins = vec![];
        for c in cells.iter().copied() {
            let e = ref_tls(&c);
            let results = results.clone();
            let sem = sem.clone();
            joins.push(tokio::spawn(async move {
                let _p = sem.acquire().await.unwrap();
                let o = if e.is_some() { run_cell(&c).await } else { Err("n/a".to_string()) };
                results.lock().unwrap().push((c, e, o));
            }));
        }
        // pre-handshake probes: one per server configuration (valid certificate, peer offers both)
        for c in cells.iter().copied().filter(|c| c.rodbus_is_server && c.cert == CertKind::Valid && c.peer == PeerVersions::Both) {
            for mid in [false, true] {
                let probes = probes.clone();
                let sem = sem.clone();
                joins.push(tokio::spawn(async move {
                    let _p = sem.acquire().await.unwrap();
                    let r = pre_handshake_probe(&c, mid).await;
                    probes.lock().unwrap().push((c, mid, r));
                }));
            }
        }
        for j in joins {
            let _ = j.await;
        }
    });
    let mut st = Stats::default();
    let mut res = results.lock().unwrap().clone();
    res.sort_by_key(|x| format!("{:?}", x.0));
    for (c, e, o) in res {
        match (e, o) {
            (None, _) => st.class("n/a"),
            (Some(_), Err(err)) => {
                st.class("cell-error");
                st.violation(Violation { signature: "MACHINERY:cell-error".into(), summary: format!("{c:?}: {err}"), replay: json!({"kind": "c09", "cell": c}) });
            }
            (Some(e), Ok(o)) => {
                st.evaluations += 1;
                st.class(if e.admitted { "expected-admitted" } else { "expected-refused" });
                st.observe(&(c, &o.admitted, &o.version, &o.roles_seen));
                if st.evaluations % 37 == 1 {
                    st.sample(json!({"cell": c, "expected_admitted": e.admitted, "observed_admitted": o.admitted, "version": o.version, "roles": o.roles_seen}));
                }
                for (sig, desc) in judge(&c, &e, &o) {
                    st.violation(Violation { signature: sig, summary: format!("{c:?}: {desc}"), replay: json!({"kind": "c09", "cell": c}) });
                }
            }
        }
    }
    rep.phase("grid", st, json!({}));
    let st = validity_phase();
    rep.phase("validity periods beginning / ending within two minutes of now", st, json!({}));
    let st = two_roles_phase();
    rep.phase("client certificates carrying the role extension twice (minted at run time)", st, json!({"certificates": 3}));
    rep.require_class("two-role-extensions");
    let st = dialed_name_phase();
    cleanup_minted();
    rep.phase("client that dials a host name other than the certificate name it expects", st, json!({"dialed": "localhost", "expected": "test.com"}));
    // session resumption across two differently configured servers of one process
    {
        let mut st = Stats::default();
        for versions in [PeerVersions::Tls12Only, PeerVersions::Tls13Only, PeerVersions::Both] {
            for self_signed in [false, true] {
                let r = rt().block_on(resumption_probe(versions, self_signed));
                st.evaluations += 1;
                st.class("resumption-across-servers");
                st.observe(&(versions, self_signed, r.as_ref().map(|x| (x.0, x.1)).ok()));
                match r {
                    Err(e) => st.violation(Violation { signature: "MACHINERY:resumption-probe".into(), summary: e, replay: json!({}) }),
                    Ok((a, b, detail)) => {
                        if !a {
                            st.violation(Violation { signature: format!("valid-peer-refused:server:resumption-probe:{versions:?}"), summary: format!("the first server refused its valid peer: {detail}"), replay: json!({"kind": "c09-resumption", "versions": versions, "self_signed": self_signed}) });
                        }
                        if b {
                            st.violation(Violation {
                                signature: format!("peer-admitted:server:resumed-from-another-server:{versions:?}"),
                                summary: format!("a peer admitted by a server trusting {} was then served by a server of the same process that trusts something else ({}): {detail}", if self_signed { "its pinned certificate" } else { "authority A" }, if self_signed { "another pinned certificate" } else { "authority B" }),
                                replay: json!({"kind": "c09-resumption", "versions": versions, "self_signed": self_signed}),
                            });
                        }
                    }
                }
            }
        }
        rep.phase("session resumption across two differently configured servers", st, json!({}));
    }
    let mut st = Stats::default();
    let mut pr = probes.lock().unwrap().clone();
    pr.sort_by_key(|x| format!("{:?}{}", x.0, x.1));
    for (c, mid, r) in pr {
        st.evaluations += 1;
        st.class(if mid { "modbus-bytes-mid-handshake" } else { "modbus-bytes-instead-of-handshake" });
        st.observe(&(c, mid));
        match r {
            Err(e) => st.violation(Violation { signature: "MACHINERY:probe-error".into(), summary: format!("{c:?}: {e}"), replay: json!({"kind": "c09-probe", "cell": c, "mid": mid}) }),
            Ok(p) => {
                for (sig, desc) in p {
                    st.violation(Violation { signature: sig, summary: format!("{c:?} mid_handshake={mid}: {desc}"), replay: json!({"kind": "c09-probe", "cell": c, "mid": mid}) });
                }
            }
        }
    }
    rep.phase("pre-handshake Modbus bytes", st, json!({}));
    for c in ["expected-admitted", "expected-refused", "n/a", "modbus-bytes-mid-handshake", "modbus-bytes-instead-of-handshake"] {
        rep.require_class(c);
    }
    rep.exhaustive = true;
    rep.assumptions.push("rustls, webpki and the OS are trusted; the check judges rodbus' use of them cell by cell".into());
    rep.assumptions.push("a certificate with two Modbus role extensions cannot be minted with the tooling in the image (openssl keeps the last duplicate) and is rejected by webpki before rodbus sees it: the 'more than one role' branch is not covered".into());
    rep.assumptions.push("system time must lie inside 2020..2048 for the pre-minted certificates".into());
    rep.finish()
}

pub fn replay_c09(v: &serde_json::Value) -> Vec<(String, String)> {
    if v["kind"] == "c09-dialed-name" {
        return dialed_name_phase().violations_as_pairs();
    }
    if v["kind"] == "c09-two-roles" {
        return two_roles_phase().violations_as_pairs();
    }
    if v["kind"] == "c09-validity" {
        return validity_phase().violations_as_pairs();
    }
    if v["kind"] == "c09-resumption" {
        let versions: PeerVersions = serde_json::from_value(v["versions"].clone()).unwrap();
        let self_signed = v["self_signed"].as_bool().unwrap();
        return match rt().block_on(resumption_probe(versions, self_signed)) {
            Err(e) => vec![("MACHINERY:resumption-probe".into(), e)],
            Ok((a, b, detail)) => {
                let mut out = vec![];
                if !a {
                    out.push(("valid-peer-refused:server:resumption-probe".to_string(), detail.clone()));
                }
                if b {
                    out.push(("peer-admitted:server:resumed-from-another-server".to_string(), detail));
                }
                out
            }
        };
    }
    let c: Cell = serde_json::from_value(v["cell"].clone()).unwrap();
    if v["kind"] == "c09-probe" {
        let mid = v["mid"].as_bool().unwrap();
        return rt().block_on(pre_handshake_probe(&c, mid)).unwrap_or_else(|e| vec![("MACHINERY:probe-error".into(), e)]);
    }
    match ref_tls(&c) {
        None => vec![],
        Some(e) => match rt().block_on(run_cell(&c)) {
            Err(err) => vec![("MACHINERY:cell-error".into(), err)],
            Ok(o) => judge(&c, &e, &o),
        },
    }
}

//! C03 (client transmits exactly the encoding, or nothing) and C04 (client accepts only the
//! genuine matching reply).

use crate::checks::server_family::L16;
use crate::hclient::*;
use crate::hserver::hex;
use crate::refmodel::pdu::{self, *};
use crate::report::*;
use rodbus::client::WriteMultiple;
use rodbus::{AddressRange, DecodeLevel};
use serde_json::json;

fn frame(rtu: bool, tx: u16, unit: u8, p: &[u8]) -> Vec<u8> {
    if rtu {
        pdu::rtu_frame(unit, p)
    } else {
        pdu::mbap_frame(tx, unit, p)
    }
}

/// a correct reply PDU for a request (values are a fixed pattern)
pub fn good_reply(req: &Req) -> (Vec<u8>, Values) {
    let v = match req {
        Req::ReadBits { start, count, .. } => Values::Bits(
            (0..*count).map(|i| (start.wrapping_add(i), (i % 3 == 0) ^ (i % 7 == 2))).collect(),
        ),
        Req::ReadRegs { start, count, .. } => Values::Regs(
            (0..*count).map(|i| (start.wrapping_add(i), i.wrapping_mul(257).wrapping_add(0xA001))).collect(),
        ),
        Req::WriteSingleCoil { addr, value } => Values::EchoCoil(*addr, *value),
        Req::WriteSingleReg { addr, value } => Values::EchoReg(*addr, *value),
        _ => {
            let (s, c) = req.span();
            Values::EchoRange(s, c)
        }
    };
    (encode_reply(req, &v), v)
}

struct Wire {
    h: ClientSessionHarness,
    /// the transport takes only a few bytes per write call: a frame then arrives in pieces
    short_writes: bool,
    /// transaction id of the last frame seen on the wire
    last_tx: Option<u16>,
    /// requests rejected since then that may or may not have consumed a transaction id
    slack: u16,
}

impl Wire {
    fn new(rtu: bool) -> Self {
        Self::with_short_writes(rtu, None)
    }

    /// `short`: the transport takes at most that many bytes per write call
    fn with_short_writes(rtu: bool, short: Option<usize>) -> Self {
        let mut h = ClientSessionHarness::new(rtu, DecodeLevel::nothing(), None, 16);
        if let Some(k) = short {
            h.io.set_write_mode(crate::sim::WriteMode::AcceptAtMost(k));
        }
        h.settle();
        Wire { h, short_writes: short.is_some(), last_tx: None, slack: 0 }
    }
}

/// C03 (c): submit one request, look at the wire, complete the transaction.
/// Returns a list of (signature, description)
fn c03_case(w: &mut Wire, req: &Req, unit: u8, style: Style, st: &mut Stats) -> Vec<(String, String)> {
    let mut out = vec![];
    let rtu = w.h.rtu;
    let within = request_within_limits(req);
    let res = w.h.submit(req, unit, 1000, style);
    let ok = w.h.settle();
    if !ok {
        out.push(("busy-loop".into(), "poll budget exceeded".into()));
        return out;
    }
    if let Some(p) = &w.h.task.panicked {
        out.push(("panic".into(), format!("client task panicked: {p}")));
        return out;
    }
    let writes = w.h.io.take_written();
    let flat: Vec<u8> = writes.concat();
    let done = w.h.take_done();
    match res {
        Err(rej) => {
            st.class(if rej == Rejected::AtConstruction { "rejected-at-construction" } else { "rejected-at-call" });
            if within && rej == Rejected::AtConstruction {
                out.push(("valid-request-refused-by-constructor".into(), format!("{req:?}")));
            }
            if within && matches!(rej, Rejected::AtCall(_)) {
                out.push(("valid-request-refused-by-call".into(), format!("{req:?} {rej:?}")));
            }
            if !flat.is_empty() {
                out.push(("transmitted-after-rejection".into(), format!("{req:?}: {}", hex(&flat))));
            }
            return out;
        }
        Ok(id) => {
            if !within {
                st.class("rejected-by-channel");
                // must be rejected: an error result, nothing on the wire
                if !flat.is_empty() {
                    out.push((
                        format!("over-limit-transmitted:fc{}", req.fc()),
                        format!("request outside protocol limits was transmitted ({} bytes): {:?}", flat.len(), short(req)),
                    ));
                    // complete the transaction so that the session stays usable
                    w.last_tx = if rtu { None } else { Some(u16::from_be_bytes([flat[0], flat[1]])) };
                    w.slack = 0;
                    let (rp, _) = good_reply(req);
                    if rp.len() <= 253 {
                        w.h.io.deliver(&frame(rtu, w.last_tx.unwrap_or(0), unit, &rp));
                        w.h.settle();
                        w.h.take_done();
                    }
                    return out;
                }
                w.slack += 1;
                match done.iter().find(|d| d.0 == id) {
                    Some((_, Outcome::Err(ErrClass::BadRequest | ErrClass::Internal), _)) => {}
                    Some((_, o, _)) => out.push((
                        "over-limit-wrong-result".into(),
                        format!("{:?}: expected a request error, got {o:?}", short(req)),
                    )),
                    None => out.push((
                        "over-limit-left-pending".into(),
                        format!("{:?}: no completion", short(req)),
                    )),
                }
                return out;
            }
            st.class("transmitted");
            // exactly one frame, exactly the encoding
            let body = encode_request(req);
            let mut matched = false;
            if rtu {
                matched = flat == pdu::rtu_frame(unit, &body);
            } else if flat.len() >= 2 {
                let tx = u16::from_be_bytes([flat[0], flat[1]]);
                matched = flat == pdu::mbap_frame(tx, unit, &body);
                // transaction ids advance by one per request taken from the queue
                if let Some(last) = w.last_tx {
                    let d = tx.wrapping_sub(last);
                    if d == 0 || d > 1 + w.slack {
                        out.push((
                            "transaction-id-sequence".into(),
                            format!("tx id {tx:#06x} after {last:#06x} with {} rejected requests in between", w.slack),
                        ));
                    }
                } else if tx > w.slack {
                    out.push(("transaction-id-sequence".into(), format!("first tx id {tx:#06x}")));
                }
                w.last_tx = Some(tx);
                w.slack = 0;
            }
            if !matched {
                out.push((
                    format!("wrong-encoding:fc{}", req.fc()),
                    format!("{:?} unit {unit}: wire {} expected pdu {}", short(req), hex(&flat), hex(&body)),
                ));
            } else if writes.len() != 1 && !w.short_writes {
                out.push(("frame-split".into(), format!("frame written in {} pieces", writes.len())));
            }
            if flat.len() > if rtu { 256 } else { 260 } {
                out.push(("frame-too-long".into(), format!("{} bytes", flat.len())));
            }
            if !done.is_empty() {
                out.push(("completed-before-reply".into(), format!("{done:?}")));
            }
            // complete the transaction with a correct reply
            let (rp, vals) = good_reply(req);
            w.h.io.deliver(&frame(rtu, w.last_tx.unwrap_or(0), unit, &rp));
            w.h.settle();
            let done = w.h.take_done();
            if matched {
                match done.iter().find(|d| d.0 == id) {
                    Some((_, Outcome::Ok(v), _)) if *v == vals => {}
                    other => out.push((
                        "correct-reply-not-accepted".into(),
                        format!("{:?}: {:?}", short(req), other.map(|x| &x.1)),
                    )),
                }
            }
            if w.h.task.is_done() {
                out.push(("session-ended".into(), format!("{:?}", w.h.task.output)));
            }
        }
    }
    out
}

fn short(req: &Req) -> String {
    match req {
        Req::WriteMultiCoils { start, values } => format!("WriteMultiCoils start={start} n={}", values.len()),
        Req::WriteMultiRegs { start, values } => format!("WriteMultiRegs start={start} n={}", values.len()),
        x => format!("{x:?}"),
    }
}

fn c03_requests(thorough: bool) -> Vec<Req> {
    let mut v = vec![];
    let counts: Vec<u16> = if thorough {
        (0..=65535u16).collect()
    } else {
        let mut c: Vec<u16> = (0..=2100).step_by(1).collect();
        c.extend_from_slice(&[0x7FFF, 0x8000, 0xFFFE, 0xFFFF]);
        c
    };
    for fc in 1..=4u8 {
        let starts: Vec<u16> = if thorough || fc == 1 || fc == 3 { L16.to_vec() } else { vec![0, 1, 0xFFFF] };
        for s in starts {
            for c in &counts {
                if !thorough && (fc == 3 || fc == 4) && *c > 300 && *c < 0x7FFF {
                    continue;
                }
                v.push(if fc <= 2 {
                    Req::ReadBits { fc, start: s, count: *c }
                } else {
                    Req::ReadRegs { fc, start: s, count: *c }
                });
            }
        }
    }
    for a in L16 {
        for x in L16 {
            v.push(Req::WriteSingleReg { addr: a, value: x });
        }
        v.push(Req::WriteSingleCoil { addr: a, value: true });
        v.push(Req::WriteSingleCoil { addr: a, value: false });
    }
    let lens: Vec<usize> = if thorough { (0..=2100).collect() } else { (0..=40).chain(1950..=2050).collect() };
    for (si, s) in [0u16, 1, 0xF000, 0xFFFF].into_iter().enumerate() {
        for n in &lens {
            for pat in 0..3usize {
                if !thorough && pat > 0 && *n > 20 {
                    continue;
                }
                let vals: Vec<bool> = (0..*n).map(|i| match pat { 0 => false, 1 => true, _ => (i + si) % 2 == 0 }).collect();
                v.push(Req::WriteMultiCoils { start: s, values: vals });
            }
        }
        for n in (0..=140usize).chain(if thorough { 141..=300 } else { 141..=141 }) {
            let vals: Vec<u16> = (0..n).map(|i| (i as u16).wrapping_mul(0x0101).wrapping_add(si as u16)).collect();
            v.push(Req::WriteMultiRegs { start: s, values: vals });
        }
    }
    // one-hot coil patterns (bit order)
    for hot in 0..17usize {
        let vals: Vec<bool> = (0..17).map(|i| i == hot).collect();
        v.push(Req::WriteMultiCoils { start: 5, values: vals });
    }
    v
}

pub fn check_c03(tier: &str) -> i32 {
    let mut rep = Report::new(
        "C03",
        tier,
        "exploration",
        "exhaustive input enumeration: (a) AddressRange::try_from over (start,count) pairs against the closed-form predicate, (b) WriteMultiple::from over lengths 0..=2100 and 65535..=65537, (c) every request of the stated space submitted through the production client loop (TCP and RTU framing, 5 unit ids, future/callback/FfiChannel styles; also over a transport that takes 1 or 5 bytes per write call); every poll_write is logged and compared with the reference encoding; requests outside protocol limits must produce an error and zero bytes; (d) all sequences of up to 4 requests x outcomes {answered, exception, bad reply, timed out, connection lost, write error, write blocked after 0/1/7/11 bytes and resumed later} on the production TcpChannelTask: every frame written is the encoding of the next request with the next transaction id. distinct = distinct wire frames / rejection classes",
    );
    let thorough = rep.thorough();
    // (a) constructor
    let starts: Vec<u32> = if thorough { (0..65536).collect() } else { L16.iter().map(|x| *x as u32).collect() };
    let st = parallel(starts.len(), |i, st| {
        let s = starts[i] as u16;
        let mut bad = 0u64;
        for c in 0..=65535u16 {
            let expect = c >= 1 && (s as u32) + (c as u32) - 1 <= 0xFFFF;
            let got = AddressRange::try_from(s, c);
            let ok = match got {
                Ok(r) => expect && r.start == s && r.count == c,
                Err(_) => !expect,
            };
            if !ok {
                bad += 1;
                st.violation(Violation {
                    signature: "address-range-constructor".into(),
                    summary: format!("AddressRange::try_from({s},{c}) = {got:?}, expected ok={expect}"),
                    replay: json!({"kind": "c03-ctor", "start": s, "count": c}),
                });
            }
        }
        st.evaluations += 65536;
        st.observe(&(s >> 12, bad));
        st.class(if bad == 0 { "ctor-column-ok" } else { "ctor-column-bad" });
    });
    rep.phase("AddressRange::try_from", st, json!({"starts": starts.len(), "counts": 65536}));
    if !thorough {
        let st = parallel(L16.len(), |i, st| {
            let c = L16[i];
            for s in 0..=65535u16 {
                let expect = c >= 1 && (s as u32) + (c as u32) - 1 <= 0xFFFF;
                let got = AddressRange::try_from(s, c);
                if got.is_ok() != expect {
                    st.violation(Violation {
                        signature: "address-range-constructor".into(),
                        summary: format!("AddressRange::try_from({s},{c}) = {got:?}, expected ok={expect}"),
                        replay: json!({"kind": "c03-ctor", "start": s, "count": c}),
                    });
                }
            }
            st.evaluations += 65536;
        });
        rep.phase("AddressRange::try_from (all starts x lattice counts)", st, json!({}));
    }
    // (b) WriteMultiple::from
    let lens: Vec<usize> = (0..=2100).chain([65534, 65535, 65536, 65537]).collect();
    let st = parallel(lens.len(), |i, st| {
        let n = lens[i];
        for s in L16 {
            let expect = n >= 1 && n <= 65535 && (s as usize) + n - 1 <= 0xFFFF;
            let got = WriteMultiple::from(s, vec![0u16; n]).is_ok();
            let got_b = WriteMultiple::from(s, vec![false; n]).is_ok();
            st.evaluations += 2;
            if got != expect || got_b != expect {
                st.violation(Violation {
                    signature: "write-multiple-constructor".into(),
                    summary: format!("WriteMultiple::from({s}, len {n}) ok={got}/{got_b}, expected {expect}"),
                    replay: json!({"kind": "c03-wm", "start": s, "len": n}),
                });
            }
        }
        st.observe(&(n.min(3), n > 65535));
    });
    rep.phase("WriteMultiple::from", st, json!({"lengths": lens.len()}));
    // (c) through the channel
    let reqs = c03_requests(thorough);
    let units = [1u8, 0, 247, 248, 255];
    let mut jobs: Vec<(bool, u8, Style, Option<usize>)> = vec![];
    for rtu in [false, true] {
        for (ui, u) in units.iter().enumerate() {
            for style in [Style::Future, Style::Callback, Style::Ffi] {
                // every style with unit 1; every unit with the future style
                if ui == 0 || style == Style::Future {
                    jobs.push((rtu, *u, style, None));
                }
            }
        }
        // a transport that takes 1 / 5 bytes per write call: the same frames, whole
        jobs.push((rtu, 1, Style::Future, Some(1)));
        jobs.push((rtu, 1, Style::Future, Some(5)));
    }
    let chunk = 4096usize;
    let n_chunks = reqs.len().div_ceil(chunk);
    let st = parallel(jobs.len() * n_chunks, |j, st| {
        let (rtu, unit, style, short_writes) = jobs[j / n_chunks];
        let part = &reqs[(j % n_chunks) * chunk..((j % n_chunks + 1) * chunk).min(reqs.len())];
        let mut w = Wire::with_short_writes(rtu, short_writes);
        if short_writes.is_some() {
            st.class("short-writes");
        }
        for req in part {
            st.evaluations += 1;
            let describe = || ("c03".to_string(), format!("{style:?} {}", short(req)), json!({"kind": "c03", "rtu": rtu, "unit": unit, "style": style, "req": req_to_json(req)}));
            let problems = crate::sim::watchdog::guard(&describe, || c03_case(&mut w, req, unit, style, st));
            st.observe(&(req.fc(), req.span(), problems.len()));
            let failed = !problems.is_empty();
            for (sig, desc) in problems {
                st.violation(Violation {
                    signature: sig,
                    summary: format!("{} {style:?}: {desc}", if rtu { "RTU" } else { "TCP" }),
                    replay: json!({"kind": "c03", "rtu": rtu, "unit": unit, "style": style, "req": req_to_json(req)}),
                });
            }
            if failed {
                w = Wire::with_short_writes(rtu, short_writes);
            }
            if st.evaluations % 3001 == 0 {
                st.sample(json!({"rtu": rtu, "unit": unit, "style": format!("{style:?}"), "req": short(req)}));
            }
        }
    });
    rep.phase("requests through the channel", st, json!({"requests": reqs.len(), "jobs": jobs.len()}));
    // the frame of a request in its context: whatever happened to the requests before it (answered,
    // answered with an exception, timed out, failed by a lost connection), the next frame is the
    // encoding of the next request with the next transaction id - compared byte for byte
    {
        use crate::checks::client_sm::{explore, Explore, SmCfg};
        use crate::refmodel::client::{ClientModel, Ev, MStyle};
        let cfg = SmCfg { cap: 16, max_timeouts: None, retry_min: 3, retry_max: 12, handles: 1, decode: (0, 0, 0) };
        let filter = |e: &Ev, _m: &ClientModel| {
            matches!(e, Ev::ReplyOk | Ev::ReplyException | Ev::ReplyBad | Ev::AdvanceToNext | Ev::Eof | Ev::ConnectOk | Ev::WriteErrorNext) || matches!(e, Ev::Submit { handle: 0, style: MStyle::Future, .. })
        };
        let cost = |_e: &Ev| 0usize;
        let filter = |e: &Ev, m: &ClientModel| filter(e, m) || matches!(e, Ev::WriteUnblock);
        let x = Explore { prop: "C03", cfg: &cfg, depth: if thorough { 11 } else { 9 }, max_dev: 0, max_requests: 4, aspects: "W", filter: &filter, cost: &cost, extra: &crate::checks::client_sm::write_block_extra };
        *crate::checks::client_sm::KEEP_GOING_UNLESS.lock().unwrap() = Some("W".to_string());
        let st = explore(&x, &[vec![Ev::Enable(0), Ev::ConnectOk]]);
        *crate::checks::client_sm::KEEP_GOING_UNLESS.lock().unwrap() = None;
        rep.phase("frames of consecutive requests (answered, exception, bad reply, timed out, connection lost, write error)", st, json!({"cfg": cfg, "depth": x.depth, "max_requests": 4}));
    }
    for c in ["transmitted", "rejected-by-channel", "rejected-at-construction", "ev:advance-to-next", "ev:reply-ok"] {
        rep.require_class(c);
    }
    rep.assumptions.push("AddressRange values built by struct literal (public fields) bypass the constructor and are outside the property's quantifier".into());
    rep.finish()
}

pub fn req_to_json(req: &Req) -> serde_json::Value {
    match req {
        Req::ReadBits { fc, start, count } | Req::ReadRegs { fc, start, count } => json!({"fc": fc, "start": start, "count": count}),
        Req::WriteSingleCoil { addr, value } => json!({"fc": 5, "addr": addr, "value": value}),
        Req::WriteSingleReg { addr, value } => json!({"fc": 6, "addr": addr, "value": value}),
        Req::WriteMultiCoils { start, values } => json!({"fc": 15, "start": start, "bits": values}),
        Req::WriteMultiRegs { start, values } => json!({"fc": 16, "start": start, "regs": values}),
    }
}

pub fn req_from_json(v: &serde_json::Value) -> Req {
    let fc = v["fc"].as_u64().unwrap() as u8;
    let u = |k: &str| v[k].as_u64().unwrap() as u16;
    match fc {
        1 | 2 => Req::ReadBits { fc, start: u("start"), count: u("count") },
        3 | 4 => Req::ReadRegs { fc, start: u("start"), count: u("count") },
        5 => Req::WriteSingleCoil { addr: u("addr"), value: v["value"].as_bool().unwrap() },
        6 => Req::WriteSingleReg { addr: u("addr"), value: u("value") },
        15 => Req::WriteMultiCoils { start: u("start"), values: v["bits"].as_array().unwrap().iter().map(|x| x.as_bool().unwrap()).collect() },
        _ => Req::WriteMultiRegs { start: u("start"), values: v["regs"].as_array().unwrap().iter().map(|x| x.as_u64().unwrap() as u16).collect() },
    }
}

pub fn replay_c03(v: &serde_json::Value) -> Vec<(String, String)> {
    match v["kind"].as_str() {
        Some("c03-ctor") => {
            let s = v["start"].as_u64().unwrap() as u16;
            let c = v["count"].as_u64().unwrap() as u16;
            let expect = c >= 1 && (s as u32) + (c as u32) - 1 <= 0xFFFF;
            if AddressRange::try_from(s, c).is_ok() != expect {
                vec![("address-range-constructor".into(), format!("try_from({s},{c})"))]
            } else {
                vec![]
            }
        }
        Some("c03-wm") => {
            let s = v["start"].as_u64().unwrap() as u16;
            let n = v["len"].as_u64().unwrap() as usize;
            let expect = n >= 1 && n <= 65535 && (s as usize) + n - 1 <= 0xFFFF;
            if WriteMultiple::from(s, vec![0u16; n]).is_ok() != expect {
                vec![("write-multiple-constructor".into(), format!("from({s}, len {n})"))]
            } else {
                vec![]
            }
        }
        _ => {
            let rtu = v["rtu"].as_bool().unwrap();
            let unit = v["unit"].as_u64().unwrap() as u8;
            let style: Style = serde_json::from_value(v["style"].clone()).unwrap();
            let req = req_from_json(&v["req"]);
            let mut w = Wire::new(rtu);
            let mut st = Stats::default();
            c03_case(&mut w, &req, unit, style, &mut st)
        }
    }
}

// ---------------------------------------------------------------------------------------------
// C04
// ---------------------------------------------------------------------------------------------

struct Sess {
    h: ClientSessionHarness,
    n: u16,
}

impl Sess {
    fn new(rtu: bool) -> Self {
        let mut h = ClientSessionHarness::new(rtu, DecodeLevel::nothing(), None, 16);
        h.settle();
        Sess { h, n: 0 }
    }
}

/// can this reply PDU be carried as exactly one RTU response frame?
fn rtu_framable(unit: u8, p: &[u8]) -> bool {
    if p.len() > 253 || p.is_empty() {
        return false;
    }
    let f = pdu::rtu_frame(unit, p);
    let (frames, end) = pdu::parse_rtu_stream(RtuRole::Response, &f);
    frames.len() == 1 && end == StreamEnd::NeedMore(0)
}

fn c04_case(s: &mut Sess, req: &Req, reply: &[u8], style: Style, st: &mut Stats) -> Vec<(String, String)> {
    let mut out = vec![];
    let rtu = s.h.rtu;
    let unit = 7u8;
    if rtu && !rtu_framable(unit, reply) {
        st.class("skipped-unframable");
        return out;
    }
    if reply.len() > 253 {
        return out;
    }
    let id = match s.h.submit(req, unit, 1000, style) {
        Ok(id) => id,
        Err(e) => {
            out.push(("MACHINERY:c04-request-rejected".into(), format!("{e:?}")));
            return out;
        }
    };
    s.h.settle();
    let tx = s.n;
    s.n = s.n.wrapping_add(1);
    let written = s.h.io.take_written_flat();
    if written != frame(rtu, tx, unit, &encode_request(req)) {
        out.push(("MACHINERY:c04-unexpected-request-frame".into(), hex(&written)));
        return out;
    }
    s.h.io.deliver(&frame(rtu, tx, unit, reply));
    if !s.h.settle() {
        out.push(("busy-loop".into(), "poll budget exceeded".into()));
        return out;
    }
    if let Some(p) = &s.h.task.panicked {
        out.push(("panic".into(), format!("client task panicked on reply {}: {p}", hex(reply))));
        return out;
    }
    let done = s.h.take_done();
    let got = done.iter().find(|d| d.0 == id).map(|d| d.1.clone());
    let expect = decode_reply(req, reply);
    st.class(match &expect {
        ReplyDecode::Ok(_) => "accept",
        ReplyDecode::OkLenient(_) => "accept-or-reject (byte count field inconsistent)",
        ReplyDecode::Exception(_) => "exception",
        ReplyDecode::Other => "reject",
    });
    let good = match (&expect, &got) {
        (ReplyDecode::Ok(v), Some(Outcome::Ok(g))) => v == g,
        (ReplyDecode::OkLenient(v), Some(Outcome::Ok(g))) => v == g,
        (ReplyDecode::OkLenient(_), Some(Outcome::Err(e))) => !matches!(e, ErrClass::Exception(_)),
        (ReplyDecode::Exception(c), Some(Outcome::Err(ErrClass::Exception(g)))) => c == g,
        (ReplyDecode::Other, Some(Outcome::Err(e))) => !matches!(e, ErrClass::Exception(_)),
        _ => false,
    };
    if !good {
        let kind = match (&expect, &got) {
            (ReplyDecode::OkLenient(_), Some(Outcome::Ok(_))) => "wrong-values",
            (ReplyDecode::OkLenient(_), _) => "bad-reply-reported-as-exception",
            (_, None) => "request-left-pending",
            (ReplyDecode::Other, Some(Outcome::Ok(_))) => "bad-reply-accepted",
            (ReplyDecode::Other, _) => "bad-reply-reported-as-exception",
            (ReplyDecode::Ok(_), Some(Outcome::Ok(_))) => "wrong-values",
            (ReplyDecode::Ok(_), _) => "good-reply-rejected",
            (ReplyDecode::Exception(_), _) => "exception-misreported",
        };
        out.push((
            format!("{kind}:fc{}", req.fc()),
            format!("{:?} reply {}: expected {} got {}", short(req), hex(reply), crate::hserver::trunc(&format!("{expect:?}")), crate::hserver::trunc(&format!("{got:?}"))),
        ));
    }
    if s.h.task.is_done() {
        out.push((
            format!("session-ended:fc{}", req.fc()),
            format!("client session ended ({:?}) on reply {}", s.h.task.output, hex(reply)),
        ));
    }
    out
}

fn c04_requests() -> Vec<Req> {
    let mut v = vec![];
    for fc in [1u8, 2] {
        for c in [1u16, 2, 7, 8, 9, 16, 17, 125, 2000] {
            for s in [0u16, (0xFFFFu32 - c as u32 + 1) as u16] {
                v.push(Req::ReadBits { fc, start: s, count: c });
            }
        }
    }
    for fc in [3u8, 4] {
        for c in [1u16, 2, 7, 8, 9, 16, 17, 125] {
            for s in [0u16, (0xFFFFu32 - c as u32 + 1) as u16] {
                v.push(Req::ReadRegs { fc, start: s, count: c });
            }
        }
    }
    v.push(Req::WriteSingleCoil { addr: 0x1234, value: true });
    v.push(Req::WriteSingleCoil { addr: 0, value: false });
    v.push(Req::WriteSingleReg { addr: 0xFFFF, value: 0xABCD });
    v.push(Req::WriteSingleReg { addr: 1, value: 0 });
    v.push(Req::WriteMultiCoils { start: 0x0102, values: vec![true; 9] });
    v.push(Req::WriteMultiCoils { start: 0xFFFF, values: vec![false; 1] });
    v.push(Req::WriteMultiRegs { start: 0x0304, values: vec![7; 3] });
    v.push(Req::WriteMultiRegs { start: 0xFF85, values: vec![1; 123] });
    v
}

fn filler(kind: u8, n: usize) -> Vec<u8> {
    match kind {
        0 => vec![0; n],
        1 => vec![0xFF; n],
        _ => (0..n).map(|i| (i as u8).wrapping_mul(13).wrapping_add(5)).collect(),
    }
}

/// the reply space around one request
fn c04_replies(req: &Req, thorough: bool) -> Vec<Vec<u8>> {
    let (good, _) = good_reply(req);
    let mut v: Vec<Vec<u8>> = vec![good.clone()];
    let fc = req.fc();
    // function byte x length x filler
    let lens: Vec<usize> = if thorough {
        (0..=252).collect()
    } else {
        let g = good.len() as i64 - 1;
        let mut l: Vec<usize> = (0..=12).collect();
        for d in -3..=3i64 {
            if g + d >= 0 && g + d <= 252 {
                l.push((g + d) as usize);
            }
        }
        l.extend_from_slice(&[250, 251, 252]);
        l.sort();
        l.dedup();
        l
    };
    let fbytes: Vec<u8> = if thorough {
        (0..=255).collect()
    } else {
        vec![0, fc, fc ^ 1, fc | 0x80, (fc ^ 1) | 0x80, 0x7F, 0x80, 0xFF, 0x2B, 0x90]
    };
    for f in &fbytes {
        for n in &lens {
            for k in 0..3u8 {
                let mut p = vec![*f];
                p.extend(filler(k, *n));
                v.push(p);
            }
        }
    }
    // one-byte deviations of the good reply
    let positions: Vec<usize> = if good.len() <= 24 || thorough {
        (0..good.len()).collect()
    } else {
        (0..12).chain(good.len() - 6..good.len()).collect()
    };
    for pos in positions {
        for val in 0..=255u8 {
            if val != good[pos] {
                let mut p = good.clone();
                p[pos] = val;
                v.push(p);
            }
        }
    }
    // truncations and extensions
    for cut in 1..=3usize {
        if good.len() > cut {
            v.push(good[..good.len() - cut].to_vec());
        }
        if good.len() + cut <= 253 {
            let mut p = good.clone();
            p.extend(filler(2, cut));
            v.push(p);
        }
    }
    // exception replies
    for code in 0..=255u8 {
        v.push(vec![fc | 0x80, code]);
        v.push(vec![fc | 0x80, code, 0, 0]);
        v.push(vec![(fc ^ 3) | 0x80, code]);
    }
    v.push(vec![fc | 0x80]);
    // echo variations
    match req {
        Req::WriteSingleCoil { addr, value } => {
            let vb: [u8; 2] = if *value { [0xFF, 0] } else { [0, 0] };
            for a in 0..=65535u16 {
                if thorough || a % 251 == 0 || a.abs_diff(*addr) < 3 {
                    v.push([&[5u8][..], &a.to_be_bytes(), &vb].concat());
                }
            }
            for x in 0..=65535u16 {
                if thorough || x % 251 == 0 || x >= 0xFEFE || x < 3 {
                    v.push([&[5u8][..], &addr.to_be_bytes(), &x.to_be_bytes()].concat());
                }
            }
        }
        Req::WriteSingleReg { addr, value } => {
            for a in 0..=65535u16 {
                if thorough || a % 251 == 0 || a.abs_diff(*addr) < 3 {
                    v.push([&[6u8][..], &a.to_be_bytes(), &value.to_be_bytes()].concat());
                }
            }
            for x in 0..=65535u16 {
                if thorough || x % 251 == 0 || x.abs_diff(*value) < 3 {
                    v.push([&[6u8][..], &addr.to_be_bytes(), &x.to_be_bytes()].concat());
                }
            }
            for a in L16 {
                for x in L16 {
                    v.push([&[6u8][..], &a.to_be_bytes(), &x.to_be_bytes()].concat());
                }
            }
        }
        Req::WriteMultiCoils { .. } | Req::WriteMultiRegs { .. } => {
            let (s, c) = req.span();
            for a in 0..=65535u16 {
                if thorough || a % 251 == 0 || a.abs_diff(s) < 3 {
                    v.push([&[fc][..], &a.to_be_bytes(), &c.to_be_bytes()].concat());
                }
            }
            for q in 0..=65535u16 {
                if thorough || q % 251 == 0 || q.abs_diff(c) < 3 {
                    v.push([&[fc][..], &s.to_be_bytes(), &q.to_be_bytes()].concat());
                }
            }
        }
        _ => {
            // every byte-count value
            for bc in 0..=255u8 {
                let mut p = good.clone();
                p[1] = bc;
                v.push(p);
            }
            // self-consistent replies for another quantity: byte count = number of data bytes
            for bc in 0..=251usize {
                for k in 0..3u8 {
                    let mut p = vec![fc, bc as u8];
                    p.extend(filler(k, bc));
                    v.push(p);
                }
            }
        }
    }
    v
}

pub fn check_c04(tier: &str) -> i32 {
    let mut rep = Report::new(
        "C04",
        tier,
        "exploration",
        "for every request kind and boundary range one transaction per reply PDU of the stated reply space (function byte x length x filler, all 1-byte deviations, truncations/extensions, byte-count values, echo variations, exception replies) on the production client loop (TCP with the future-based and the callback-based API; RTU for PDUs that form one RTU frame); the request's result is compared with the reference reply decoder and the session must stay usable. distinct = distinct (request kind, expected class, observed result) triples",
    );
    let thorough = rep.thorough();
    let reqs = c04_requests();
    // both API styles: the future-based one collects the values itself, the callback-based one hands
    // the application an iterator over the reply
    let mut jobs: Vec<(bool, usize, Style)> = [false, true].iter().flat_map(|r| (0..reqs.len()).map(move |i| (*r, i, Style::Future))).collect();
    jobs.extend((0..reqs.len()).map(|i| (false, i, Style::Callback)));
    let st = parallel(jobs.len(), |j, st| {
        let (rtu, ri, style) = jobs[j];
        if style == Style::Callback {
            st.class("callback-style");
        }
        let req = &reqs[ri];
        let replies = c04_replies(req, thorough && !rtu);
        let mut s = Sess::new(rtu);
        for rp in &replies {
            st.evaluations += 1;
            let describe = || ("c04".to_string(), format!("{} reply {}", short(req), hex(rp)), json!({"kind": "c04", "rtu": rtu, "req": req_to_json(req), "reply": crate::checks::server_family::to_hex(rp)}));
            let problems = crate::sim::watchdog::guard(&describe, || c04_case(&mut s, req, rp, style, st));
            st.observe(&(req.fc(), rp.len().min(8), rp.first().copied(), problems.len()));
            let failed = !problems.is_empty();
            for (sig, desc) in problems {
                st.violation(Violation {
                    signature: sig,
                    summary: format!("{}: {desc}", if rtu { "RTU" } else { "TCP" }),
                    replay: json!({"kind": "c04", "rtu": rtu, "req": req_to_json(req), "reply": crate::checks::server_family::to_hex(rp)}),
                });
            }
            if failed {
                s = Sess::new(rtu);
            }
            if st.evaluations % 2503 == 0 {
                st.sample(json!({"rtu": rtu, "req": short(req), "reply": hex(rp)}));
            }
        }
    });
    rep.phase("reply space", st, json!({"requests": reqs.len()}));
    for c in ["accept", "exception", "reject"] {
        rep.require_class(c);
    }
    rep.assumptions.push("the byte-count field of read replies is not validated (the property constrains the length implied by the request)".into());
    rep.assumptions.push("padding bits of the last byte of a bit reply are ignored".into());
    rep.finish()
}

pub fn replay_c04(v: &serde_json::Value) -> Vec<(String, String)> {
    let rtu = v["rtu"].as_bool().unwrap();
    let req = req_from_json(&v["req"]);
    let reply = crate::checks::server_family::from_hex(v["reply"].as_str().unwrap());
    let mut s = Sess::new(rtu);
    let mut st = Stats::default();
    // a replayed case is run through both API styles
    let mut out = c04_case(&mut s, &req, &reply, Style::Future, &mut st);
    if !rtu {
        let mut s2 = Sess::new(rtu);
        out.extend(c04_case(&mut s2, &req, &reply, Style::Callback, &mut st));
    }
    out
}

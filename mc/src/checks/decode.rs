//! C20: protocol decoding (logging) is purely observational.

use crate::checks::client_sm::*;
use crate::checks::framing::*;
use crate::checks::server_family::*;
use crate::hserver::*;
use crate::refmodel::client::*;
use crate::refmodel::pdu::{Frame, StreamEnd};
use crate::report::*;
use crate::sim::Task;
use serde_json::json;

const LOW: (u8, u8, u8) = (0, 0, 0);
const HIGH: (u8, u8, u8) = (3, 2, 2);

/// a server sequence with a decode-level change injected before frame `inject_at`
/// (None = no change); returns per-frame (written bytes, calls) and the end state
fn run_server_seq(cfg: &ServerCfg, frames: &[Req3], inject_at: Option<usize>, to: (u8, u8, u8)) -> (Vec<(Vec<u8>, usize)>, Vec<(String, String, usize)>) {
    let mut h = ServerHarness::new(cfg);
    let mut model = cfg.model();
    h.settle();
    let mut handle = h.handle.take().unwrap();
    let mut obs = vec![];
    let mut problems = vec![];
    for (i, (tx, unit, p)) in frames.iter().enumerate() {
        if inject_at == Some(i) {
            let level = decode_level(to);
            let mut hd = handle;
            let mut t = Task::new(async move {
                let _ = hd.set_decode_level(level).await;
                hd
            });
            crate::sim::run_until_quiescent(&mut [&mut t, &mut h.task], POLL_BUDGET);
            handle = t.output.take().expect("set_decode_level completes");
        }
        if !framable(cfg.rtu, *unit, p) {
            continue;
        }
        let frame = Frame { tx: if cfg.rtu { None } else { Some(*tx) }, unit: *unit, pdu: p.clone() };
        let expect = model.handle(*unit, p);
        let bytes = h.frame(*tx, *unit, p);
        let o = h.deliver_and_observe(&bytes);
        obs.push((o.written.concat(), o.calls.len()));
        for (sig, desc) in judge_step(cfg.rtu, &frame, &expect, &o) {
            problems.push((sig, desc, i));
        }
    }
    drop(handle);
    (obs, problems)
}

fn server_part(rep: &mut Report) {
    let thorough = rep.thorough();
    let depth = if thorough { 3 } else { 2 };
    let apps = app_variants();
    let mut cfgs = vec![];
    for rtu in [false, true] {
        cfgs.push(ServerCfg { rtu, units: vec![(1, apps[1].clone()), (2, apps[0].clone())], auth: None, decode: LOW });
    }
    cfgs.push(ServerCfg { rtu: false, units: vec![(1, apps[1].clone())], auth: Some((PolicySpec::FcMask(0x0F), "viewer".into())), decode: LOW });
    let n_sym = 24usize;
    let st = parallel(cfgs.len() * n_sym, |job, st| {
        let base = &cfgs[job / n_sym];
        let first = job % n_sym;
        let alpha = default_alphabet(base);
        let mut seqs: Vec<Vec<usize>> = vec![];
        for_each_sequence(n_sym, depth - 1, |rest| {
            let mut s = vec![first];
            s.extend_from_slice(rest);
            seqs.push(s);
        });
        seqs.push(vec![first]);
        for s in seqs {
            let frames: Vec<Req3> = s.iter().enumerate().map(|(i, k)| ((i as u16 + 1) * 0x0101, alpha[*k].1, alpha[*k].2.clone())).collect();
            let low = ServerCfg { decode: LOW, ..base.clone() };
            let high = ServerCfg { decode: HIGH, ..base.clone() };
            crate::sim::trace::take_counts();
            let (obs0, p0) = run_server_seq(&low, &frames, None, LOW);
            let (ev_low, _) = crate::sim::trace::take_counts();
            let (obs1, p1) = run_server_seq(&high, &frames, None, HIGH);
            let (ev_high, bytes_high) = crate::sim::trace::take_counts();
            st.evaluations += 2;
            st.traces += 2;
            st.transitions += 2 * frames.len() as u64;
            st.class("server-sequence-low-vs-high");
            // more formatted output at the high level proves that the decode paths really ran
            if ev_high > ev_low && bytes_high > 0 {
                st.class("decode-output-observed");
            }
            st.observe(&obs0);
            st.state(&obs0);
            let mut bad: Vec<String> = vec![];
            if obs0 != obs1 {
                bad.push("observations differ between the lowest and the highest decode level".into());
            }
            for (sig, d, i) in p0.iter().chain(p1.iter()) {
                bad.push(format!("[{sig}] step {i}: {d}"));
            }
            // a level change injected at every position, in both directions
            for pos in 0..=frames.len().saturating_sub(1) {
                for (from, to) in [(LOW, HIGH), (HIGH, LOW)] {
                    let c = ServerCfg { decode: from, ..base.clone() };
                    let (obs2, p2) = run_server_seq(&c, &frames, Some(pos), to);
                    st.evaluations += 1;
                    st.traces += 1;
                    st.class("server-sequence-level-change");
                    if obs2 != obs0 {
                        bad.push(format!("observations differ when the level changes {from:?}->{to:?} before request {pos}"));
                    }
                    for (sig, d, i) in p2 {
                        bad.push(format!("[{sig}] step {i}: {d}"));
                    }
                }
            }
            if let Some(b) = bad.first() {
                st.violation(Violation {
                    signature: "decode-changes-server-behaviour".into(),
                    summary: format!("{} sequence {:?}: {b}", if base.rtu { "RTU" } else { "TCP" }, s.iter().map(|k| alpha[*k].0).collect::<Vec<_>>()),
                    replay: json!({"kind": "c20-server", "cfg": base, "frames": frames.iter().map(|(t, u, p)| (t, u, to_hex(p))).collect::<Vec<_>>()}),
                });
            }
            if st.traces % 3001 < 3 {
                st.sample(json!({"role": "server", "rtu": base.rtu, "sequence": s.iter().map(|k| alpha[*k].0).collect::<Vec<_>>()}));
            }
        }
    });
    rep.phase("server sequences", st, json!({"depth": depth, "configs": cfgs.len()}));
    // framing streams (C05/C06 material) at the highest level, every chunking of the quick bound
    let bound = ChunkBound { uniform: true, max_cuts: if thorough { 2 } else { 1 }, full_cuts_up_to: 40, all_partitions_up_to: 10 };
    let mut jobs: Vec<(bool, String, Vec<u8>)> = vec![];
    for (n, f) in c20_mbap_streams() {
        jobs.push((false, n, f));
    }
    for (n, f) in c20_rtu_streams() {
        jobs.push((true, n, f));
    }
    let st = parallel(jobs.len(), |i, st| {
        let (rtu, name, stream) = &jobs[i];
        let low = ServerCfg { rtu: *rtu, units: vec![(1, AppSpec::dense())], auth: None, decode: LOW };
        let high = ServerCfg { decode: HIGH, ..low.clone() };
        let exp = server_expect(&low, stream);
        for_each_chunking(stream.len(), &exp.boundaries, bound, &mut |cuts| {
            st.evaluations += 2;
            st.traces += 2;
            st.class("server-stream-low-vs-high");
            let a = run_server_stream(&low, stream, cuts, &exp, false);
            let b = run_server_stream(&high, stream, cuts, &exp, false);
            st.observe(&(name, cuts.len(), cuts.first().copied()));
            if let Some((sig, d)) = a.first().or(b.first()) {
                st.violation(Violation {
                    signature: "decode-changes-server-behaviour".into(),
                    summary: format!("stream {name} cuts {cuts:?}: [{sig}] {d} (low: {} problems, high: {})", a.len(), b.len()),
                    replay: json!({"kind": "server-stream", "cfg": if a.is_empty() { &high } else { &low }, "stream": to_hex(stream), "cuts": cuts}),
                });
            }
            // a level change between two chunks of the stream (possibly inside a frame)
            for k in 0..cuts.len().min(3) {
                for (c, to) in [(&low, HIGH), (&high, LOW)] {
                    st.evaluations += 1;
                    st.traces += 1;
                    st.class("server-stream-level-change-between-chunks");
                    let p = run_server_stream_inject(c, stream, cuts, &exp, false, Tail::None, Some((k, to)));
                    if let Some((sig, d)) = p.first() {
                        st.violation(Violation {
                            signature: "decode-changes-server-behaviour".into(),
                            summary: format!("stream {name} cuts {cuts:?}, level change to {to:?} after chunk {k}: [{sig}] {d}"),
                            replay: json!({"kind": "c20-stream", "cfg": c, "stream": to_hex(stream), "cuts": cuts, "after_chunk": k, "to": to}),
                        });
                    }
                }
            }
        });
    });
    rep.phase("server streams", st, json!({"streams": jobs.len()}));
}

fn c20_mbap_streams() -> Vec<(String, Vec<u8>)> {
    use crate::refmodel::pdu::mbap_frame;
    vec![
        ("read+write".into(), [mbap_frame(1, 1, &read_pdu(3, 0, 3)), mbap_frame(2, 1, &write_multi_pdu(16, 4, 3, 6, &[0, 1, 0, 2, 0, 3]))].concat()),
        ("coils".into(), [mbap_frame(3, 1, &read_pdu(1, 0, 19)), mbap_frame(4, 1, &write_multi_pdu(15, 2, 10, 2, &[0xCD, 1]))].concat()),
        ("malformed+unknown".into(), [mbap_frame(5, 1, &read_pdu(1, 0, 0)), mbap_frame(6, 1, &[0x2B, 1])].concat()),
        ("read+bad-header".into(), [mbap_frame(7, 1, &read_pdu(4, 0, 2)), crate::refmodel::pdu::mbap_raw(8, 1, 6, 1, &read_pdu(3, 0, 1))].concat()),
    ]
}

fn c20_rtu_streams() -> Vec<(String, Vec<u8>)> {
    use crate::refmodel::pdu::rtu_frame;
    vec![
        ("read+write".into(), [rtu_frame(1, &read_pdu(3, 0, 3)), rtu_frame(1, &write_multi_pdu(16, 4, 2, 4, &[0, 1, 0, 2]))].concat()),
        ("broadcast+read".into(), [rtu_frame(0, &[6, 0, 1, 0, 9]), rtu_frame(1, &read_pdu(3, 0, 3))].concat()),
        ("bad-crc".into(), {
            let mut f = rtu_frame(1, &read_pdu(1, 0, 9));
            let n = f.len();
            f[n - 1] ^= 1;
            f
        }),
    ]
}

/// split an observation log into steps
fn steps(obs: &[String]) -> Vec<Vec<String>> {
    let mut out: Vec<Vec<String>> = vec![vec![]];
    for l in obs {
        if l == "--step--" {
            out.push(vec![]);
        } else if !l.starts_with("cmd ") {
            out.last_mut().unwrap().push(l.clone());
        } else {
            // the result of a command call is part of the command, not of the behaviour; keep the task state
            out.last_mut().unwrap().push(l.split(" done=").nth(1).unwrap_or("").to_string());
        }
    }
    out
}

fn client_part(rep: &mut Report) {
    let thorough = rep.thorough();
    let depth = if thorough { 7 } else { 6 };
    let low = SmCfg { cap: 16, max_timeouts: Some(2), retry_min: 3, retry_max: 12, handles: 1, decode: LOW };
    let high = SmCfg { decode: HIGH, ..low.clone() };
    // enumerate the complete paths of the C10/C11/C12 alphabet at the quick bound, model-only
    let filter = |e: &Ev, _m: &ClientModel| {
        !matches!(e, Ev::SetDecode(_) | Ev::AbortTask | Ev::Submit { style: MStyle::Ffi, .. } | Ev::Submit { style: MStyle::Callback, .. } | Ev::Advance1)
    };
    let mut paths: Vec<Vec<Ev>> = vec![];
    fn gen(m: &ClientModel, path: &mut Vec<Ev>, depth: usize, dev: usize, filter: &dyn Fn(&Ev, &ClientModel) -> bool, out: &mut Vec<Vec<Ev>>) {
        if path.len() >= depth {
            out.push(path.clone());
            return;
        }
        let evs: Vec<Ev> = m.enabled_events(2).into_iter().filter(|e| filter(e, m)).collect();
        let mut extended = false;
        for ev in evs {
            let c = match ev {
                Ev::Enable(_) | Ev::ConnectOk | Ev::ReplyOk | Ev::AdvanceToNext | Ev::ReplyRest | Ev::Submit { .. } => 0,
                _ => 1,
            };
            if dev + c > 2 {
                continue;
            }
            let mut m2 = m.clone();
            m2.apply(&ev);
            path.push(ev);
            gen(&m2, path, depth, dev + c, filter, out);
            path.pop();
            extended = true;
        }
        if !extended {
            out.push(path.clone());
        }
    }
    let mut m = ClientModel::new(low.cap, low.max_timeouts, low.retry_min, low.retry_max, low.handles);
    m.start();
    let mut pre = vec![Ev::Enable(0), Ev::ConnectOk];
    for e in &pre {
        m.apply(e);
    }
    gen(&m, &mut pre, depth + 2, 0, &filter, &mut paths);
    let st = parallel(paths.len(), |i, st| {
        let path = &paths[i];
        crate::sim::trace::take_counts();
        let r0 = run_path(&low, path);
        let (ev_low, _) = crate::sim::trace::take_counts();
        let r1 = run_path(&high, path);
        let (ev_high, _) = crate::sim::trace::take_counts();
        st.evaluations += 2;
        st.traces += 2;
        st.transitions += 2 * path.len() as u64;
        st.class("client-path-low-vs-high");
        if ev_high > ev_low {
            st.class("decode-output-observed");
        }
        st.observe(&r0.obs);
        st.state(&r0.model);
        let mut bad: Vec<String> = vec![];
        if r0.obs != r1.obs {
            bad.push("observation logs differ between the lowest and the highest decode level".into());
        }
        for p in r0.problems.iter().chain(r1.problems.iter()) {
            bad.push(format!("[{}] step {}: {}", p.sig, p.step, p.desc));
        }
        let s0 = steps(&r0.obs);
        // a level change injected at every position of the event script
        for pos in 2..=path.len() {
            if path[..pos].contains(&Ev::DropHandle(0)) {
                // no handle left to issue the command through
                break;
            }
            let mut p2 = path.clone();
            p2.insert(pos, Ev::SetDecode(0));
            let r2 = run_path(&low, &p2);
            st.evaluations += 1;
            st.traces += 1;
            st.class("client-path-level-change");
            let mut s2 = steps(&r2.obs);
            if s2.len() > pos + 1 {
                let inserted = s2.remove(pos + 1);
                // the inserted step itself must be silent
                if inserted.iter().any(|l| (l.starts_with("wire") && l != "wire []") || (l.starts_with("done") && l != "done []") || (l.starts_with("states") && l != "states []")) {
                    bad.push(format!("the set-decode command at position {pos} had a visible effect: {inserted:?}"));
                }
            }
            if s2 != s0 {
                bad.push(format!("observations differ when the level is changed at position {pos}"));
            }
            for p in &r2.problems {
                bad.push(format!("[{}] step {} (with level change at {pos}): {}", p.sig, p.step, p.desc));
            }
        }
        if let Some(b) = bad.first() {
            st.violation(Violation {
                signature: "decode-changes-client-behaviour".into(),
                summary: format!("path {path:?}: {b}"),
                replay: json!({"kind": "c20-client", "events": path}),
            });
        }
        if st.traces % 2003 < 8 {
            st.sample(json!({"role": "client", "events": format!("{path:?}")}));
        }
    });
    rep.phase("client paths", st, json!({"paths": paths.len(), "depth": depth}));
}

// ---------------------------------------------------------------------------------------------
// the RTU server between two attempts to open its port
// ---------------------------------------------------------------------------------------------

struct NoPoints;
impl rodbus::server::RequestHandler for NoPoints {}

struct RecordingRetry {
    t0: tokio::time::Instant,
    attempts: std::sync::Arc<std::sync::Mutex<Vec<u64>>>,
    delay_ms: u64,
}

impl rodbus::RetryStrategy for RecordingRetry {
    fn reset(&mut self) {}
    fn after_failed_connect(&mut self) -> std::time::Duration {
        self.attempts.lock().unwrap().push(self.t0.elapsed().as_millis() as u64);
        std::time::Duration::from_millis(self.delay_ms)
    }
    fn after_disconnect(&mut self) -> std::time::Duration {
        self.attempts.lock().unwrap().push(1_000_000 + self.t0.elapsed().as_millis() as u64);
        std::time::Duration::from_millis(self.delay_ms)
    }
}

/// The production RTU server task on a port that cannot be opened, virtual time: the instants of
/// its open attempts (observed through the retry strategy it consults after each failure) with
/// `set_decode_level` calls at the given instants (`before_timers`: the call is made before the
/// task is polled at that instant, so a call and an expiring delay are seen in the same poll).
pub fn rtu_reopen_attempts(changes: &[u64], before_timers: bool, burst: usize) -> Result<Vec<u64>, String> {
    use rodbus::server::*;
    use rodbus::*;
    const TICK: u64 = 10;
    const HORIZON: u64 = 450;
    let attempts = std::sync::Arc::new(std::sync::Mutex::new(vec![]));
    let retry = RecordingRetry { t0: tokio::time::Instant::now(), attempts: attempts.clone(), delay_ms: 100 };
    let map = ServerHandlerMap::single(UnitId::new(1), NoPoints.wrap());
    let (handle, task) = create_rtu_server_task("/nonexistent/verif-no-such-port", SerialSettings::default(), Box::new(retry), map, DecodeLevel::nothing());
    let mut server = Task::new(task.run());
    let mut handle = Some(handle);
    let mut toggle = false;
    crate::sim::run_until_quiescent(&mut [&mut server], POLL_BUDGET).ok_or("busy loop")?;
    let mut now = 0u64;
    loop {
        let mut change = |server: &mut Task<_>, handle: &mut Option<ServerHandle>, toggle: &mut bool| -> Result<(), String> {
            for _ in 0..burst {
                *toggle = !*toggle;
                let level = decode_level(if *toggle { HIGH } else { LOW });
                let mut hd = handle.take().unwrap();
                let mut t = Task::new(async move {
                    let r = hd.set_decode_level(level).await;
                    (hd, r.is_ok())
                });
                crate::sim::run_until_quiescent(&mut [&mut t, server], POLL_BUDGET).ok_or("busy loop")?;
                match t.output.take() {
                    Some((hd, true)) => *handle = Some(hd),
                    Some((_, false)) => return Err("set_decode_level reported Shutdown".into()),
                    None => return Err("set_decode_level did not complete".into()),
                }
            }
            Ok(())
        };
        if before_timers && changes.contains(&now) {
            change(&mut server, &mut handle, &mut toggle)?;
        }
        crate::sim::run_until_quiescent(&mut [&mut server], POLL_BUDGET).ok_or("busy loop")?;
        if !before_timers && changes.contains(&now) {
            change(&mut server, &mut handle, &mut toggle)?;
        }
        if let Some(p) = &server.panicked {
            return Err(format!("panic: {p}"));
        }
        if server.is_done() {
            return Err("the server task ended".into());
        }
        if now >= HORIZON {
            break;
        }
        crate::sim::advance(TICK);
        now += TICK;
    }
    drop(handle);
    crate::sim::run_until_quiescent(&mut [&mut server], POLL_BUDGET).ok_or("busy loop")?;
    if !server.is_done() {
        return Err("the server task did not end after its handle was dropped".into());
    }
    let v = attempts.lock().unwrap().clone();
    Ok(v)
}

fn rtu_reopen_cases(thorough: bool) -> Vec<(Vec<u64>, bool, usize)> {
    let ticks: Vec<u64> = (0..=25).map(|k| k * 10).collect();
    let mut sets: Vec<Vec<u64>> = vec![];
    for a in &ticks {
        sets.push(vec![*a]);
        for b in &ticks {
            if b > a {
                sets.push(vec![*a, *b]);
                if thorough {
                    for c in &ticks {
                        if c > b && *c <= 150 {
                            sets.push(vec![*a, *b, *c]);
                        }
                    }
                }
            }
        }
    }
    // a steady poller
    sets.push(ticks.clone());
    let mut out = vec![];
    for s in sets {
        for before in [false, true] {
            for burst in [1usize, 9] {
                if burst == 9 && s.len() > 2 {
                    continue;
                }
                out.push((s.clone(), before, burst));
            }
        }
    }
    out
}

fn rtu_reopen_phase(rep: &mut Report) {
    let cases = rtu_reopen_cases(rep.thorough());
    let st = parallel(cases.len(), |i, st| {
        let (changes, before, burst) = &cases[i];
        let base = rtu_reopen_attempts(&[], false, 1);
        let got = rtu_reopen_attempts(changes, *before, *burst);
        st.evaluations += 1;
        st.traces += 1;
        st.transitions += 46;
        st.class("rtu-server-reopen-schedule");
        st.observe(&(changes.len(), before, burst, format!("{got:?}")));
        let expected: Vec<u64> = vec![0, 100, 200, 300, 400];
        let problem = match (&base, &got) {
            (Ok(b), _) if *b != expected => Some(("MACHINERY:rtu-reopen-baseline".to_string(), format!("without any level change the attempts were at {b:?} ms"))),
            (Err(e), _) => Some(("MACHINERY:rtu-reopen-baseline".to_string(), e.clone())),
            (Ok(b), Ok(g)) if g != b => Some(("decode-changes-server-behaviour:rtu-reopen-schedule".to_string(), format!("attempts to open the port at {g:?} ms, without the level changes at {b:?} ms"))),
            (Ok(_), Err(e)) => Some(("decode-changes-server-behaviour:rtu-reopen".to_string(), e.clone())),
            _ => None,
        };
        if let Some((sig, desc)) = problem {
            st.violation(Violation {
                signature: sig,
                summary: format!("RTU server on a port that cannot be opened (retry delay 100 ms), set_decode_level x{burst} at {changes:?} ms ({}): {desc}", if *before { "seen in the same poll as timers expiring at that instant" } else { "after the task has run at that instant" }),
                replay: json!({"kind": "c20-rtu-reopen", "changes": changes, "before": before, "burst": burst}),
            });
        }
    });
    rep.phase("production RTU server task between attempts to open its port: decode-level changes at every instant", st, json!({"cases": cases.len(), "tick_ms": 10, "retry_delay_ms": 100, "horizon_ms": 450}));
}

pub fn check_c20(tier: &str) -> i32 {
    let mut rep = Report::new(
        "C20",
        tier,
        "model_checking",
        "differential + reference-model oracle: every server request sequence (24-symbol alphabet, depth D, TCP/RTU/with authorization), every framing stream of the C05/C06 material under every chunking of the quick bound, and every complete client event path (C10/C11/C12 alphabet, depth D, <= 2 deviations) is executed at DecodeLevel::nothing(), at the highest level, and with a set_decode_level command (server handle / client handle) inserted at every position of the script, in both directions; wire bytes, handler logs, request results with their virtual instants, listener logs and task end must be identical (the decode command itself being the only permitted difference). A formatting tracing subscriber proves that the decode paths really ran at the high level. Over real sockets: the production TCP / TLS server task with single level changes and bursts of 12 (more than a session's command queue holds) at every position of short connect / request scripts",
    );
    rep.bounds = json!({"server_depth": if rep.thorough() { 3 } else { 2 }, "client_depth": if rep.thorough() { 7 } else { 6 }});
    server_part(&mut rep);
    client_part(&mut rep);
    rtu_reopen_phase(&mut rep);
    let st = crate::checks::sessions::decode_burst_phase();
    rep.phase("production TCP / TLS server task: single decode-level changes and bursts of 12 at every position of connect / request scripts", st, json!({}));
    for c in ["rtu-server-reopen-schedule", "server-task:decode-burst", "decode-output-observed", "server-sequence-low-vs-high", "server-sequence-level-change", "server-stream-low-vs-high", "server-stream-level-change-between-chunks", "client-path-low-vs-high", "client-path-level-change"] {
        rep.require_class(c);
    }
    rep.finish()
}

pub fn replay_c20(v: &serde_json::Value) -> Vec<(String, String)> {
    let mut out = vec![];
    if v["kind"] == "c20-stream" {
        let cfg: ServerCfg = serde_json::from_value(v["cfg"].clone()).unwrap();
        let stream = from_hex(v["stream"].as_str().unwrap());
        let cuts: Vec<usize> = v["cuts"].as_array().unwrap().iter().map(|x| x.as_u64().unwrap() as usize).collect();
        let k = v["after_chunk"].as_u64().unwrap() as usize;
        let to: (u8, u8, u8) = serde_json::from_value(v["to"].clone()).unwrap();
        let exp = server_expect(&cfg, &stream);
        return run_server_stream_inject(&cfg, &stream, &cuts, &exp, false, Tail::None, Some((k, to)));
    }
    if v["kind"] == "c20-rtu-reopen" {
        crate::sim::enter_thread_runtime();
        let changes: Vec<u64> = serde_json::from_value(v["changes"].clone()).unwrap();
        let base = rtu_reopen_attempts(&[], false, 1);
        let got = rtu_reopen_attempts(&changes, v["before"].as_bool().unwrap(), v["burst"].as_u64().unwrap() as usize);
        if base != got {
            out.push(("decode-changes-server-behaviour:rtu-reopen-schedule".into(), format!("{got:?} vs {base:?}")));
        }
        return out;
    }
    if v["kind"] == "c20-client" {
        let events: Vec<Ev> = serde_json::from_value(v["events"].clone()).unwrap();
        let low = SmCfg { cap: 16, max_timeouts: Some(2), retry_min: 3, retry_max: 12, handles: 1, decode: LOW };
        let high = SmCfg { decode: HIGH, ..low.clone() };
        let r0 = run_path(&low, &events);
        let r1 = run_path(&high, &events);
        if r0.obs != r1.obs {
            out.push(("decode-changes-client-behaviour".into(), "low vs high differ".into()));
        }
        let s0 = steps(&r0.obs);
        for pos in 2..=events.len() {
            if events[..pos].contains(&Ev::DropHandle(0)) {
                break;
            }
            let mut p2 = events.clone();
            p2.insert(pos, Ev::SetDecode(0));
            let r2 = run_path(&low, &p2);
            let mut s2 = steps(&r2.obs);
            if s2.len() > pos + 1 {
                s2.remove(pos + 1);
            }
            if s2 != s0 {
                out.push(("decode-changes-client-behaviour".into(), format!("level change at position {pos} changes the observations")));
            }
        }
        for p in r0.problems.iter().chain(r1.problems.iter()) {
            out.push((p.sig.clone(), p.desc.clone()));
        }
    } else {
        let cfg: ServerCfg = serde_json::from_value(v["cfg"].clone()).unwrap();
        let frames: Vec<Req3> = v["frames"].as_array().unwrap().iter().map(|f| (f[0].as_u64().unwrap() as u16, f[1].as_u64().unwrap() as u8, from_hex(f[2].as_str().unwrap()))).collect();
        let (o0, p0) = run_server_seq(&ServerCfg { decode: LOW, ..cfg.clone() }, &frames, None, LOW);
        let (o1, p1) = run_server_seq(&ServerCfg { decode: HIGH, ..cfg.clone() }, &frames, None, HIGH);
        if o0 != o1 {
            out.push(("decode-changes-server-behaviour".into(), "low vs high differ".into()));
        }
        for pos in 0..frames.len() {
            for (from, to) in [(LOW, HIGH), (HIGH, LOW)] {
                let (o2, p2) = run_server_seq(&ServerCfg { decode: from, ..cfg.clone() }, &frames, Some(pos), to);
                if o2 != o0 {
                    out.push(("decode-changes-server-behaviour".into(), format!("level change {from:?}->{to:?} before request {pos}")));
                }
                for (s, d, _) in p2 {
                    out.push((s, d));
                }
            }
        }
        for (s, d, _) in p0.into_iter().chain(p1) {
            out.push((s, d));
        }
    }
    out
}

#[allow(dead_code)]
fn unused(_: StreamEnd) {}

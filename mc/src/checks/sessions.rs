//! C15: server sessions are bounded, the oldest is evicted, sessions are isolated, and shutdown
//! closes everything. Real loopback sockets, lock-step histories, a reference session tracker.

use crate::checks::tls::{start_tls_server, Cell, CertKind};
use crate::hserver::hex;
use crate::net::*;
use crate::refmodel::pdu::mbap_frame;
use crate::report::*;
use rodbus::server::*;
use rodbus::*;
use serde::{Deserialize, Serialize};
use serde_json::json;
use std::collections::VecDeque;
use std::sync::Arc;
use std::time::Duration;
use tokio::io::{AsyncRead, AsyncWrite, AsyncWriteExt};

#[derive(Clone, Copy, Debug, PartialEq, Eq, Hash, Serialize, Deserialize)]
pub enum SEv {
    Connect,
    Close(usize),
    Request(usize),
    Garbage(usize),
    HalfFrame(usize),
    SetDecode,
    /// more decode-level changes (12) than a session's command queue (8) holds
    SetDecode9,
    /// the peer pipelines requests without reading until the server's write blocks
    Stall(usize),
    /// (TLS only) a peer that connects and never starts the handshake
    ConnectSilent,
    Shutdown,
    DropHandle,
    /// the stalled peer reads again until nothing more arrives: its session must still be there
    Drain(usize),
    /// a peer the address filter refuses (the server then runs with the filter Exact(127.0.0.1)
    /// instead of Any; this peer comes from 127.0.0.2): no session, nobody evicted
    ConnectFiltered,
}

trait Stream: AsyncRead + AsyncWrite + Unpin + Send {}
impl<T: AsyncRead + AsyncWrite + Unpin + Send> Stream for T {}

struct Conn {
    stream: Option<Box<dyn Stream>>,
    /// the model says the server still serves this connection
    live: bool,
    stalled: bool,
    silent: bool,
    /// remainder of a half-sent request frame and its transaction id
    half: Option<(Vec<u8>, u16)>,
    eof_seen: bool,
    /// what is missing of the request frame the stall was cut in
    stall_rest: Vec<u8>,
    /// request bytes written during the stall
    stall_bytes: usize,
}

struct Model {
    cap: usize,
    /// connection indices in accept order (oldest first)
    order: VecDeque<usize>,
    up: bool,
}

pub struct History {
    pub max_sessions: usize,
    pub tls: bool,
    pub events: Vec<SEv>,
}

const READ: [u8; 5] = [3, 0, 0, 0, 2];

async fn sentinel(c: &mut Conn, tx: u16) -> Result<(), String> {
    let s = c.stream.as_mut().ok_or("no stream")?;
    if let Some((rest, htx)) = c.half.take() {
        // complete the half-sent frame first: it must be answered like any other request
        if !write_all(s, &rest).await {
            return Err("write of the rest of a half frame failed".into());
        }
        match read_n(s, 13, STEP_TIMEOUT).await {
            ReadOutcome::Bytes(b) if b[..2] == htx.to_be_bytes() && b[7] == 3 => {}
            other => return Err(format!("half-sent request not answered: {other:?}")),
        }
    }
    if !write_all(s, &mbap_frame(tx, 1, &READ)).await {
        return Err("write failed".into());
    }
    match read_n(s, 13, STEP_TIMEOUT).await {
        ReadOutcome::Bytes(b) if b[..2] == tx.to_be_bytes() && b[7] == 3 && b[8] == 4 => Ok(()),
        other => Err(format!("{other:?}")),
    }
}

async fn expect_eof(c: &mut Conn) -> Result<(), String> {
    let s = match c.stream.as_mut() {
        Some(s) => s,
        None => return Ok(()),
    };
    // drain whatever is pending; the connection must end within the ceiling
    let deadline = tokio::time::Instant::now() + STEP_TIMEOUT;
    loop {
        let left = deadline.saturating_duration_since(tokio::time::Instant::now());
        if left.is_zero() {
            return Err("connection still open".into());
        }
        match read_n(s, 4096, left).await {
            ReadOutcome::Eof(_) | ReadOutcome::Error(..) => return Ok(()),
            ReadOutcome::Bytes(_) => continue,
            ReadOutcome::Timeout(_) => return Err("connection still open".into()),
        }
    }
}

async fn peer_connect(addr: std::net::SocketAddr, tls: bool, silent: bool) -> Result<Box<dyn Stream>, String> {
    let tcp = connect_from("127.0.0.1", addr).await.map_err(|e| format!("connect: {e}"))?;
    if !tls || silent {
        return Ok(Box::new(tcp));
    }
    let connector = tokio_rustls::TlsConnector::from(peer_client_config(PeerVersions::Both, "cli_operator"));
    let name = tokio_rustls::rustls::pki_types::ServerName::try_from("test.com").unwrap();
    match tokio::time::timeout(STEP_TIMEOUT, connector.connect(name, tcp)).await {
        Ok(Ok(s)) => Ok(Box::new(s)),
        Ok(Err(e)) => Err(format!("handshake: {e}")),
        Err(_) => Err("handshake timed out".into()),
    }
}

/// wait until the number of sessions holding the handler map equals `n` (sessions clone the map)
async fn wait_sessions(app: &NetApp, n: usize) -> bool {
    for _ in 0..500 {
        // 2 (the harness' own references) + 1 (the server task's map, while it runs) + sessions
        let c = Arc::strong_count(&app.handlers[0].1);
        if c <= 3 + n {
            return true;
        }
        tokio::time::sleep(Duration::from_millis(2)).await;
    }
    false
}

pub async fn run_history(h: &History) -> Vec<(String, String)> {
    let mut problems: Vec<(String, String)> = vec![];
    let filter = || if h.events.contains(&SEv::ConnectFiltered) { AddressFilter::Exact("127.0.0.1".parse().unwrap()) } else { AddressFilter::Any };
    let (mut handle, addr, app) = if h.tls {
        let c = Cell { min13: false, self_signed: false, authz: false, rodbus_is_server: true, peer: PeerVersions::Both, cert: CertKind::Valid, spawn: false, ctor: 0 };
        match start_tls_server(&c, "ca_a", filter(), "127.0.0.1", h.max_sessions).await {
            Ok(s) => (Some(s.handle), s.addr, s.app),
            Err(e) => return vec![("MACHINERY:server-start".into(), e)],
        }
    } else {
        let app = net_app(&[1]);
        let (listener, addr) = if h.events.iter().any(|e| matches!(e, SEv::Drain(_))) {
            // small receive buffers for the sessions (inherited from the listener): the stalled peer
            // gets fewer requests in before the server stops reading, and has less to drain
            let sock = tokio::net::TcpSocket::new_v4().expect("socket");
            let _ = sock.set_recv_buffer_size(16 * 1024);
            sock.bind("127.0.0.1:0".parse().unwrap()).expect("bind");
            let l = sock.listen(16).expect("listen");
            let a = l.local_addr().unwrap();
            (l, a)
        } else {
            listen("127.0.0.1").await
        };
        let (handle, task) = create_tcp_server_task(h.max_sessions, listener, app.map.clone(), filter(), DecodeLevel::nothing());
        tokio::spawn(task.run());
        (Some(handle), addr, app)
    };
    let mut model = Model { cap: h.max_sessions.max(1), order: VecDeque::new(), up: true };
    let mut conns: Vec<Conn> = vec![];
    let mut tx: u16 = 0x1000;
    let mut level_toggle = false;
    for (step, ev) in h.events.iter().enumerate() {
        let mut fail = |sig: &str, d: String| problems.push((sig.to_string(), format!("step {step} {ev:?}: {d}")));
        match ev {
            SEv::Connect | SEv::ConnectSilent => {
                let silent = *ev == SEv::ConnectSilent;
                if !model.up {
                    // handled by the probe below
                    continue;
                }
                match peer_connect(addr, h.tls, silent).await {
                    Err(e) => {
                        fail("connect-refused", e);
                        break;
                    }
                    Ok(s) => {
                        let idx = conns.len();
                        conns.push(Conn { stream: Some(s), live: true, stalled: false, silent, half: None, eof_seen: false, stall_rest: vec![], stall_bytes: 0 });
                        if model.order.len() >= model.cap {
                            if let Some(old) = model.order.pop_front() {
                                conns[old].live = false;
                            }
                        }
                        model.order.push_back(idx);
                    }
                }
            }
            SEv::Close(i) => {
                if let Some(mut s) = conns[*i].stream.take() {
                    let _ = s.shutdown().await;
                    drop(s);
                }
                let was_live = conns[*i].live;
                conns[*i].live = false;
                conns[*i].eof_seen = true;
                model.order.retain(|x| x != i);
                if was_live {
                    // lock-step: let the server notice before the next event (the tracker learns
                    // about closed sessions asynchronously)
                    let n = model.order.len();
                    if !wait_sessions(&app, n).await {
                        fail("session-not-released", format!("server still holds more than {n} sessions after the peer closed one"));
                        break;
                    }
                    tokio::time::sleep(Duration::from_millis(15)).await;
                }
            }
            SEv::Request(i) => {
                tx = tx.wrapping_add(1);
                if let Err(e) = sentinel(&mut conns[*i], tx).await {
                    fail("request-not-served", format!("connection {i}: {e}"));
                    break;
                }
            }
            SEv::Garbage(i) => {
                // non-zero protocol id: the server must drop this session only
                let bad = crate::refmodel::pdu::mbap_raw(9, 0x55AA, 6, 1, &READ);
                if let Some(s) = conns[*i].stream.as_mut() {
                    write_all(s, &bad).await;
                }
                conns[*i].live = false;
                conns[*i].half = None;
                model.order.retain(|x| x != i);
                let n = model.order.len();
                if !wait_sessions(&app, n).await {
                    fail("garbage-session-not-closed", format!("connection {i} still served after a framing error"));
                    break;
                }
                tokio::time::sleep(Duration::from_millis(15)).await;
            }
            SEv::HalfFrame(i) => {
                tx = tx.wrapping_add(1);
                let f = mbap_frame(tx, 1, &READ);
                if let Some(s) = conns[*i].stream.as_mut() {
                    write_all(s, &f[..5]).await;
                }
                conns[*i].half = Some((f[5..].to_vec(), tx));
            }
            SEv::SetDecode | SEv::SetDecode9 => {
                // 8 slots per session queue; a few more than 9 so that a session that drains one or two
                // commands before its write blocks for good does not hide the effect
                let n = if *ev == SEv::SetDecode9 { 12 } else { 1 };
                if let Some(hd) = handle.as_mut() {
                    for k in 0..n {
                        level_toggle = !level_toggle;
                        let level = if level_toggle { DecodeLevel::nothing().application(AppDecodeLevel::DataValues) } else { DecodeLevel::nothing() };
                        match tokio::time::timeout(STEP_TIMEOUT, hd.set_decode_level(level)).await {
                            Ok(Ok(())) => {}
                            Ok(Err(_)) => {
                                if model.up {
                                    fail("handle-reports-shutdown", format!("set_decode_level #{k} returned Shutdown while the server is up"));
                                }
                            }
                            Err(_) => {
                                fail("server-handle-blocked", format!("set_decode_level #{k} did not return within {STEP_TIMEOUT:?}"));
                            }
                        }
                    }
                }
                if !problems.is_empty() {
                    break;
                }
            }
            SEv::Stall(i) => {
                // pipeline large reads without reading the replies until our own writes stop making progress
                let big = mbap_frame(0x7777, 1, &[3, 0, 0, 0, 125]);
                let batch: Vec<u8> = big.iter().cycle().take(big.len() * 64).copied().collect();
                // the stream stays a sequence of whole request frames: single `write` calls (a call
                // that is given up has written nothing), the position inside the batch is kept
                let mut off = 0usize;
                let mut written = 0usize;
                if let Some(s) = conns[*i].stream.as_mut() {
                    let mut blocked = false;
                    let started = std::time::Instant::now();
                    while started.elapsed() < Duration::from_secs(30) {
                        match tokio::time::timeout(Duration::from_millis(250), s.write(&batch[off..])).await {
                            Ok(Ok(n)) => {
                                off = (off + n) % batch.len();
                                written += n;
                            }
                            Ok(Err(_)) => break,
                            Err(_) => {
                                // our write made no progress. That alone also happens when the server is
                                // merely slow (loaded machine): the session is blocked in its own write
                                // only if the server's send queue is full, its input unread, and both
                                // stay exactly as they are
                                let mut samples = vec![server_queues(addr)];
                                for _ in 0..3 {
                                    tokio::time::sleep(Duration::from_millis(100)).await;
                                    samples.push(server_queues(addr));
                                }
                                let (tx0, rx0) = samples[0];
                                if tx0 >= 32 * 1024 && rx0 > 0 && samples.iter().all(|q| *q == (tx0, rx0)) {
                                    blocked = true;
                                    break;
                                }
                            }
                        }
                    }
                    if !blocked {
                        fail("MACHINERY:could-not-stall", "the server kept reading".into());
                        break;
                    }
                }
                conns[*i].stalled = true;
                conns[*i].stall_bytes = written;
                conns[*i].stall_rest = big[off % big.len()..].to_vec();
                if off % big.len() == 0 {
                    conns[*i].stall_rest.clear();
                }
            }
            SEv::Shutdown => {
                if let Some(hd) = handle.as_ref() {
                    match tokio::time::timeout(STEP_TIMEOUT, hd.shutdown()).await {
                        Ok(_) => {}
                        Err(_) => {
                            fail("server-handle-blocked", format!("shutdown() did not return within {STEP_TIMEOUT:?}"));
                            break;
                        }
                    }
                }
                model.up = false;
                for i in model.order.drain(..) {
                    conns[i].live = false;
                }
            }
            SEv::Drain(i) => {
                use tokio::io::AsyncReadExt;
                let rest = std::mem::take(&mut conns[*i].stall_rest);
                // one 259-byte reply per whole request frame written (the cut frame is completed first)
                let frames = (conns[*i].stall_bytes + rest.len()) / 12;
                let mut left = frames * 259;
                if let Some(s) = conns[*i].stream.as_mut() {
                    let mut buf = vec![0u8; 1 << 16];
                    let mut rest = &rest[..];
                    let started = std::time::Instant::now();
                    while left > 0 && started.elapsed() < Duration::from_secs(120) {
                        if !rest.is_empty() {
                            if let Ok(Ok(n)) = tokio::time::timeout(Duration::from_millis(20), s.write(rest)).await {
                                rest = &rest[n..];
                            }
                        }
                        let want = left.min(buf.len());
                        match tokio::time::timeout(STEP_TIMEOUT, s.read(&mut buf[..want])).await {
                            Ok(Ok(n)) if n > 0 => left -= n,
                            // the line ended or went quiet: the probe below reports it
                            _ => break,
                        }
                    }
                }
                conns[*i].stalled = false;
                conns[*i].half = None;
            }
            SEv::ConnectFiltered => {
                if !model.up {
                    continue;
                }
                // the connection may be accepted by the kernel; the server must end it by itself
                if let Ok(mut s) = connect_from("127.0.0.2", addr).await {
                    match read_n(&mut s, 1, STEP_TIMEOUT).await {
                        ReadOutcome::Eof(_) | ReadOutcome::Error(..) => {}
                        other => {
                            fail("filtered-peer-kept", format!("a peer from 127.0.0.2 (filter: exactly 127.0.0.1) was not disconnected: {other:?}"));
                            break;
                        }
                    }
                }
                let n = model.order.len();
                let _ = wait_sessions(&app, n).await;
            }
            SEv::DropHandle => {
                handle = None;
                model.up = false;
                for i in model.order.drain(..) {
                    conns[i].live = false;
                }
            }
        }
        // probe: every connection must be in the state the reference tracker says
        for i in 0..conns.len() {
            if (conns[i].silent || conns[i].stalled) && conns[i].live {
                continue;
            }
            // a silent (never handshaking) or stalled connection that the server must have closed:
            // the peer must see the end of the stream
            // a stalled connection that the server must have closed: once the peer drains what is
            // in flight it must see the end of the stream
            if conns[i].live {
                tx = tx.wrapping_add(1);
                if let Err(e) = sentinel(&mut conns[i], tx).await {
                    problems.push(("live-session-disturbed".to_string(), format!("step {step} {ev:?}: connection {i} should be served but: {e}")));
                }
            } else if !conns[i].eof_seen {
                match expect_eof(&mut conns[i]).await {
                    Ok(()) => conns[i].eof_seen = true,
                    Err(e) => {
                        conns[i].eof_seen = true;
                        problems.push(("session-not-closed".to_string(), format!("step {step} {ev:?}: connection {i} should have been closed by the server: {e}")));
                    }
                }
            }
        }
        if !model.up {
            // the server must have stopped listening
            let mut refused = false;
            for _ in 0..100 {
                match connect_from("127.0.0.1", addr).await {
                    Err(_) => {
                        refused = true;
                        break;
                    }
                    Ok(mut s) => {
                        // accepted by the kernel backlog of a listener that is about to go away?
                        if let ReadOutcome::Eof(_) | ReadOutcome::Error(..) = read_n(&mut s, 1, Duration::from_millis(20)).await {
                            refused = true;
                            break;
                        }
                    }
                }
                tokio::time::sleep(Duration::from_millis(20)).await;
            }
            if !refused {
                problems.push(("still-listening".to_string(), format!("step {step} {ev:?}: new connections are still accepted after shutdown")));
            }
        }
        if !problems.is_empty() {
            break;
        }
    }
    // tidy up: stalled / silent peers go away, the server is shut down
    drop(conns);
    if let Some(hd) = handle {
        let _ = tokio::time::timeout(Duration::from_millis(500), hd.shutdown()).await;
    }
    problems
}

/// many sessions ending at the same instant (more than any internal queue of the server holds):
/// afterwards the server must still count live sessions only - `n - 1` new connections fit next
/// to the one that stayed, and one more evicts exactly the oldest
pub async fn run_burst_case(tls: bool, n: usize) -> Vec<(String, String)> {
    let mut problems: Vec<(String, String)> = vec![];
    let (handle, addr, app) = if tls {
        let c = Cell { min13: false, self_signed: false, authz: false, rodbus_is_server: true, peer: PeerVersions::Both, cert: CertKind::Valid, spawn: false, ctor: 0 };
        match start_tls_server(&c, "ca_a", AddressFilter::Any, "127.0.0.1", n).await {
            Ok(s) => (s.handle, s.addr, s.app),
            Err(e) => return vec![("MACHINERY:server-start".into(), e)],
        }
    } else {
        let app = net_app(&[1]);
        let (listener, addr) = listen("127.0.0.1").await;
        let (handle, task) = create_tcp_server_task(n, listener, app.map.clone(), AddressFilter::Any, DecodeLevel::nothing());
        tokio::spawn(task.run());
        (handle, addr, app)
    };
    let mut tx: u16 = 0x3000;
    let mut conns: Vec<Conn> = vec![];
    let connect_n = |k: usize| k;
    let _ = connect_n;
    let result: Result<(), (String, String)> = async {
        for i in 0..n {
            let s = peer_connect(addr, tls, false).await.map_err(|e| ("connect-refused".to_string(), format!("connection {i}: {e}")))?;
            conns.push(Conn { stream: Some(s), live: true, stalled: false, silent: false, half: None, eof_seen: false, stall_rest: vec![], stall_bytes: 0 });
            tx = tx.wrapping_add(1);
            sentinel(&mut conns[i], tx).await.map_err(|e| ("request-not-served".to_string(), format!("connection {i} of {n}: {e}")))?;
        }
        // all but the first go away at the same instant
        let rest: Vec<Conn> = conns.drain(1..).collect();
        drop(rest);
        if !wait_sessions(&app, 1).await {
            return Err(("session-not-released".into(), format!("{} sessions ended at once; the server still holds more than one", n - 1)));
        }
        tokio::time::sleep(Duration::from_millis(30)).await;
        // n - 1 new sessions fit next to the old one
        for i in 1..n {
            let s = peer_connect(addr, tls, false).await.map_err(|e| ("connect-refused".to_string(), format!("new connection {i}: {e}")))?;
            conns.push(Conn { stream: Some(s), live: true, stalled: false, silent: false, half: None, eof_seen: false, stall_rest: vec![], stall_bytes: 0 });
            tx = tx.wrapping_add(1);
            sentinel(&mut conns[i], tx).await.map_err(|e| ("request-not-served".to_string(), format!("new connection {i} of {}: {e}", n - 1)))?;
        }
        for i in 0..n {
            tx = tx.wrapping_add(1);
            sentinel(&mut conns[i], tx).await.map_err(|e| ("live-session-disturbed".to_string(), format!("after {} sessions had ended at once and {} new ones had connected ({n} live, limit {n}), connection {i} is no longer served: {e}", n - 1, n - 1)))?;
        }
        // one more: exactly the oldest goes
        let s = peer_connect(addr, tls, false).await.map_err(|e| ("connect-refused".to_string(), format!("connection over the limit: {e}")))?;
        conns.push(Conn { stream: Some(s), live: true, stalled: false, silent: false, half: None, eof_seen: false, stall_rest: vec![], stall_bytes: 0 });
        tx = tx.wrapping_add(1);
        sentinel(&mut conns[n], tx).await.map_err(|e| ("request-not-served".to_string(), format!("connection over the limit: {e}")))?;
        expect_eof(&mut conns[0]).await.map_err(|e| ("session-not-closed".to_string(), format!("the oldest session should have been evicted: {e}")))?;
        for i in 1..=n {
            tx = tx.wrapping_add(1);
            sentinel(&mut conns[i], tx).await.map_err(|e| ("live-session-disturbed".to_string(), format!("after the eviction of the oldest, connection {i} is no longer served: {e}")))?;
        }
        Ok(())
    }
    .await;
    if let Err(e) = result {
        problems.push(e);
    }
    drop(conns);
    let _ = tokio::time::timeout(Duration::from_millis(500), handle.shutdown()).await;
    problems
}

pub fn burst_close_phase(thorough: bool) -> Stats {
    let mut cases: Vec<(bool, usize)> = vec![(false, 9), (false, 10), (false, 12), (false, 17), (true, 10)];
    if thorough {
        cases.extend([(false, 11), (false, 13), (false, 24), (false, 40), (true, 9), (true, 17)]);
    }
    // every case twice: on the shared multi-thread runtime, and on a single-threaded runtime of its
    // own, where all the sessions that were woken by the same turn of the I/O driver run to their
    // end before the server task is polled again (the ends really are simultaneous for it)
    let cases: Vec<(bool, usize, bool)> = cases.iter().flat_map(|(t, n)| [(*t, *n, false), (*t, *n, true)]).collect();
    let cases = Arc::new(cases);
    let results: Arc<std::sync::Mutex<Vec<(usize, Vec<(String, String)>)>>> = Arc::new(std::sync::Mutex::new(vec![]));
    let run_single = |tls: bool, n: usize| -> Vec<(String, String)> {
        std::thread::spawn(move || match tokio::runtime::Builder::new_current_thread().enable_all().build() {
            Ok(rt1) => rt1.block_on(run_burst_case(tls, n)),
            Err(e) => vec![("MACHINERY:runtime".to_string(), e.to_string())],
        })
        .join()
        .unwrap_or_else(|_| vec![("MACHINERY:burst-thread".to_string(), "panicked".to_string())])
    };
    for i in 0..cases.len() {
        let (tls, n, single) = cases[i];
        let run = |_: ()| if single { run_single(tls, n) } else { rt().block_on(run_burst_case(tls, n)) };
        let mut r = run(());
        if !r.is_empty() {
            let r2 = run(());
            let r3 = run(());
            if r2.is_empty() || r3.is_empty() {
                r = vec![];
            }
        }
        results.lock().unwrap().push((i, r));
    }
    let mut st = Stats::default();
    let mut res = results.lock().unwrap().clone();
    res.sort_by_key(|x| x.0);
    for (i, problems) in res {
        let (tls, n, single) = cases[i];
        st.evaluations += 1;
        st.traces += 1;
        st.transitions += 3 * n as u64;
        st.class("burst-of-session-ends");
        st.observe(&(tls, n, single, problems.len()));
        for (sig, desc) in problems {
            st.violation(Violation {
                signature: format!("{sig}:burst-close"),
                summary: format!("max_sessions={n} tls={tls} ({} runtime): {n} sessions, {} of them closed at the same instant, {} new ones: {desc}", if single { "single-threaded" } else { "multi-thread" }, n - 1, n - 1),
                replay: json!({"kind": "c15-burst", "tls": tls, "n": n, "single": single}),
            });
        }
    }
    st
}

pub fn replay_burst(v: &serde_json::Value) -> Vec<(String, String)> {
    let (tls, n) = (v["tls"].as_bool().unwrap(), v["n"].as_u64().unwrap() as usize);
    let r = if v["single"].as_bool().unwrap_or(false) {
        std::thread::spawn(move || tokio::runtime::Builder::new_current_thread().enable_all().build().unwrap().block_on(run_burst_case(tls, n))).join().unwrap()
    } else {
        rt().block_on(run_burst_case(tls, n))
    };
    r.into_iter().map(|(s, d)| (format!("{s}:burst-close"), d)).collect()
}

fn enabled(h: &[SEv], tls: bool, max_conn: usize) -> Vec<SEv> {
    // replay the reference tracker to know which connections exist / are live
    let mut live: Vec<bool> = vec![];
    let mut stalled: Vec<bool> = vec![];
    let mut up = true;
    let mut nine = false;
    for e in h {
        match e {
            SEv::Connect | SEv::ConnectSilent => {
                live.push(true);
                stalled.push(*e == SEv::ConnectSilent);
            }
            SEv::Close(i) | SEv::Garbage(i) => live[*i] = false,
            SEv::Stall(i) => stalled[*i] = true,
            SEv::Drain(i) => stalled[*i] = false,
            SEv::Shutdown | SEv::DropHandle => up = false,
            SEv::SetDecode9 => nine = true,
            _ => {}
        }
    }
    let mut v = vec![];
    if !up {
        return v;
    }
    if live.len() < max_conn {
        v.push(SEv::Connect);
    }
    for i in 0..live.len() {
        if live[i] && !stalled[i] {
            v.push(SEv::Request(i));
            v.push(SEv::Close(i));
            v.push(SEv::Garbage(i));
            v.push(SEv::HalfFrame(i));
        }
    }
    v.push(SEv::SetDecode);
    if !nine {
        v.push(SEv::SetDecode9);
    }

    if !stalled.iter().any(|x| *x) {
        for i in 0..live.len() {
            if live[i] {
                v.push(SEv::Stall(i));
                break;
            }
        }
        if tls && live.len() < max_conn {
            v.push(SEv::ConnectSilent);
        }
    }
    if live.iter().any(|x| *x) && !h.contains(&SEv::ConnectFiltered) {
        v.push(SEv::ConnectFiltered);
    }
    v.push(SEv::Shutdown);
    v.push(SEv::DropHandle);
    v
}

/// which connections does the reference tracker consider live after `h` (with capacity `cap`)?
fn eviction_aware_filter(h: &[SEv], cap: usize) -> bool {
    // events may only address connections that the tracker still considers live
    let mut order: VecDeque<usize> = VecDeque::new();
    let mut n = 0usize;
    for e in h {
        match e {
            SEv::Connect | SEv::ConnectSilent => {
                if order.len() >= cap {
                    order.pop_front();
                }
                order.push_back(n);
                n += 1;
            }
            SEv::Close(i) | SEv::Garbage(i) => {
                if !order.contains(i) {
                    return false;
                }
                order.retain(|x| x != i);
            }
            SEv::Request(i) | SEv::HalfFrame(i) | SEv::Stall(i) | SEv::Drain(i) => {
                if !order.contains(i) {
                    return false;
                }
            }
            _ => {}
        }
    }
    true
}

fn cost(e: &SEv) -> usize {
    match e {
        SEv::Stall(_) | SEv::SetDecode9 | SEv::ConnectSilent | SEv::ConnectFiltered => 1,
        _ => 0,
    }
}

pub fn check_c15(tier: &str) -> i32 {
    let mut rep = Report::new(
        "C15",
        tier,
        "model_checking",
        "all histories up to depth D over {connect, peer closes i, request on i, garbage on i, half frame on i, set decode level, set decode level x9, stall i (peer stops reading until the server's write blocks), drain i (the stalled peer reads again), silent TLS peer, a peer refused by the address filter, shutdown, drop handle} with max_sessions in {0,1,2,3} against the unmodified create_tcp_server_task / create_tls_server_task on 127.0.0.1, peers are raw sockets / independent rustls clients; events are applied in lock-step and after every event every connection is probed: connections the reference tracker (capacity max(1,n), evict oldest) considers live must answer a sentinel read, closed ones must deliver EOF, after shutdown / handle drop new connections must be refused. states = distinct reference-tracker states",
    );
    let thorough = rep.thorough();
    let depth = if thorough { 5 } else { 4 };
    let max_dev = 2;
    rep.bounds = json!({"depth": depth, "max_deviations(stall, x9, silent)": max_dev, "max_sessions": [0, 1, 2, 3], "max_connections_per_history": 4, "connect_close_only_depth": if thorough { 8 } else { 6 }, "connect_close_only_max_connections": 7});
    // enumerate histories (model only), then run them on the net runtime
    let mut histories: Vec<History> = vec![];
    for tls in [false, true] {
        for max_sessions in [0usize, 1, 2, 3] {
            if tls && !(max_sessions == 2 || thorough && max_sessions == 1) {
                continue;
            }
            let cap = max_sessions.max(1);
            let d = if tls { depth.min(3) } else if max_sessions == 2 { depth } else { depth - 1 };
            fn rec(path: &mut Vec<SEv>, dev: usize, d: usize, max_dev: usize, tls: bool, cap: usize, out: &mut Vec<Vec<SEv>>) {
                if !path.is_empty() {
                    out.push(path.clone());
                }
                if path.len() >= d {
                    return;
                }
                for e in enabled(path, tls, 4) {
                    let c = cost(&e);
                    if dev + c > max_dev {
                        continue;
                    }
                    path.push(e);
                    if eviction_aware_filter(path, cap) {
                        rec(path, dev + c, d, max_dev, tls, cap, out);
                    }
                    path.pop();
                }
            }
            let mut out = vec![];
            rec(&mut vec![], 0, d, max_dev, tls, cap, &mut out);
            // only maximal histories and those ending in a terminal event need to be run: every
            // prefix is probed step by step inside the longer history
            let set: std::collections::HashSet<Vec<SEv>> = out.iter().cloned().collect();
            for p in out {
                let terminal = matches!(p.last(), Some(SEv::Shutdown | SEv::DropHandle));
                let has_ext = enabled(&p, tls, 4).into_iter().any(|e| {
                    let mut q = p.clone();
                    q.push(e);
                    set.contains(&q)
                });
                if terminal || !has_ext {
                    histories.push(History { max_sessions, tls, events: p });
                }
            }
        }
    }
    // the tracker alone, deeper: every history over {connect, peer closes i} (plain TCP), more
    // connections, so that eviction after out-of-order closes is reached
    let tracker_depth = if thorough { 8 } else { 6 };
    for max_sessions in [1usize, 2, 3] {
        let cap = max_sessions;
        fn rec2(path: &mut Vec<SEv>, d: usize, cap: usize, out: &mut Vec<Vec<SEv>>) {
            // reference tracker state
            let mut order: VecDeque<usize> = VecDeque::new();
            let mut n = 0usize;
            for e in path.iter() {
                match e {
                    SEv::Connect => {
                        if order.len() >= cap {
                            order.pop_front();
                        }
                        order.push_back(n);
                        n += 1;
                    }
                    SEv::Close(i) => order.retain(|x| x != i),
                    _ => {}
                }
            }
            if path.len() >= d {
                out.push(path.clone());
                return;
            }
            let mut any = false;
            if n < 7 {
                path.push(SEv::Connect);
                rec2(path, d, cap, out);
                path.pop();
                any = true;
            }
            if !order.is_empty() && !path.contains(&SEv::ConnectFiltered) && path.len() + 1 < d {
                path.push(SEv::ConnectFiltered);
                rec2(path, d, cap, out);
                path.pop();
            }
            for i in order.iter().copied().collect::<Vec<_>>() {
                // closing is only interesting while something can still be connected afterwards
                if path.len() + 1 < d {
                    path.push(SEv::Close(i));
                    rec2(path, d, cap, out);
                    path.pop();
                    any = true;
                }
            }
            if !any {
                out.push(path.clone());
            }
        }
        let mut out = vec![];
        rec2(&mut vec![], tracker_depth, cap, &mut out);
        for p in out {
            // histories without any close are already covered by the general alphabet
            if p.iter().any(|e| matches!(e, SEv::Close(_) | SEv::ConnectFiltered)) && matches!(p.last(), Some(SEv::Connect)) {
                histories.push(History { max_sessions, tls: false, events: p });
            }
        }
    }
    // a session that was busy (blocked in its write) while more decode-level changes arrived than
    // its command queue holds is still there once the peer reads again
    // (plain TCP only: an independent TLS peer keeps part of what it "wrote" in its own TLS buffer,
    // so the number of replies to wait for is not known exactly)
    for tls in [false] {
        use SEv::*;
        for events in [vec![Connect, Stall(0), SetDecode9, Drain(0)], vec![Connect, Connect, Stall(0), SetDecode9, Drain(0), Request(1)], vec![Connect, Stall(0), SetDecode, Drain(0), SetDecode9]] {
            histories.push(History { max_sessions: 2, tls, events });
        }
    }
    let results: Arc<std::sync::Mutex<Vec<(usize, Vec<(String, String)>)>>> = Arc::new(std::sync::Mutex::new(vec![]));
    let hist = Arc::new(histories);
    rt().block_on(async {
        let sem = Arc::new(tokio::sync::Semaphore::new(20));
        let stall_sem = Arc::new(tokio::sync::Semaphore::new(8));
        let mut joins = vec![];
        for i in 0..hist.len() {
            let hist = hist.clone();
            let results = results.clone();
            let sem = sem.clone();
            let stall_sem = stall_sem.clone();
            joins.push(tokio::spawn(async move {
                // the verdict of a history with a stall depends on a session being really blocked in
                // its write: those run few at a time
                let has_stall = hist[i].events.iter().any(|e| matches!(e, SEv::Stall(_)));
                let _p = if has_stall { stall_sem.acquire().await.unwrap() } else { sem.acquire().await.unwrap() };
                let mut r = run_history(&hist[i]).await;
                if !r.is_empty() && !r[0].0.starts_with("server-handle-blocked") {
                    // real sockets, real scheduler: a verdict must reproduce before it is reported
                    let r2 = run_history(&hist[i]).await;
                    let r3 = run_history(&hist[i]).await;
                    if r2.is_empty() || r3.is_empty() {
                        r = vec![];
                    }
                }
                results.lock().unwrap().push((i, r));
            }));
        }
        for j in joins {
            let _ = j.await;
        }
    });
    let mut st = Stats::default();
    let mut res = results.lock().unwrap().clone();
    res.sort_by_key(|x| x.0);
    for (i, problems) in res {
        let h = &hist[i];
        st.evaluations += 1;
        st.traces += 1;
        st.transitions += h.events.len() as u64;
        for k in 1..=h.events.len() {
            st.state(&(h.max_sessions, h.tls, format!("{:?}", &h.events[..k])));
        }
        for e in &h.events {
            st.class(match e {
                SEv::Connect => "ev:connect",
                SEv::Close(_) => "ev:close",
                SEv::Request(_) => "ev:request",
                SEv::Garbage(_) => "ev:garbage",
                SEv::HalfFrame(_) => "ev:half-frame",
                SEv::SetDecode => "ev:set-decode",
                SEv::SetDecode9 => "ev:set-decode-x9",
                SEv::Stall(_) => "ev:stall",
                SEv::ConnectSilent => "ev:silent-tls-peer",
                SEv::Shutdown => "ev:shutdown",
                SEv::DropHandle => "ev:drop-handle",
                SEv::ConnectFiltered => "ev:filtered-peer",
                SEv::Drain(_) => "ev:drain-stalled",
            });
        }
        st.observe(&(h.max_sessions, h.tls, format!("{:?}", h.events), problems.len()));
        if i % 97 == 0 {
            st.sample(json!({"max_sessions": h.max_sessions, "tls": h.tls, "events": format!("{:?}", h.events)}));
        }
        for (sig, desc) in problems {
            let sig = classify_sig(&sig, h);
            st.violation(Violation {
                signature: sig,
                summary: format!("max_sessions={} tls={} history {:?}: {desc}", h.max_sessions, h.tls, h.events),
                replay: json!({"kind": "c15", "max_sessions": h.max_sessions, "tls": h.tls, "events": h.events}),
            });
        }
    }
    rep.phase("histories", st, json!({"histories": hist.len()}));
    let st = burst_close_phase(thorough);
    rep.phase("bursts: up to 39 sessions ending at the same instant, then as many new ones", st, json!({"max_sessions": if thorough { "9..40" } else { "9..17" }}));
    rep.require_class("burst-of-session-ends");
    for c in ["ev:connect", "ev:close", "ev:request", "ev:garbage", "ev:half-frame", "ev:set-decode", "ev:set-decode-x9", "ev:stall", "ev:shutdown", "ev:drop-handle", "ev:silent-tls-peer", "ev:filtered-peer", "ev:drain-stalled"] {
        rep.require_class(c);
    }
    rep.assumptions.push("the kernel scheduler is real: histories are lock-step (each event is followed by a probe of every connection), a failing history must fail three times in a row to be reported".into());
    rep.finish()
}

/// bytes the kernel holds in the (send, receive) queues of the server's established sockets (the
/// listener port is unique per history): a session blocked in `write` has a full, unchanging send
/// queue and leaves its input unread
fn server_queues(addr: std::net::SocketAddr) -> (u64, u64) {
    let want = match addr {
        std::net::SocketAddr::V4(a) => {
            let o = a.ip().octets();
            format!("{:02X}{:02X}{:02X}{:02X}:{:04X}", o[3], o[2], o[1], o[0], a.port())
        }
        _ => return (0, 0),
    };
    let mut total = (0u64, 0u64);
    if let Ok(text) = std::fs::read_to_string("/proc/net/tcp") {
        for line in text.lines().skip(1) {
            let f: Vec<&str> = line.split_whitespace().collect();
            // sl local rem st tx:rx ...; 01 = ESTABLISHED
            if f.len() > 4 && f[1] == want && f[3] == "01" {
                if let Some((tx, rx)) = f[4].split_once(':') {
                    total.0 += u64::from_str_radix(tx, 16).unwrap_or(0);
                    total.1 += u64::from_str_radix(rx, 16).unwrap_or(0);
                }
            }
        }
    }
    total
}

/// C07 over the production TCP / TLS server task: sessions ended by malformed input leave nothing
/// behind - every other session keeps being served and the session limit still counts live
/// sessions only
pub fn garbage_isolation_phase() -> Stats {
    use SEv::*;
    let mut histories: Vec<History> = vec![];
    for tls in [false, true] {
        for (max_sessions, events) in [
            (2usize, vec![Connect, Connect, Garbage(1), Connect, Request(0)]),
            (2, vec![Connect, Garbage(0), Connect, Connect, Request(1), Request(2)]),
            (2, vec![Connect, Garbage(0), Connect, Garbage(1), Connect, Connect, Request(2)]),
            (3, vec![Connect, Connect, Connect, Garbage(2), Garbage(1), Connect, Connect, Request(0)]),
            (1, vec![Connect, Garbage(0), Connect, Request(1)]),
            (2, vec![Connect, HalfFrame(0), Connect, Garbage(1), Connect, Request(0)]),
        ] {
            histories.push(History { max_sessions, tls, events });
        }
    }
    let hist = Arc::new(histories);
    let results: Arc<std::sync::Mutex<Vec<(usize, Vec<(String, String)>)>>> = Arc::new(std::sync::Mutex::new(vec![]));
    rt().block_on(async {
        let sem = Arc::new(tokio::sync::Semaphore::new(6));
        let mut joins = vec![];
        for i in 0..hist.len() {
            let (hist, results, sem) = (hist.clone(), results.clone(), sem.clone());
            joins.push(tokio::spawn(async move {
                let _p = sem.acquire().await.unwrap();
                let mut r = run_history(&hist[i]).await;
                if !r.is_empty() && !r[0].0.starts_with("server-handle-blocked") {
                    let r2 = run_history(&hist[i]).await;
                    let r3 = run_history(&hist[i]).await;
                    if r2.is_empty() || r3.is_empty() {
                        r = vec![];
                    }
                }
                results.lock().unwrap().push((i, r));
            }));
        }
        for j in joins {
            let _ = j.await;
        }
    });
    let mut st = Stats::default();
    let mut res = results.lock().unwrap().clone();
    res.sort_by_key(|x| x.0);
    for (i, problems) in res {
        let h = &hist[i];
        st.evaluations += 1;
        st.traces += 1;
        st.transitions += h.events.len() as u64;
        st.class("server-task:garbage-on-one-session");
        st.observe(&(h.tls, h.max_sessions, format!("{:?}", h.events), problems.len()));
        for (sig, desc) in problems {
            st.violation(Violation {
                signature: format!("malformed-input-affects-other-sessions:{sig}"),
                summary: format!("max_sessions={} tls={} history {:?}: {desc}", h.max_sessions, h.tls, h.events),
                replay: json!({"kind": "c15", "max_sessions": h.max_sessions, "tls": h.tls, "events": h.events}),
            });
        }
    }
    st
}

/// C20 over the production TCP / TLS server task: bursts of decode-level changes (more than a
/// session's command queue holds) at every position of short connect / request scripts. Every
/// request must still be answered, by the same session, with the same bytes.
pub fn decode_burst_phase() -> Stats {
    let mut histories: Vec<History> = vec![];
    for tls in [false, true] {
        let scripts: Vec<Vec<SEv>> = vec![
            vec![SEv::Connect, SEv::Request(0), SEv::Request(0)],
            vec![SEv::Connect, SEv::Connect, SEv::Request(0), SEv::Request(1)],
            vec![SEv::Connect, SEv::HalfFrame(0), SEv::Request(0)],
            vec![SEv::Connect, SEv::Connect, SEv::Connect, SEv::Request(2), SEv::Request(1), SEv::Request(0)],
        ];
        for script in scripts {
            for pos in 0..=script.len() {
                for burst in [SEv::SetDecode, SEv::SetDecode9] {
                    let mut ev = script.clone();
                    ev.insert(pos, burst);
                    histories.push(History { max_sessions: 3, tls, events: ev });
                }
            }
        }
    }
    let hist = Arc::new(histories);
    let results: Arc<std::sync::Mutex<Vec<(usize, Vec<(String, String)>)>>> = Arc::new(std::sync::Mutex::new(vec![]));
    rt().block_on(async {
        let sem = Arc::new(tokio::sync::Semaphore::new(8));
        let mut joins = vec![];
        for i in 0..hist.len() {
            let (hist, results, sem) = (hist.clone(), results.clone(), sem.clone());
            joins.push(tokio::spawn(async move {
                let _p = sem.acquire().await.unwrap();
                let mut r = run_history(&hist[i]).await;
                if !r.is_empty() && !r[0].0.starts_with("server-handle-blocked") {
                    let r2 = run_history(&hist[i]).await;
                    let r3 = run_history(&hist[i]).await;
                    if r2.is_empty() || r3.is_empty() {
                        r = vec![];
                    }
                }
                results.lock().unwrap().push((i, r));
            }));
        }
        for j in joins {
            let _ = j.await;
        }
    });
    let mut st = Stats::default();
    let mut res = results.lock().unwrap().clone();
    res.sort_by_key(|x| x.0);
    for (i, problems) in res {
        let h = &hist[i];
        st.evaluations += 1;
        st.traces += 1;
        st.transitions += h.events.len() as u64;
        st.class(if h.events.contains(&SEv::SetDecode9) { "server-task:decode-burst" } else { "server-task:decode-change" });
        st.observe(&(h.tls, format!("{:?}", h.events), problems.len()));
        for (sig, desc) in problems {
            st.violation(Violation {
                signature: format!("decode-change-disturbs-server-task:{sig}"),
                summary: format!("tls={} history {:?}: {desc}", h.tls, h.events),
                replay: json!({"kind": "c15", "max_sessions": h.max_sessions, "tls": h.tls, "events": h.events}),
            });
        }
    }
    st
}

/// make signatures specific enough to tell different defects apart
// ---------------------------------------------------------------------------------------------
// C05 over real sockets: the reply stream of a session whose peer reads slowly
// ---------------------------------------------------------------------------------------------

/// `m` pipelined "read 125 registers" requests; the peer starts reading only when the server's
/// send queue has stopped moving, then drains in pieces of varying size. The reply stream must be
/// exactly the concatenation of the `m` reply frames.
pub async fn run_backpressure_case(tls: bool, small_sndbuf: bool, m: usize, pattern: usize) -> Vec<(String, String)> {
    use tokio::io::AsyncReadExt;
    let app = net_app(&[1]);
    let sock = match tokio::net::TcpSocket::new_v4() {
        Ok(s) => s,
        Err(e) => return vec![("MACHINERY:socket".into(), e.to_string())],
    };
    if small_sndbuf {
        // accepted sockets inherit the listener's buffer sizes
        let _ = sock.set_send_buffer_size(4096);
    }
    if sock.bind("127.0.0.1:0".parse().unwrap()).is_err() {
        return vec![("MACHINERY:bind".into(), "bind".into())];
    }
    let listener = match sock.listen(16) {
        Ok(l) => l,
        Err(e) => return vec![("MACHINERY:listen".into(), e.to_string())],
    };
    let addr = listener.local_addr().unwrap();
    let handle = if tls {
        let cfg = match TlsServerConfig::new(&cert_path("ca_a"), &cert_path("srv_valid"), &key_path("srv_valid"), None, MinTlsVersion::V1_2, CertificateMode::AuthorityBased) {
            Ok(c) => c,
            Err(e) => return vec![("MACHINERY:tls-config".into(), e.to_string())],
        };
        let (h, task) = create_tls_server_task(2, listener, app.map.clone(), cfg, AddressFilter::Any, DecodeLevel::nothing());
        tokio::spawn(task.run());
        h
    } else {
        let (h, task) = create_tcp_server_task(2, listener, app.map.clone(), AddressFilter::Any, DecodeLevel::nothing());
        tokio::spawn(task.run());
        h
    };
    let mut problems = vec![];
    let pdu = [3u8, 0, 0, 0, 125];
    let result: Result<(), (String, String)> = async {
        let stream = peer_connect(addr, tls, false).await.map_err(|e| ("MACHINERY:connect".to_string(), e))?;
        let (mut rd, mut wr) = tokio::io::split(stream);
        // the reference reply, learned from an ordinary exchange on the same connection
        if !write_all(&mut wr, &mbap_frame(0, 1, &pdu)).await {
            return Err(("MACHINERY:write".into(), "first request".into()));
        }
        let reference = match read_n(&mut rd, 259, STEP_TIMEOUT).await {
            ReadOutcome::Bytes(b) if b[..2] == [0, 0] && b[7] == 3 && b[8] == 250 => b,
            other => return Err(("MACHINERY:reference-reply".into(), format!("{other:?}"))),
        };
        let mut batch = Vec::with_capacity(m * 12);
        for i in 1..=m {
            batch.extend_from_slice(&mbap_frame(i as u16, 1, &pdu));
        }
        let writer = tokio::spawn(async move {
            // (tokio-rustls accepts plaintext into its own buffer: without the flush the last
            // records may never leave the peer)
            let r = match wr.write_all(&batch).await {
                Ok(()) => wr.flush().await,
                Err(e) => Err(e),
            };
            (wr, r.is_ok())
        });
        // start reading only once the server's send queue has stopped moving (or after a second)
        let mut last = (u64::MAX, u64::MAX);
        let mut same = 0;
        for _ in 0..50 {
            tokio::time::sleep(Duration::from_millis(20)).await;
            let q = server_queues(addr);
            if q == last && q.0 > 0 {
                same += 1;
                if same >= 3 {
                    break;
                }
            } else {
                same = 0;
            }
            last = q;
        }
        let sizes: [&[usize]; 4] = [&[1, 7, 64, 259, 260, 1000, 4096], &[258, 1, 259, 518, 3], &[4096, 16384], &[13, 100, 37]];
        let sizes = sizes[pattern % 4];
        let total = m * 259;
        let mut got = 0usize;
        let mut buf = vec![0u8; 16384];
        let mut k = 0usize;
        while got < total {
            let want = sizes[k % sizes.len()].min(total - got);
            k += 1;
            let n = match tokio::time::timeout(STEP_TIMEOUT, rd.read(&mut buf[..want])).await {
                Err(_) => {
                    // diagnosis: does one more request shake the missing replies loose?
                    let mut nudged = 0usize;
                    if let Ok((mut wr, _)) = writer.await {
                        if write_all(&mut wr, &mbap_frame(0xFFFE, 1, &[3, 0, 0, 0, 1])).await {
                            while let Ok(Ok(n)) = tokio::time::timeout(Duration::from_millis(1500), rd.read(&mut buf)).await {
                                if n == 0 {
                                    break;
                                }
                                nudged += n;
                            }
                        }
                    }
                    return Err(("reply-stream-stops".into(), format!("no more bytes for {STEP_TIMEOUT:?} after {got} of {total} (reply #{} at offset {}); after one further request had been sent, {nudged} more bytes arrived ({} expected for the withheld replies plus that request's own)", got / 259 + 1, got % 259, total - got + 11)));
                }
                Ok(Ok(0)) | Ok(Err(_)) => return Err(("reply-stream-ends".into(), format!("the connection ended after {got} of {total} bytes (reply #{} at offset {})", got / 259 + 1, got % 259))),
                Ok(Ok(n)) => n,
            };
            for (j, b) in buf[..n].iter().enumerate() {
                let pos = got + j;
                let (idx, off) = (pos / 259 + 1, pos % 259);
                let want_b = match off {
                    0 => (idx >> 8) as u8,
                    1 => idx as u8,
                    _ => reference[off],
                };
                if *b != want_b {
                    return Err(("reply-stream-corrupted".into(), format!("reply #{idx} of {m}, offset {off}: byte {b:02x}, expected {want_b:02x} (the stream is not the concatenation of the reply frames; context {})", hex(&buf[j.saturating_sub(8)..(j + 8).min(n)]))));
                }
            }
            got += n;
            if k % 4 == 0 {
                // let the server fill its send queue again
                tokio::time::sleep(Duration::from_micros(500)).await;
            }
        }
        let (mut wr, ok) = writer.await.map_err(|e| ("MACHINERY:writer".to_string(), e.to_string()))?;
        if !ok {
            return Err(("MACHINERY:write".into(), "pipelined requests".into()));
        }
        // the session goes on
        if !write_all(&mut wr, &mbap_frame(0xFFFF, 1, &[3, 0, 0, 0, 2])).await {
            return Err(("session-lost-after-back-pressure".into(), "write failed".into()));
        }
        match read_n(&mut rd, 13, STEP_TIMEOUT).await {
            ReadOutcome::Bytes(b) if b[..2] == [0xFF, 0xFF] && b[7] == 3 => Ok(()),
            other => Err(("session-lost-after-back-pressure".into(), format!("{other:?}"))),
        }
    }
    .await;
    if let Err(e) = result {
        problems.push(e);
    }
    let _ = tokio::time::timeout(Duration::from_millis(500), handle.shutdown()).await;
    problems
}

pub fn backpressure_stream_phase(thorough: bool, patterns: usize) -> Stats {
    let m = if thorough { 12000 } else { 2500 };
    let mut cases: Vec<(bool, bool, usize)> = vec![];
    for tls in [false, true] {
        for small in [true, false] {
            for pattern in 0..patterns {
                cases.push((tls, small, pattern));
            }
        }
    }
    let cases = Arc::new(cases);
    let results: Arc<std::sync::Mutex<Vec<(usize, Vec<(String, String)>)>>> = Arc::new(std::sync::Mutex::new(vec![]));
    rt().block_on(async {
        let sem = Arc::new(tokio::sync::Semaphore::new(8));
        let mut joins = vec![];
        for i in 0..cases.len() {
            let (cases, results, sem) = (cases.clone(), results.clone(), sem.clone());
            joins.push(tokio::spawn(async move {
                let _p = sem.acquire().await.unwrap();
                let (tls, small, pattern) = cases[i];
                let mut r = run_backpressure_case(tls, small, m, pattern).await;
                // bytes that are wrong are a fact; a stream that merely stopped must stop again
                if !r.is_empty() && !r[0].0.starts_with("reply-stream-corrupted") {
                    let r2 = run_backpressure_case(tls, small, m, pattern).await;
                    if r2.is_empty() {
                        r = r2;
                    }
                }
                results.lock().unwrap().push((i, r));
            }));
        }
        for j in joins {
            let _ = j.await;
        }
    });
    let mut st = Stats::default();
    let mut res = results.lock().unwrap().clone();
    res.sort_by_key(|x| x.0);
    for (i, problems) in res {
        let (tls, small, pattern) = cases[i];
        st.evaluations += m as u64;
        st.traces += 1;
        st.transitions += m as u64;
        st.class(if tls { "reply-stream-under-back-pressure:tls" } else { "reply-stream-under-back-pressure:tcp" });
        st.observe(&(tls, small, pattern, problems.len()));
        for (sig, desc) in problems {
            st.violation(Violation {
                signature: format!("{sig}:{}", if tls { "tls" } else { "tcp" }),
                summary: format!("{} server, {} send buffer, {m} pipelined requests, read pattern {pattern}: {desc}", if tls { "TLS" } else { "TCP" }, if small { "4 KiB" } else { "default" }),
                replay: json!({"kind": "c05-backpressure", "tls": tls, "small": small, "m": m, "pattern": pattern}),
            });
        }
    }
    st
}

pub fn replay_backpressure(v: &serde_json::Value) -> Vec<(String, String)> {
    let tls = v["tls"].as_bool().unwrap();
    let (small, m, pattern) = (v["small"].as_bool().unwrap(), v["m"].as_u64().unwrap() as usize, v["pattern"].as_u64().unwrap() as usize);
    // a partial write of the kernel is needed: several attempts
    for _ in 0..5 {
        let r = rt().block_on(run_backpressure_case(tls, small, m, pattern));
        if !r.is_empty() {
            return r.into_iter().map(|(s, d)| (format!("{s}:{}", if tls { "tls" } else { "tcp" }), d)).collect();
        }
    }
    vec![]
}

fn classify_sig(sig: &str, h: &History) -> String {
    let stalled = h.events.iter().any(|e| matches!(e, SEv::Stall(_) | SEv::ConnectSilent));
    let nine = h.events.iter().any(|e| matches!(e, SEv::SetDecode9));
    match (stalled, nine) {
        (true, true) => format!("{sig}:stalled-session+decode-x9"),
        (true, false) => format!("{sig}:stalled-session"),
        _ => sig.to_string(),
    }
}

pub fn replay_c15(v: &serde_json::Value) -> Vec<(String, String)> {
    let h = History {
        max_sessions: v["max_sessions"].as_u64().unwrap() as usize,
        tls: v["tls"].as_bool().unwrap(),
        events: serde_json::from_value(v["events"].clone()).unwrap(),
    };
    rt().block_on(async { run_history(&h).await }).into_iter().map(|(s, d)| (classify_sig(&s, &h), d)).collect()
}

#[allow(dead_code)]
fn unused() -> String {
    hex(&[])
}

pub mod client_codec;
pub mod client_sm;
pub mod decode;
pub mod ffi;
pub mod filter;
pub mod framing;
pub mod lifecycle_net;
pub mod serial_pty;
pub mod server_family;
pub mod sessions;
pub mod tls;

pub fn run(id: &str, tier: &str) -> i32 {
    match id {
        "C01" => server_family::check_c01(tier),
        "C02" => server_family::check_c02(tier),
        "C03" => client_codec::check_c03(tier),
        "C04" => client_codec::check_c04(tier),
        "C05" => framing::check_c05(tier),
        "C06" => framing::check_c06(tier),
        "C07" => framing::check_c07(tier),
        "C08" => server_family::check_c08(tier),
        "C09" => tls::check_c09(tier),
        "C10" => client_sm::check_c10(tier),
        "C11" => client_sm::check_c11(tier),
        "C12" => client_sm::check_c12(tier),
        "C13" => client_sm::check_c13(tier),
        "C14" => client_sm::check_c14(tier),
        "C15" => sessions::check_c15(tier),
        "C16" => filter::check_c16(tier),
        "C17" => server_family::check_c17(tier),
        "C18" => ffi::check_c18(tier),
        "C19" => ffi::check_c19(tier),
        "C20" => decode::check_c20(tier),
        _ => {
            eprintln!("unknown or unimplemented property {id}");
            2
        }
    }
}

/// re-execute exactly one recorded case without the explorer
pub fn replay(path: &str) -> i32 {
    let text = match std::fs::read_to_string(path) {
        Ok(x) => x,
        Err(e) => {
            eprintln!("cannot read {path}: {e}");
            return 2;
        }
    };
    let doc: serde_json::Value = match serde_json::from_str(&text) {
        Ok(x) => x,
        Err(e) => {
            eprintln!("bad replay file: {e}");
            return 2;
        }
    };
    let prop = doc["property"].as_str().unwrap_or("?").to_string();
    crate::sim::watchdog::start(&prop, "quick", std::time::Duration::from_secs(30), Some(path.to_string()));
    let scn = &doc["scenario"];
    let describe = || ("replay".to_string(), "replayed case".to_string(), scn.clone());
    let problems: Vec<(String, String)> = crate::sim::watchdog::guard(&describe, || match scn["kind"].as_str() {
        Some("server") => {
            let s: server_family::ServerScenario = serde_json::from_value(scn["scenario"].clone()).expect("scenario");
            server_family::replay(&s).into_iter().map(|(a, b, c)| (a, format!("step {c}: {b}"))).collect()
        }
        Some("c03") | Some("c03-ctor") | Some("c03-wm") => client_codec::replay_c03(scn),
        Some("c04") => client_codec::replay_c04(scn),
        Some("server-stream-command") => framing::replay_server_stream_command(scn),
        Some("server-stream") => framing::replay_server_stream(scn),
        Some("c07-server") | Some("c07-client") | Some("c07-drip") | Some("c07-rtu-reopen") => framing::replay_c07(scn),
        Some("client-sm-wrap") => client_sm::replay_wrap(),
        Some("c14-pure") => client_sm::replay_c14_pure(scn),
        Some("c20-client") | Some("c20-server") | Some("c20-stream") => decode::replay_c20(scn),
        Some("c09") | Some("c09-probe") | Some("c09-resumption") | Some("c09-validity") | Some("c09-two-roles") | Some("c09-dialed-name") => tls::replay_c09(scn),
        Some("c15") => sessions::replay_c15(scn),
        Some("c15-burst") => sessions::replay_burst(scn),
        Some("c05-backpressure") => sessions::replay_backpressure(scn),
        Some("c16-string") | Some("c16-match") | Some("c16-server") | Some("c16-ffi") | Some("c16-backlog") => filter::replay_c16(scn),
        Some("c19-db") | Some("c19-schedule") => ffi::replay_c19(scn),
        Some("c18-client") | Some("c18-server") | Some("c18-call-errors") | Some("c18-enums") => ffi::replay_c18(scn),
        Some("c06-pty") => {
            let bits: Vec<usize> = scn["bits"].as_array().unwrap().iter().map(|x| x.as_u64().unwrap() as usize).collect();
            serial_pty::rtu_crc_over_pty(&bits).1
        }
        Some("serial-history") => serial_pty::replay_serial(scn),
        Some("rtu-server-pty") => serial_pty::replay_rtu_server(scn),
        Some("net-history") => lifecycle_net::replay_net(scn),
        Some("c07-handshake") => lifecycle_net::replay_hs(scn),
        Some("c07-backlog") => framing::c07_backlog_phase().violations_as_pairs(),
        Some("c13-zero-delay") => {
            crate::sim::enter_thread_runtime();
            client_sm::c13_zero_delay_phase().violations_as_pairs()
        }
        Some("client-session") => client_sm::replay_session(scn),
        Some("client-sm") => client_sm::replay(scn),
        Some("client-tie") => client_sm::replay_tie(scn),
        Some("c08-tls") => {
            let mut v = tls::c08_tls_phase().violations_as_pairs();
            v.extend(tls::c08_same_subject_phase().violations_as_pairs());
            v
        }
        Some("c16-ffi-refused-add") => ffi::replay_c16_refused_add(),
        Some("client-stream") => framing::replay_client_stream(scn),
        k => {
            eprintln!("unknown replay kind {k:?}");
            std::process::exit(2);
        }
    });
    if problems.is_empty() {
        println!("replay: property {prop} held on this case");
        0
    } else {
        for (sig, desc) in &problems {
            println!("replay: [{sig}] {desc}");
        }
        println!("VIOLATION property={prop} replay={path}");
        1
    }
}

pub mod client_codec;
pub mod server_family;

pub fn run(id: &str, tier: &str) -> i32 {
    match id {
        "C01" => server_family::check_c01(tier),
        "C02" => server_family::check_c02(tier),
        "C03" => client_codec::check_c03(tier),
        "C04" => client_codec::check_c04(tier),
        "C08" => server_family::check_c08(tier),
        "C17" => server_family::check_c17(tier),
        _ => {
            eprintln!("unknown or unimplemented property {id}");
            2
        }
    }
}

/// re-execute exactly one recorded case without the explorer
pub fn replay(path: &str) -> i32 {
    let text = match std::fs::read_to_string(path) {
        Ok(x) => x,
        Err(e) => {
            eprintln!("cannot read {path}: {e}");
            return 2;
        }
    };
    let doc: serde_json::Value = match serde_json::from_str(&text) {
        Ok(x) => x,
        Err(e) => {
            eprintln!("bad replay file: {e}");
            return 2;
        }
    };
    let prop = doc["property"].as_str().unwrap_or("?").to_string();
    let scn = &doc["scenario"];
    let problems: Vec<(String, String)> = match scn["kind"].as_str() {
        Some("server") => {
            let s: server_family::ServerScenario = serde_json::from_value(scn["scenario"].clone()).expect("scenario");
            server_family::replay(&s).into_iter().map(|(a, b, c)| (a, format!("step {c}: {b}"))).collect()
        }
        Some("c03") | Some("c03-ctor") | Some("c03-wm") => client_codec::replay_c03(scn),
        Some("c04") => client_codec::replay_c04(scn),
        k => {
            eprintln!("unknown replay kind {k:?}");
            return 2;
        }
    };
    if problems.is_empty() {
        println!("replay: property {prop} held on this case");
        0
    } else {
        for (sig, desc) in &problems {
            println!("replay: [{sig}] {desc}");
        }
        println!("VIOLATION property={prop} replay={path}");
        1
    }
}

//! C16: only peers matching the address filter are ever served, in every server variant.

use crate::checks::tls::{start_tls_server, Cell, CertKind};
use crate::hserver::hex;
use crate::net::*;
use crate::refmodel::pdu::mbap_frame;
use crate::report::*;
use rodbus::server::*;
use rodbus::*;
use serde::{Deserialize, Serialize};
use serde_json::json;
use std::net::IpAddr;
use std::sync::{Arc, Mutex};
use std::time::Duration;

// ---------------------------------------------------------------------------------------------
// reference
// ---------------------------------------------------------------------------------------------

/// "four fields separated by '.', each '*' or a decimal number 0..=255"
pub fn ref_parse(s: &str) -> Option<[Option<u8>; 4]> {
    let fields: Vec<&str> = s.split('.').collect();
    if fields.len() != 4 {
        return None;
    }
    let mut out = [None; 4];
    for (i, f) in fields.iter().enumerate() {
        if *f == "*" {
            out[i] = None;
            continue;
        }
        if f.is_empty() || !f.bytes().all(|b| b.is_ascii_digit()) {
            return None;
        }
        // arbitrary leading zeros are still a number
        let t = f.trim_start_matches('0');
        let v: u32 = if t.is_empty() { 0 } else if t.len() > 3 { return None } else { t.parse().ok()? };
        if v > 255 {
            return None;
        }
        out[i] = Some(v as u8);
    }
    Some(out)
}

pub fn ref_wildcard_matches(w: &[Option<u8>; 4], addr: IpAddr) -> bool {
    match addr {
        IpAddr::V4(a) => a.octets().iter().zip(w.iter()).all(|(o, f)| f.map(|x| x == *o).unwrap_or(true)),
        IpAddr::V6(_) => false,
    }
}

#[derive(Clone, Debug, PartialEq, Eq, Hash, Serialize, Deserialize)]
pub enum FilterSpec {
    Any,
    Exact(String),
    AnyOf(Vec<String>),
    Wildcard(String),
}

impl FilterSpec {
    pub fn build(&self) -> AddressFilter {
        match self {
            FilterSpec::Any => AddressFilter::Any,
            FilterSpec::Exact(a) => AddressFilter::Exact(a.parse().unwrap()),
            FilterSpec::AnyOf(v) => AddressFilter::AnyOf(v.iter().map(|a| a.parse().unwrap()).collect()),
            FilterSpec::Wildcard(w) => AddressFilter::WildcardIpv4(w.parse().expect("valid wildcard")),
        }
    }
    pub fn ref_matches(&self, addr: IpAddr) -> bool {
        match self {
            FilterSpec::Any => true,
            FilterSpec::Exact(a) => a.parse::<IpAddr>().unwrap() == addr,
            FilterSpec::AnyOf(v) => v.iter().any(|a| a.parse::<IpAddr>().unwrap() == addr),
            FilterSpec::Wildcard(w) => ref_wildcard_matches(&ref_parse(w).unwrap(), addr),
        }
    }
}

// ---------------------------------------------------------------------------------------------
// parser: all strings over a small alphabet
// ---------------------------------------------------------------------------------------------

const PARSER_ALPHABET: [u8; 11] = [b'*', b'.', b'0', b'1', b'2', b'5', b'6', b'9', b' ', b'-', b'a'];

fn probe_addrs() -> Vec<IpAddr> {
    let mut v: Vec<IpAddr> = vec![];
    for a in ["0.0.0.0", "1.1.1.1", "0.1.2.5", "2.5.6.9", "255.255.255.255", "25.25.25.25", "9.6.5.2", "10.0.0.1", "::1"] {
        v.push(a.parse().unwrap());
    }
    v
}

fn check_string(s: &str, probes: &[IpAddr], st: &mut Stats) {
    st.evaluations += 1;
    let exp = ref_parse(s);
    let got: Result<WildcardIPv4, _> = s.parse();
    match (&exp, &got) {
        (None, Err(_)) => st.class("parser-rejects"),
        (Some(w), Ok(g)) => {
            st.class("parser-accepts");
            st.observe(&s.to_string());
            // the parsed value is observed through the matcher
            let f = AddressFilter::WildcardIpv4(*g);
            for a in probes {
                if rodbus::verif::filter_matches(&f, *a) != ref_wildcard_matches(w, *a) {
                    st.violation(Violation {
                        signature: "wildcard-parsed-wrongly".into(),
                        summary: format!("wildcard {s:?} vs address {a}: library says {}, reference says {}", rodbus::verif::filter_matches(&f, *a), ref_wildcard_matches(w, *a)),
                        replay: json!({"kind": "c16-string", "s": s}),
                    });
                    break;
                }
            }
        }
        (None, Ok(_)) => st.violation(Violation {
            signature: "bad-wildcard-accepted".into(),
            summary: format!("{s:?} is not four fields of '*' or 0..=255 but was accepted"),
            replay: json!({"kind": "c16-string", "s": s}),
        }),
        (Some(_), Err(_)) => st.violation(Violation {
            signature: "good-wildcard-rejected".into(),
            summary: format!("{s:?} is a valid wildcard but was rejected"),
            replay: json!({"kind": "c16-string", "s": s}),
        }),
    }
}

fn parser_phase(rep: &mut Report) {
    let max_len = if rep.thorough() { 8 } else { 7 };
    let probes = probe_addrs();
    // first byte splits the work
    let st = parallel(PARSER_ALPHABET.len() * PARSER_ALPHABET.len(), |j, st| {
        let a = PARSER_ALPHABET[j / PARSER_ALPHABET.len()];
        let b = PARSER_ALPHABET[j % PARSER_ALPHABET.len()];
        if j == 0 {
            check_string("", &probes, st);
            for c in PARSER_ALPHABET {
                check_string(std::str::from_utf8(&[c]).unwrap(), &probes, st);
            }
        }
        let mut buf = vec![a, b];
        fn rec(buf: &mut Vec<u8>, max: usize, probes: &[IpAddr], st: &mut Stats) {
            check_string(std::str::from_utf8(buf).unwrap(), probes, st);
            if buf.len() == max {
                return;
            }
            for c in PARSER_ALPHABET {
                buf.push(c);
                rec(buf, max, probes, st);
                buf.pop();
            }
        }
        rec(&mut buf, max_len, &probes, st);
    });
    rep.phase("wildcard parser: all strings over an 11-symbol alphabet", st, json!({"max_len": max_len}));
    // four-field strings with boundary fields
    let fields = ["*", "0", "00", "255", "256", "1000", "", "1a", " 1", "1 ", "-1", "0255", "0256", "**", "2 5"];
    let mut st = Stats::default();
    for a in fields {
        for b in fields {
            for c in fields {
                for d in fields {
                    check_string(&format!("{a}.{b}.{c}.{d}"), &probes, &mut st);
                }
            }
        }
    }
    for s in ["1.2.3", "1.2.3.4.5", "1..2.3", "....", "*.*.*.*.", ".*.*.*.*", "1.2.3.4 ", "１.2.3.4", "1.2.3.4\n", "*.*.*", "1,2,3,4"] {
        check_string(s, &probes, &mut st);
    }
    st.sample(json!({"examples": ["*.0.255.1", "256.1.1.1", "1.2.3", "0255.0.0.0"]}));
    rep.phase("wildcard parser: four-field boundary strings", st, json!({"fields": fields.len()}));
}

// ---------------------------------------------------------------------------------------------
// matcher lattice
// ---------------------------------------------------------------------------------------------

fn matcher_phase(rep: &mut Report) {
    let oct: [u8; 5] = [0, 1, 127, 128, 255];
    let fields: Vec<Option<u8>> = std::iter::once(None).chain(oct.iter().map(|x| Some(*x))).collect();
    let mut addrs: Vec<IpAddr> = vec![];
    for a in oct {
        for b in oct {
            for c in oct {
                for d in oct {
                    addrs.push(IpAddr::from([a, b, c, d]));
                }
            }
        }
    }
    for a in ["::1", "::ffff:127.0.0.1", "fe80::1"] {
        addrs.push(a.parse().unwrap());
    }
    let st = parallel(fields.len() * fields.len(), |j, st| {
        let f3 = fields[j / fields.len()];
        let f2 = fields[j % fields.len()];
        for f1 in &fields {
            for f0 in &fields {
                let txt = [f3, f2, *f1, *f0].iter().map(|f| f.map(|x| x.to_string()).unwrap_or("*".into())).collect::<Vec<_>>().join(".");
                let spec = FilterSpec::Wildcard(txt.clone());
                let filter = spec.build();
                for a in &addrs {
                    st.evaluations += 1;
                    let got = rodbus::verif::filter_matches(&filter, *a);
                    let exp = spec.ref_matches(*a);
                    if got != exp {
                        st.violation(Violation {
                            signature: "wildcard-match".into(),
                            summary: format!("wildcard {txt} vs {a}: library {got}, reference {exp}"),
                            replay: json!({"kind": "c16-match", "filter": spec, "addr": a.to_string()}),
                        });
                    }
                    st.class(if exp { "matcher-match" } else { "matcher-no-match" });
                }
                st.observe(&txt);
            }
        }
    });
    rep.phase("wildcard matcher lattice", st, json!({"wildcards": fields.len().pow(4), "addresses": addrs.len()}));
    // Any / Exact / AnyOf
    let mut st = Stats::default();
    let pool = ["127.0.0.1", "127.0.0.2", "10.1.2.3", "::1", "::ffff:127.0.0.1"];
    let mut specs = vec![FilterSpec::Any];
    for a in pool {
        specs.push(FilterSpec::Exact(a.to_string()));
    }
    for mask in 0..(1u32 << pool.len()) {
        if mask.count_ones() <= 3 {
            specs.push(FilterSpec::AnyOf((0..pool.len()).filter(|i| (mask >> i) & 1 == 1).map(|i| pool[i].to_string()).collect()));
        }
    }
    for spec in &specs {
        let f = spec.build();
        for a in pool.iter().chain(["127.0.0.3", "0.0.0.0", "::"].iter()) {
            let a: IpAddr = a.parse().unwrap();
            st.evaluations += 1;
            let got = rodbus::verif::filter_matches(&f, a);
            let exp = spec.ref_matches(a);
            st.observe(&(format!("{spec:?}"), a));
            if got != exp {
                st.violation(Violation {
                    signature: "filter-match".into(),
                    summary: format!("{spec:?} vs {a}: library {got}, reference {exp}"),
                    replay: json!({"kind": "c16-match", "filter": spec, "addr": a.to_string()}),
                });
            }
        }
    }
    st.sample(json!({"specs": specs.len()}));
    rep.phase("any / exact / set filters", st, json!({}));
}

// ---------------------------------------------------------------------------------------------
// real servers
// ---------------------------------------------------------------------------------------------

#[derive(Clone, Copy, Debug, PartialEq, Eq, Hash, Serialize, Deserialize)]
pub enum Variant {
    Tcp,
    Tls,
    TlsAuthz,
}

#[derive(Clone, Debug, Serialize, Deserialize)]
pub struct ServerCase {
    pub variant: Variant,
    pub spawn: bool,
    pub filter: FilterSpec,
    pub peer: String,
}

const SENTINEL: [u8; 5] = [3, 0, 0, 0, 2];

/// returns (served, bytes received from the server, handler/authorization calls)
pub async fn run_server_case(c: &ServerCase) -> Result<(bool, Vec<u8>, usize), String> {
    let v6 = c.peer.contains(':');
    let listen_ip = if v6 { "[::1]" } else { "127.0.0.1" };
    let filter = c.filter.build();
    let (handle, addr, log): (ServerHandle, std::net::SocketAddr, crate::hserver::Log) = match c.variant {
        Variant::Tcp => {
            let app = net_app(&[1]);
            let (mut listener, mut addr) = listen(listen_ip).await;
            let handle = if c.spawn {
                let mut tries = 0;
                loop {
                    drop(listener);
                    match spawn_tcp_server_task(4, addr, app.map.clone(), filter.clone(), DecodeLevel::nothing()).await {
                        Ok(h) => break h,
                        Err(e) if tries >= 8 => return Err(e.to_string()),
                        Err(_) => {
                            tries += 1;
                            (listener, addr) = listen(listen_ip).await;
                        }
                    }
                }
            } else {
                let (h, task) = create_tcp_server_task(4, listener, app.map.clone(), filter, DecodeLevel::nothing());
                tokio::spawn(task.run());
                h
            };
            (handle, addr, app.log.clone())
        }
        Variant::Tls | Variant::TlsAuthz => {
            let cell = Cell { min13: false, self_signed: false, authz: c.variant == Variant::TlsAuthz, rodbus_is_server: true, peer: PeerVersions::Both, cert: CertKind::Valid, spawn: c.spawn, ctor: 0 };
            let s = start_tls_server(&cell, "ca_a", filter, listen_ip, 4).await?;
            (s.handle, s.addr, s.app.log.clone())
        }
    };
    let peer_ip = if v6 { format!("[{}]", c.peer) } else { c.peer.clone() };
    let mut received: Vec<u8> = vec![];
    let mut served = false;
    // a peer that is not served tries again: the filter applies to every connection, not to the first
    for _attempt in 0..2 {
    if served {
        break;
    }
    let tcp = connect_from(&peer_ip, addr).await;
    match tcp {
        Err(_) => {}
        Ok(mut tcp) => {
            if c.variant == Variant::Tcp {
                write_all(&mut tcp, &mbap_frame(0x0A0A, 1, &SENTINEL)).await;
                match read_n(&mut tcp, 13, Duration::from_millis(1500)).await {
                    ReadOutcome::Bytes(b) => {
                        served = b[..2] == [0x0A, 0x0A];
                        received.extend(b);
                    }
                    ReadOutcome::Eof(b) | ReadOutcome::Error(_, b) | ReadOutcome::Timeout(b) => received.extend(b),
                }
            } else {
                // a ServerHello is already "processing TLS bytes": drive a real handshake
                let connector = tokio_rustls::TlsConnector::from(peer_client_config(PeerVersions::Both, "cli_operator"));
                let name = tokio_rustls::rustls::pki_types::ServerName::try_from("test.com").unwrap();
                match tokio::time::timeout(Duration::from_millis(1500), connector.connect(name, tcp)).await {
                    Ok(Ok(mut tls)) => {
                        received.extend(b"<server hello>");
                        write_all(&mut tls, &mbap_frame(0x0A0A, 1, &SENTINEL)).await;
                        if let ReadOutcome::Bytes(b) = read_n(&mut tls, 13, Duration::from_millis(1500)).await {
                            served = b[..2] == [0x0A, 0x0A];
                        }
                    }
                    Ok(Err(e)) => {
                        // an alert from the server also means that it processed our ClientHello
                        let msg = e.to_string();
                        if msg.contains("alert") {
                            received.extend(format!("<{msg}>").into_bytes());
                        }
                    }
                    Err(_) => {}
                }
            }
        }
    }
    }
    tokio::time::sleep(Duration::from_millis(5)).await;
    let calls = log.lock().unwrap().len();
    let _ = tokio::time::timeout(Duration::from_millis(500), handle.shutdown()).await;
    Ok((served, received, calls))
}

pub fn judge_server_case(c: &ServerCase, r: &(bool, Vec<u8>, usize)) -> Vec<(String, String)> {
    let exp = c.filter.ref_matches(c.peer.parse().unwrap());
    let mut out = vec![];
    let (served, received, calls) = r;
    if exp && !served {
        out.push((format!("matching-peer-not-served:{:?}", c.variant), format!("peer {} matches {:?} but was not served (received {})", c.peer, c.filter, hex(received))));
    }
    if !exp {
        if *served || !received.is_empty() {
            out.push((format!("filtered-peer-served:{:?}:{}", c.variant, if c.spawn { "spawn" } else { "create" }), format!("peer {} does not match {:?} but received {}", c.peer, c.filter, String::from_utf8_lossy(received))));
        }
        if *calls > 0 {
            out.push((format!("filtered-peer-reached-handlers:{:?}", c.variant), format!("{calls} handler / authorization calls for a filtered peer")));
        }
    }
    out
}

fn server_cases(thorough: bool) -> Vec<ServerCase> {
    let filters = vec![
        FilterSpec::Any,
        FilterSpec::Exact("127.0.0.2".into()),
        FilterSpec::AnyOf(vec!["127.0.0.2".into(), "::1".into()]),
        FilterSpec::Wildcard("127.0.*.2".into()),
        FilterSpec::Wildcard("*.*.*.3".into()),
        FilterSpec::AnyOf(vec![]),
    ];
    let peers = ["127.0.0.1", "127.0.0.2", "127.0.1.2", "127.0.0.3", "::1"];
    let mut v = vec![];
    for variant in [Variant::Tcp, Variant::Tls, Variant::TlsAuthz] {
        for spawn in [false, true] {
            if spawn && !thorough && variant != Variant::Tcp {
                // quick: spawn_* only for TCP and one TLS filter below
            }
            for filter in &filters {
                for peer in peers {
                    v.push(ServerCase { variant, spawn, filter: filter.clone(), peer: peer.to_string() });
                }
            }
        }
    }
    v
}

fn servers_phase(rep: &mut Report) {
    let cases = server_cases(rep.thorough());
    let results: Arc<Mutex<Vec<(usize, Result<(bool, Vec<u8>, usize), String>)>>> = Arc::new(Mutex::new(vec![]));
    let cases = Arc::new(cases);
    rt().block_on(async {
        let sem = Arc::new(tokio::sync::Semaphore::new(16));
        let mut joins = vec![];
        for i in 0..cases.len() {
            let cases = cases.clone();
            let results = results.clone();
            let sem = sem.clone();
            joins.push(tokio::spawn(async move {
                let _p = sem.acquire().await.unwrap();
                let mut r = run_server_case(&cases[i]).await;
                // real sockets: a verdict must reproduce
                if let Ok(x) = &r {
                    if !judge_server_case(&cases[i], x).is_empty() {
                        let r2 = run_server_case(&cases[i]).await;
                        if let Ok(y) = &r2 {
                            if judge_server_case(&cases[i], y).is_empty() {
                                r = r2;
                            }
                        }
                    }
                }
                results.lock().unwrap().push((i, r));
            }));
        }
        for j in joins {
            let _ = j.await;
        }
    });
    let mut st = Stats::default();
    let mut res = results.lock().unwrap().clone();
    res.sort_by_key(|x| x.0);
    for (i, r) in res {
        let c = &cases[i];
        st.evaluations += 1;
        match r {
            Err(e) => st.violation(Violation { signature: "MACHINERY:server-case".into(), summary: format!("{c:?}: {e}"), replay: json!({"kind": "c16-server", "case": c}) }),
            Ok(x) => {
                let exp = c.filter.ref_matches(c.peer.parse().unwrap());
                st.class(if exp { "server-peer-matches" } else { "server-peer-filtered" });
                st.observe(&(format!("{c:?}"), x.0));
                if i % 23 == 0 {
                    st.sample(json!({"case": c, "served": x.0}));
                }
                for (sig, desc) in judge_server_case(c, &x) {
                    st.violation(Violation { signature: sig, summary: format!("{c:?}: {desc}"), replay: json!({"kind": "c16-server", "case": c}) });
                }
            }
        }
    }
    rep.phase("server variants (Rust API) over loopback aliases", st, json!({"cases": cases.len()}));
}

/// several peers already waiting in the listener's backlog when the server task starts (the
/// listener is handed to `create_*`): every one of them is filtered by its own address
pub async fn run_backlog_case(variant: Variant, peers: &[String]) -> Vec<(String, String)> {
    let mut problems = vec![];
    let app = net_app(&[1]);
    let (listener, addr) = listen("127.0.0.1").await;
    // the connections complete in the kernel before anybody accepts
    let mut socks = vec![];
    for p in peers {
        match connect_from(p, addr).await {
            Ok(s) => socks.push(s),
            Err(e) => return vec![("MACHINERY:connect".into(), format!("{p}: {e}"))],
        }
    }
    let filter = AddressFilter::Exact("127.0.0.1".parse().unwrap());
    let handle = match variant {
        Variant::Tcp => {
            let (h, task) = create_tcp_server_task(8, listener, app.map.clone(), filter, DecodeLevel::nothing());
            tokio::spawn(task.run());
            h
        }
        Variant::Tls | Variant::TlsAuthz => {
            let cfg = match TlsServerConfig::new(&cert_path("ca_a"), &cert_path("srv_valid"), &key_path("srv_valid"), None, MinTlsVersion::V1_2, CertificateMode::AuthorityBased) {
                Ok(c) => c,
                Err(e) => return vec![("MACHINERY:tls-config".into(), e.to_string())],
            };
            let (h, task) = if variant == Variant::TlsAuthz {
                create_tls_server_task_with_authz(8, listener, app.map.clone(), ReadOnlyAuthorizationHandler::create(), cfg, filter, DecodeLevel::nothing())
            } else {
                create_tls_server_task(8, listener, app.map.clone(), cfg, filter, DecodeLevel::nothing())
            };
            tokio::spawn(task.run());
            h
        }
    };
    for (i, (p, tcp)) in peers.iter().zip(socks.into_iter()).enumerate() {
        let allowed = p == "127.0.0.1";
        let (served, got): (bool, String) = if variant == Variant::Tcp {
            let mut tcp = tcp;
            write_all(&mut tcp, &mbap_frame(0x0B00 + i as u16, 1, &SENTINEL)).await;
            match read_n(&mut tcp, 13, Duration::from_millis(if allowed { 3000 } else { 600 })).await {
                ReadOutcome::Bytes(b) => (b[1] == i as u8, hex(&b)),
                ReadOutcome::Eof(b) | ReadOutcome::Error(_, b) | ReadOutcome::Timeout(b) => (false, hex(&b)),
            }
        } else {
            let connector = tokio_rustls::TlsConnector::from(peer_client_config(PeerVersions::Both, "cli_operator"));
            let name = tokio_rustls::rustls::pki_types::ServerName::try_from("test.com").unwrap();
            match tokio::time::timeout(Duration::from_millis(if allowed { 3000 } else { 800 }), connector.connect(name, tcp)).await {
                Ok(Ok(mut tls)) => {
                    write_all(&mut tls, &mbap_frame(0x0B00 + i as u16, 1, &SENTINEL)).await;
                    match read_n(&mut tls, 13, Duration::from_millis(1500)).await {
                        ReadOutcome::Bytes(b) => (b[1] == i as u8, format!("<handshake> {}", hex(&b))),
                        _ => (false, "<handshake>".to_string()),
                    }
                }
                Ok(Err(e)) if e.to_string().contains("alert") => (false, format!("<{e}>")),
                _ => (false, "<nothing>".to_string()),
            }
        };
        if allowed && !served {
            problems.push(("matching-peer-not-served:backlog".to_string(), format!("connection #{i} from {p} (in the backlog when the server started; all: {peers:?}) was not served: {got}")));
        }
        if !allowed && got != "<nothing>" {
            problems.push((format!("filtered-peer-served:{variant:?}:backlog"), format!("connection #{i} from {p} does not match Exact(127.0.0.1) yet received {got} (connections waiting when the server started: {peers:?})")));
        }
    }
    let _ = tokio::time::timeout(Duration::from_millis(500), handle.shutdown()).await;
    problems
}

fn backlog_phase(rep: &mut Report) {
    let a = "127.0.0.1".to_string();
    let d = "127.0.0.2".to_string();
    let e = "127.0.0.3".to_string();
    let orders: Vec<Vec<String>> = vec![
        vec![a.clone(), d.clone()],
        vec![d.clone(), a.clone()],
        vec![a.clone(), d.clone(), e.clone()],
        vec![a.clone(), a.clone(), d.clone()],
        vec![d.clone(), a.clone(), e.clone()],
        vec![a.clone(), d.clone(), a.clone()],
        vec![d.clone(), e.clone(), a.clone(), d.clone()],
    ];
    let mut st = Stats::default();
    for variant in [Variant::Tcp, Variant::Tls, Variant::TlsAuthz] {
        for peers in &orders {
            let mut r = rt().block_on(run_backlog_case(variant, peers));
            if !r.is_empty() {
                let r2 = rt().block_on(run_backlog_case(variant, peers));
                if r2.is_empty() {
                    r = r2;
                }
            }
            st.evaluations += 1;
            st.traces += 1;
            st.class("server-backlog-burst");
            st.observe(&(variant, peers, r.len()));
            for (sig, desc) in r {
                st.violation(Violation { signature: sig, summary: format!("{variant:?}: {desc}"), replay: json!({"kind": "c16-backlog", "variant": variant, "peers": peers}) });
            }
        }
    }
    rep.phase("connections already waiting in the backlog when the server task starts", st, json!({"orders": orders.len(), "variants": 3}));
}

pub fn check_c16(tier: &str) -> i32 {
    let mut rep = Report::new(
        "C16",
        tier,
        "exploration",
        "(1) wildcard parser: all strings up to length L over {* . 0 1 2 5 6 9 space - a} plus all four-field strings over 15 boundary fields, against the grammar 'four dot-separated fields, each * or a decimal number 0..=255'; accepted values are observed through the matcher; (2) matcher: every wildcard with fields in {*,0,1,127,128,255} x every IPv4 address with octets in {0,1,127,128,255} + IPv6 addresses; Any / Exact / AnyOf of size 0..3; (3) servers: {TCP, TLS, TLS+authz} x {create_*, spawn_*} x 6 filters x peers bound to 127.0.0.1, 127.0.0.2, 127.0.1.2, 127.0.0.3, ::1: a matching peer is served, a non-matching peer receives zero bytes and reaches no handler on two connection attempts in a row; (4) the same through the C ABI (see the C-ABI phase). distinct = distinct accepted strings / filter-address pairs / server cells",
    );
    parser_phase(&mut rep);
    matcher_phase(&mut rep);
    servers_phase(&mut rep);
    backlog_phase(&mut rep);
    crate::checks::ffi::c16_ffi_phase(&mut rep);
    for c in ["parser-accepts", "parser-rejects", "matcher-match", "matcher-no-match", "server-peer-matches", "server-peer-filtered", "server-backlog-burst"] {
        rep.require_class(c);
    }
    rep.exhaustive = true;
    rep.assumptions.push("strings with a leading '+' before digits are unspecified (Rust's u8 parser accepts them) and are not in the alphabet".into());
    rep.finish()
}

pub fn replay_c16(v: &serde_json::Value) -> Vec<(String, String)> {
    match v["kind"].as_str() {
        Some("c16-string") => {
            let mut st = Stats::default();
            check_string(v["s"].as_str().unwrap(), &probe_addrs(), &mut st);
            st.violations.into_iter().map(|x| (x.signature, x.summary)).collect()
        }
        Some("c16-match") => {
            let spec: FilterSpec = serde_json::from_value(v["filter"].clone()).unwrap();
            let a: IpAddr = v["addr"].as_str().unwrap().parse().unwrap();
            if rodbus::verif::filter_matches(&spec.build(), a) != spec.ref_matches(a) {
                vec![("filter-match".into(), format!("{spec:?} vs {a}"))]
            } else {
                vec![]
            }
        }
        Some("c16-ffi") => crate::checks::ffi::replay_c16_ffi(v),
        Some("c16-backlog") => {
            let variant: Variant = serde_json::from_value(v["variant"].clone()).unwrap();
            let peers: Vec<String> = serde_json::from_value(v["peers"].clone()).unwrap();
            rt().block_on(run_backlog_case(variant, &peers))
        }
        _ => {
            let c: ServerCase = serde_json::from_value(v["case"].clone()).unwrap();
            match rt().block_on(run_server_case(&c)) {
                Err(e) => vec![("MACHINERY:server-case".into(), e)],
                Ok(x) => judge_server_case(&c, &x),
            }
        }
    }
}

//! E2 for serial links: the unmodified `create_rtu_client_task` / `create_rtu_server_task`
//! over real pseudo-terminals (the pty slave is the serial port, the harness owns the master).

use crate::hclient::{classify, ErrClass, Outcome};
use crate::net::{rt, STEP_TIMEOUT};
use crate::refmodel::client::*;
use crate::refmodel::pdu::{self, encode_reply, encode_request, rtu_frame, Values};
use crate::report::*;
use rodbus::client::*;
use rodbus::*;
use serde_json::json;
use std::os::fd::{AsRawFd, FromRawFd, OwnedFd};
use std::sync::atomic::{AtomicU32, Ordering};
use std::sync::{Arc, Mutex};
use std::time::{Duration, Instant};
use tokio::sync::{mpsc, oneshot};

pub struct Pty {
    pub master: OwnedFd,
    pub slave_path: String,
}

pub fn open_pty() -> Result<Pty, String> {
    unsafe {
        let fd = libc::posix_openpt(libc::O_RDWR | libc::O_NOCTTY | libc::O_NONBLOCK);
        if fd < 0 {
            return Err(format!("posix_openpt: {}", std::io::Error::last_os_error()));
        }
        if libc::grantpt(fd) != 0 || libc::unlockpt(fd) != 0 {
            libc::close(fd);
            return Err(format!("grantpt/unlockpt: {}", std::io::Error::last_os_error()));
        }
        let mut buf = [0i8; 128];
        if libc::ptsname_r(fd, buf.as_mut_ptr(), buf.len()) != 0 {
            libc::close(fd);
            return Err("ptsname_r".into());
        }
        let path = std::ffi::CStr::from_ptr(buf.as_ptr()).to_string_lossy().to_string();
        // raw mode: bytes pass unmodified in both directions
        let mut t: libc::termios = std::mem::zeroed();
        libc::tcgetattr(fd, &mut t);
        libc::cfmakeraw(&mut t);
        libc::tcsetattr(fd, libc::TCSANOW, &t);
        Ok(Pty { master: OwnedFd::from_raw_fd(fd), slave_path: path })
    }
}

impl Pty {
    /// read exactly n bytes from the master within the ceiling (never blocks longer)
    /// async variant for use on the net runtime (never blocks a worker thread)
    pub async fn read_n_async(&self, n: usize, ceiling: Duration) -> Result<Vec<u8>, Vec<u8>> {
        let deadline = Instant::now() + ceiling;
        let mut out = vec![];
        while out.len() < n && Instant::now() < deadline {
            let mut buf = vec![0u8; n - out.len()];
            let r = unsafe { libc::read(self.master.as_raw_fd(), buf.as_mut_ptr() as *mut libc::c_void, buf.len()) };
            if r > 0 {
                out.extend_from_slice(&buf[..r as usize]);
            } else {
                tokio::time::sleep(Duration::from_micros(500)).await;
            }
        }
        if out.len() == n {
            Ok(out)
        } else {
            Err(out)
        }
    }
    pub fn read_n(&self, n: usize, ceiling: Duration) -> Result<Vec<u8>, Vec<u8>> {
        let deadline = Instant::now() + ceiling;
        let mut out = vec![];
        while out.len() < n && Instant::now() < deadline {
            let mut buf = vec![0u8; n - out.len()];
            let r = unsafe { libc::read(self.master.as_raw_fd(), buf.as_mut_ptr() as *mut libc::c_void, buf.len()) };
            if r > 0 {
                out.extend_from_slice(&buf[..r as usize]);
            } else {
                std::thread::sleep(Duration::from_micros(500));
            }
        }
        if out.len() == n {
            Ok(out)
        } else {
            Err(out)
        }
    }
    pub fn write(&self, b: &[u8]) -> bool {
        let r = unsafe { libc::write(self.master.as_raw_fd(), b.as_ptr() as *const libc::c_void, b.len()) };
        r == b.len() as isize
    }
}

static PORT_SEQ: AtomicU32 = AtomicU32::new(0);

/// a stable path (symlink) that can point to a pty slave, or to nothing
pub struct PortPath(pub String);

impl PortPath {
    pub fn new() -> Self {
        let n = PORT_SEQ.fetch_add(1, Ordering::SeqCst);
        let p = format!("/tmp/mc-pty-{}-{}", std::process::id(), n);
        let _ = std::fs::remove_file(&p);
        PortPath(p)
    }
    pub fn point_to(&self, target: &str) {
        let _ = std::fs::remove_file(&self.0);
        let _ = std::os::unix::fs::symlink(target, &self.0);
    }
    #[allow(dead_code)]
    pub fn unlink(&self) {
        let _ = std::fs::remove_file(&self.0);
    }
}

impl Drop for PortPath {
    fn drop(&mut self) {
        let _ = std::fs::remove_file(&self.0);
    }
}

struct Gate {
    tx: mpsc::UnboundedSender<(PortState, oneshot::Sender<()>)>,
}

impl Listener<PortState> for Gate {
    fn update(&mut self, value: PortState) -> MaybeAsync<()> {
        let (ack, wait) = oneshot::channel();
        let _ = self.tx.send((value, ack));
        MaybeAsync::asynchronous(async move {
            let _ = wait.await;
        })
    }
}

const RETRY_MIN: u64 = 40;
const RETRY_MAX: u64 = 160;
const REQ_TIMEOUT: u64 = 120;

#[derive(Clone, Debug, PartialEq, Eq)]
enum PState {
    Disabled,
    Wait(u64),
    Open,
    Shutdown,
}

fn pstate(s: &PortState) -> PState {
    match s {
        PortState::Disabled => PState::Disabled,
        PortState::Wait(d) => PState::Wait(d.as_millis() as u64),
        PortState::Open => PState::Open,
        PortState::Shutdown => PState::Shutdown,
    }
}

/// the serial channel has no Connecting state: the attempt happens inside the step that causes it
fn map_states(states: &[MState]) -> Vec<PState> {
    states
        .iter()
        .filter_map(|s| match s {
            MState::Disabled => Some(PState::Disabled),
            MState::Connecting => None,
            MState::Connected => Some(PState::Open),
            MState::WaitAfterFailedConnect(d) | MState::WaitAfterDisconnect(d) => Some(PState::Wait(*d)),
            MState::Shutdown => Some(PState::Shutdown),
        })
        .collect()
}

pub struct SerialHistory {
    pub events: Vec<Ev>,
}

pub async fn run_serial_history(h: &SerialHistory) -> Vec<(String, String)> {
    let mut problems: Vec<(String, String)> = vec![];
    let port = PortPath::new();
    let (tx, mut gate) = mpsc::unbounded_channel();
    let (channel, task) = create_rtu_client_task(
        &port.0,
        SerialSettings::default(),
        16,
        doubling_retry_strategy(Duration::from_millis(RETRY_MIN), Duration::from_millis(RETRY_MAX)),
        DecodeLevel::nothing(),
        Some(Box::new(Gate { tx })),
    );
    let join = tokio::spawn(task.run());
    let mut handle = Some(channel);
    let mut model = ClientModel::new(16, None, RETRY_MIN, RETRY_MAX, 1);
    let mut pty: Option<Pty> = None;
    let done: Arc<Mutex<Vec<(usize, Outcome)>>> = Arc::new(Mutex::new(vec![]));
    let mut seen: Vec<usize> = vec![];
    let mut last_wait: Option<(Instant, u64)> = None;
    let mut request_tasks: Vec<tokio::task::JoinHandle<()>> = vec![];

    // the acknowledgement of a Wait announcement is held until the next event starts: the wait
    // (and the silent re-open attempt that follows it) cannot elapse behind the harness' back
    let mut held_wait: Option<oneshot::Sender<()>> = None;
    async fn collect(gate: &mut mpsc::UnboundedReceiver<(PortState, oneshot::Sender<()>)>, expected: &[PState], last_wait: &mut Option<(Instant, u64)>, held_wait: &mut Option<oneshot::Sender<()>>, problems: &mut Vec<(String, String)>, step: &str) {
        for (k, want) in expected.iter().enumerate() {
            let last = k + 1 == expected.len();
            match tokio::time::timeout(STEP_TIMEOUT, gate.recv()).await {
                Ok(Some((s, ack))) => {
                    let got = pstate(&s);
                    // the attempt that follows a wait must not start before the wait has elapsed
                    if matches!(got, PState::Open | PState::Wait(_)) {
                        if let Some((t, d)) = last_wait.take() {
                            let waited = t.elapsed().as_millis() as u64;
                            if waited + 2 < d {
                                problems.push(("retry-too-early".into(), format!("{step}: the port was re-opened {waited} ms after a wait of {d} ms was announced")));
                            }
                        }
                    }
                    if got == PState::Disabled {
                        *last_wait = None;
                    }
                    if got != *want {
                        problems.push(("port-states".into(), format!("{step}: expected {want:?}, the listener was told {got:?}")));
                    }
                    if let PState::Wait(d) = got {
                        *last_wait = Some((Instant::now(), d));
                        if last {
                            *held_wait = Some(ack);
                        } else {
                            // more is expected in this step (queued commands are processed next)
                            let _ = ack.send(());
                        }
                    } else {
                        let _ = ack.send(());
                    }
                }
                _ => {
                    problems.push(("port-states".into(), format!("{step}: expected {want:?}, nothing was announced within {STEP_TIMEOUT:?}")));
                    return;
                }
            }
        }
    }

    let e0 = model.start();
    collect(&mut gate, &map_states(&e0.states), &mut last_wait, &mut held_wait, &mut problems, "start").await;
    let mut i = 0usize;
    while i < h.events.len() && problems.is_empty() {
        let ev = &h.events[i];
        let release_wait = |held_wait: &mut Option<oneshot::Sender<()>>, last_wait: &mut Option<(Instant, u64)>| {
            if let Some(a) = held_wait.take() {
                if let Some((t, _)) = last_wait.as_mut() {
                    *t = Instant::now();
                }
                let _ = a.send(());
            }
        };
        let mut step = format!("step {i} {ev:?}");
        // an event that starts an attempt is executed together with the attempt's outcome
        let mut expected = Expected::default();
        let starts_attempt = {
            let mut m2 = model.clone();
            m2.apply(ev);
            m2.phase == Phase::Connecting && model.phase != Phase::Connecting
        };
        if starts_attempt {
            let outcome = h.events.get(i + 1).cloned().unwrap_or(Ev::ConnectFail);
            step = format!("{step} + {outcome:?}");
            match outcome {
                Ev::ConnectOk => match open_pty() {
                    Ok(p) => {
                        port.point_to(&p.slave_path);
                        pty = Some(p);
                    }
                    Err(e) => return vec![("MACHINERY:pty".into(), e)],
                },
                _ => {
                    pty = None;
                    port.unlink();
                }
            }
            let merge = |a: &mut Expected, b: Expected| {
                a.states.extend(b.states);
                a.completions.extend(b.completions);
                a.wire.extend(b.wire);
                a.task_done |= b.task_done;
            };
            let e1 = model.apply(ev);
            merge(&mut expected, e1);
            let e2 = model.apply(&if outcome == Ev::ConnectOk { Ev::ConnectOk } else { Ev::ConnectFail });
            merge(&mut expected, e2);
            i += 1;
        } else {
            let e1 = model.apply(ev);
            expected = e1;
        }
        // perform the real action (the environment for a possible re-open attempt is already set)
        release_wait(&mut held_wait, &mut last_wait);
        match ev {
            Ev::Enable(_) => {
                if let Some(c) = &handle {
                    let _ = tokio::time::timeout(STEP_TIMEOUT, c.enable()).await;
                }
            }
            Ev::Disable(_) => {
                if let Some(c) = &handle {
                    let _ = tokio::time::timeout(STEP_TIMEOUT, c.disable()).await;
                }
            }
            Ev::Shutdown(_) => {
                if let Some(c) = &handle {
                    let _ = tokio::time::timeout(STEP_TIMEOUT, c.shutdown()).await;
                }
            }
            Ev::DropHandle(_) => {
                handle = None;
                // the caller's unresolved request futures go away with the handle
                for t in request_tasks.drain(..) {
                    t.abort();
                }
                tokio::time::sleep(Duration::from_millis(2)).await;
            }
            Ev::Submit { .. } => {
                if let Some(c) = &handle {
                    let id = model.next_req - 1;
                    let c = c.clone();
                    let done = done.clone();
                    let start = ((id % 4000) as u16) * 16 + 1;
                    request_tasks.push(tokio::spawn(async move {
                        let r = c.read_holding_registers(RequestParam::new(UnitId::new(1), Duration::from_millis(REQ_TIMEOUT)), AddressRange::try_from(start, 2).unwrap()).await;
                        let o = match r {
                            Ok(v) => Outcome::Ok(Values::Regs(v.into_iter().map(|x| (x.index, x.value)).collect())),
                            Err(e) => Outcome::Err(classify(e)),
                        };
                        done.lock().unwrap().push((id, o));
                    }));
                }
            }
            Ev::Eof => {
                // the other end of the line goes away
                pty = None;
                port.unlink();
            }
            Ev::ReplyOk => {
                if let Some(p) = &pty {
                    let req = request_for(0);
                    p.write(&rtu_frame(1, &encode_reply(&req, &reply_values(&req))));
                }
            }
            Ev::AdvanceToNext => {}
            _ => {}
        }
        // the request frame must be on the line before the next event
        for _w in &expected.wire {
            let want = rtu_frame(1, &encode_request(&request_for(0)));
            match &pty {
                None => problems.push(("wire".into(), format!("{step}: a request should be transmitted but the port is not open"))),
                Some(p) => match p.read_n_async(want.len(), STEP_TIMEOUT).await {
                    Ok(b) if b == want => {}
                    other => problems.push(("wire".into(), format!("{step}: expected request frame {}, got {other:?}", crate::hserver::hex(&want)))),
                },
            }
        }
        collect(&mut gate, &map_states(&expected.states), &mut last_wait, &mut held_wait, &mut problems, &step).await;
        let deadline = Instant::now() + STEP_TIMEOUT;
        loop {
            let have = done.lock().unwrap().len();
            if have >= seen.len() + expected.completions.len() || Instant::now() > deadline {
                break;
            }
            tokio::time::sleep(Duration::from_millis(1)).await;
        }
        let all = done.lock().unwrap().clone();
        let new: Vec<(usize, Outcome)> = all.into_iter().filter(|x| !seen.contains(&x.0)).collect();
        for (id, want) in &expected.completions {
            match new.iter().find(|x| x.0 == *id) {
                None => problems.push(("missing-completion".into(), format!("{step}: request {id} should have completed with {want:?}"))),
                Some((_, got)) => {
                    let ok = match (want, got) {
                        (OutClass::Ok(v), Outcome::Ok(g)) => v == g,
                        (OutClass::NoConnection, Outcome::Err(ErrClass::NoConnection)) => true,
                        (OutClass::Timeout, Outcome::Err(ErrClass::Timeout)) => true,
                        (OutClass::Io(_), Outcome::Err(ErrClass::Io(_))) => true,
                        (OutClass::Shutdown, Outcome::Err(ErrClass::Shutdown)) => true,
                        _ => false,
                    };
                    if !ok {
                        problems.push(("wrong-result".into(), format!("{step}: request {id}: expected {want:?} got {got:?}")));
                    }
                }
            }
        }
        for (id, got) in &new {
            if !expected.completions.iter().any(|x| x.0 == *id) {
                problems.push(("unexpected-completion".into(), format!("{step}: request {id} completed with {got:?}")));
            }
            seen.push(*id);
        }
        if expected.task_done {
            let ended = tokio::time::timeout(STEP_TIMEOUT, async {
                while !join.is_finished() {
                    tokio::time::sleep(Duration::from_millis(1)).await;
                }
            })
            .await;
            if ended.is_err() {
                problems.push(("task-end".into(), format!("{step}: the serial client task did not end")));
            }
        }
        i += 1;
    }
    if problems.is_empty() && !model.done() {
        pty = None;
        port.unlink();
        if let Some(a) = held_wait.take() {
            let _ = a.send(());
        }
        handle = None;
        let end = tokio::time::timeout(STEP_TIMEOUT, async {
            let mut last = None;
            while let Some((s, ack)) = gate.recv().await {
                let _ = ack.send(());
                last = Some(pstate(&s));
                if last == Some(PState::Shutdown) {
                    break;
                }
            }
            last
        })
        .await;
        if !matches!(end, Ok(Some(PState::Shutdown))) {
            problems.push(("task-end".into(), format!("after dropping every handle the task did not announce Shutdown ({end:?})")));
        }
    }
    let _ = (&pty, &handle);
    join.abort();
    problems
}

pub fn serial_histories(depth: usize) -> Vec<Vec<Ev>> {
    let mut out = vec![];
    fn rec(m: &ClientModel, path: &mut Vec<Ev>, depth: usize, out: &mut Vec<Vec<Ev>>) {
        let connecting = m.phase == Phase::Connecting;
        let evs: Vec<Ev> = m
            .enabled_events(1)
            .into_iter()
            .filter(|e| {
                if connecting {
                    // no Connecting state on a serial port: the outcome follows at once
                    return matches!(e, Ev::ConnectOk | Ev::ConnectFail);
                }
                match e {
                    Ev::Enable(0) => !m.enabled,
                    Ev::Disable(0) | Ev::Shutdown(0) | Ev::DropHandle(0) | Ev::Eof | Ev::ReplyOk | Ev::AdvanceToNext => true,
                    Ev::Submit { style, .. } => *style == MStyle::Future,
                    _ => false,
                }
            })
            .collect();
        if (path.len() >= depth && !connecting) || evs.is_empty() {
            out.push(path.clone());
            return;
        }
        for e in evs {
            let mut m2 = m.clone();
            m2.apply(&e);
            path.push(e);
            rec(&m2, path, depth, out);
            path.pop();
        }
    }
    let mut m = ClientModel::new(16, None, RETRY_MIN, RETRY_MAX, 1);
    m.start();
    rec(&m, &mut vec![], depth, &mut out);
    out
}

pub fn serial_client_phase(rep: &mut Report, prop: &str) {
    let depth = if rep.thorough() { 6 } else { 5 };
    let hist: Vec<SerialHistory> = serial_histories(depth).into_iter().map(|events| SerialHistory { events }).collect();
    let hist = Arc::new(hist);
    let results: Arc<Mutex<Vec<(usize, Vec<(String, String)>)>>> = Arc::new(Mutex::new(vec![]));
    rt().block_on(async {
        let sem = Arc::new(tokio::sync::Semaphore::new(12));
        let mut joins = vec![];
        for i in 0..hist.len() {
            let hist = hist.clone();
            let results = results.clone();
            let sem = sem.clone();
            joins.push(tokio::spawn(async move {
                let _p = sem.acquire().await.unwrap();
                let mut r = run_serial_history(&hist[i]).await;
                if !r.is_empty() {
                    let r2 = run_serial_history(&hist[i]).await;
                    if r2.is_empty() {
                        r = r2;
                    }
                }
                results.lock().unwrap().push((i, r));
            }));
        }
        for j in joins {
            let _ = j.await;
        }
    });
    let mut st = Stats::default();
    let mut res = results.lock().unwrap().clone();
    res.sort_by_key(|x| x.0);
    for (i, problems) in res {
        let h = &hist[i];
        st.evaluations += 1;
        st.traces += 1;
        st.transitions += h.events.len() as u64;
        st.class("serial-history-pty");
        st.state(&format!("{:?}", h.events));
        st.observe(&(format!("{:?}", h.events), problems.len()));
        if i % 41 == 0 {
            st.sample(json!({"transport": "serial (pty)", "events": format!("{:?}", h.events)}));
        }
        for (sig, desc) in problems {
            st.violation(Violation {
                signature: format!("{sig}:serial"),
                summary: format!("serial history {:?}: {desc}", h.events),
                replay: json!({"kind": "serial-history", "property": prop, "events": h.events}),
            });
        }
    }
    rep.phase("serial client over a pty, gated listener", st, json!({"depth": depth, "histories": hist.len()}));
}

pub fn replay_serial(v: &serde_json::Value) -> Vec<(String, String)> {
    let h = SerialHistory { events: serde_json::from_value(v["events"].clone()).unwrap() };
    rt().block_on(run_serial_history(&h)).into_iter().map(|(s, d)| (format!("{s}:serial"), d)).collect()
}

// ---------------------------------------------------------------------------------------------
// RTU server task over a pty: retry delays, observed through the server's log and the line
// ---------------------------------------------------------------------------------------------

struct Coils;
impl rodbus::server::RequestHandler for Coils {
    fn read_holding_register(&self, address: u16) -> Result<u16, ExceptionCode> {
        Ok(address.wrapping_add(0x0100))
    }
}

fn parse_delay_ms(line: &str) -> Option<u64> {
    // "... retrying in 40ms ..." / "waiting 40ms to reopen port"
    let idx = line.find("retrying in ").map(|i| i + 12).or_else(|| line.find("waiting ").map(|i| i + 8))?;
    let rest = &line[idx..];
    let num: String = rest.chars().take_while(|c| c.is_ascii_digit() || *c == '.').collect();
    let unit: String = rest[num.len()..].chars().take_while(|c| c.is_ascii_alphabetic() || *c == 'µ').collect();
    let v: f64 = num.parse().ok()?;
    Some(match unit.as_str() {
        "ms" => v as u64,
        "s" => (v * 1000.0) as u64,
        "µs" | "us" => (v / 1000.0) as u64,
        _ => return None,
    })
}

/// fail(k times) -> open -> served -> line lost -> reopen...; returns problems
pub fn rtu_server_scenario(fails_first: usize, rounds: usize) -> Vec<(String, String)> {
    use rodbus::server::*;
    let mut problems = vec![];
    let port = PortPath::new();
    port.unlink();
    let (min, max) = (40u64, 160u64);
    crate::sim::trace::timed_capture(true);
    let map = ServerHandlerMap::single(UnitId::new(1), Coils.wrap());
    let (handle, task) = create_rtu_server_task(&port.0, SerialSettings::default(), doubling_retry_strategy(Duration::from_millis(min), Duration::from_millis(max)), map, DecodeLevel::nothing());
    let join = rt().spawn(task.run());
    let t_start = Instant::now();
    let wait_lines = |pred: &dyn Fn(&str) -> bool, n: usize, ceiling: Duration| -> Vec<(Instant, String)> {
        let deadline = Instant::now() + ceiling;
        loop {
            let lines: Vec<(Instant, String)> = crate::sim::trace::timed_snapshot().into_iter().filter(|l| pred(&l.1)).collect();
            if lines.len() >= n || Instant::now() > deadline {
                return lines;
            }
            std::thread::sleep(Duration::from_millis(2));
        }
    };
    let mut expected_fail_delay = min;
    let mut seen_fail = 0usize;
    let mut seen_wait = 0usize;
    let mut seen_open = 0usize;
    for round in 0..rounds {
        // (a) the port cannot be opened `fails_first` times: delays double from min, capped at max
        let fails = if round == 0 { fails_first } else { 1 };
        let lines = wait_lines(&|l| l.contains("unable to open serial port"), seen_fail + fails, Duration::from_secs(5));
        if lines.len() < seen_fail + fails {
            problems.push(("rtu-server-open-attempts".into(), format!("round {round}: expected {fails} failed open attempts, the log shows {}", lines.len() - seen_fail.min(lines.len()))));
            break;
        }
        for k in seen_fail..seen_fail + fails {
            let d = parse_delay_ms(&lines[k].1);
            if d != Some(expected_fail_delay) {
                problems.push(("rtu-server-announced-delay".into(), format!("round {round}: failed open #{k}: announced {d:?} ms, the strategy says {expected_fail_delay} ms ({})", lines[k].1)));
            }
            if k > 0 && k > seen_fail {
                let gap = (lines[k].0 - lines[k - 1].0).as_millis() as u64;
                let prev = parse_delay_ms(&lines[k - 1].1).unwrap_or(0);
                if gap + 2 < prev {
                    problems.push(("retry-too-early".into(), format!("round {round}: open attempt #{k} came {gap} ms after a delay of {prev} ms was announced")));
                }
            }
            expected_fail_delay = (expected_fail_delay * 2).min(max);
        }
        seen_fail += fails;
        // (b) make the port available: the server opens it and answers
        let pty = match open_pty() {
            Ok(p) => p,
            Err(e) => return vec![("MACHINERY:pty".into(), e)],
        };
        port.point_to(&pty.slave_path);
        let opened = wait_lines(&|l| l.contains("opened port"), seen_open + 1, Duration::from_secs(5));
        if opened.len() < seen_open + 1 {
            problems.push(("rtu-server-open".into(), format!("round {round}: the port was never opened")));
            break;
        }
        seen_open += 1;
        // between the last failure and the successful open the announced delay must have elapsed,
        // and the failures that happened while we were preparing the pty are accounted for
        let fl = wait_lines(&|l| l.contains("unable to open serial port"), 0, Duration::from_millis(0));
        for k in seen_fail..fl.len() {
            expected_fail_delay = (expected_fail_delay * 2).min(max);
            let _ = k;
        }
        seen_fail = fl.len();
        if let Some(last) = fl.last() {
            let gap = (opened[seen_open - 1].0.saturating_duration_since(last.0)).as_millis() as u64;
            let d = parse_delay_ms(&last.1).unwrap_or(0);
            if gap + 2 < d {
                problems.push(("retry-too-early".into(), format!("round {round}: the port was opened {gap} ms after a delay of {d} ms was announced")));
            }
        }
        // success restarts the sequence at min
        expected_fail_delay = min;
        let req = rtu_frame(1, &[3, 0, 5, 0, 1]);
        pty.write(&req);
        match pty.read_n(7, Duration::from_secs(3)) {
            Ok(b) if b == rtu_frame(1, &[3, 2, 0x01, 0x05]) => {}
            other => problems.push(("rtu-server-reply".into(), format!("round {round}: {other:?}"))),
        }
        // a frame for another unit is not answered, a broadcast write is not answered
        pty.write(&rtu_frame(9, &[3, 0, 5, 0, 1]));
        pty.write(&rtu_frame(0, &[6, 0, 1, 0, 2]));
        if let Ok(b) = pty.read_n(1, Duration::from_millis(60)) {
            problems.push(("rtu-server-answered-foreign-frame".into(), format!("{b:?}")));
        }
        // (c) the line goes away: the server waits `min`, then tries again
        port.unlink();
        drop(pty);
        let waits = wait_lines(&|l| l.contains("to reopen port"), seen_wait + 1, Duration::from_secs(5));
        if waits.len() < seen_wait + 1 {
            problems.push(("rtu-server-disconnect".into(), format!("round {round}: losing the line was not noticed")));
            break;
        }
        let d = parse_delay_ms(&waits[seen_wait].1);
        if d != Some(min) {
            problems.push(("rtu-server-announced-delay".into(), format!("round {round}: after a lost port the server announced {d:?} ms, expected {min} ms")));
        }
        seen_wait += 1;
        let t_wait = waits[seen_wait - 1].0;
        let next_fail = wait_lines(&|l| l.contains("unable to open serial port"), seen_fail + 1, Duration::from_secs(5));
        if let Some(l) = next_fail.get(seen_fail) {
            let gap = l.0.saturating_duration_since(t_wait).as_millis() as u64;
            if gap + 2 < min {
                problems.push(("retry-too-early".into(), format!("round {round}: reopen attempt {gap} ms after a wait of {min} ms was announced")));
            }
        }
        if !problems.is_empty() {
            break;
        }
    }
    let _ = rt().block_on(async { tokio::time::timeout(Duration::from_secs(2), handle.shutdown()).await });
    let ended = {
        let deadline = Instant::now() + Duration::from_secs(3);
        while !join.is_finished() && Instant::now() < deadline {
            std::thread::sleep(Duration::from_millis(2));
        }
        join.is_finished()
    };
    if !ended {
        problems.push(("rtu-server-shutdown".into(), "the RTU server task did not end after shutdown".into()));
    }
    join.abort();
    crate::sim::trace::timed_capture(false);
    let _ = t_start;
    problems
}

pub fn rtu_server_phase(rep: &mut Report) {
    let mut st = Stats::default();
    for (fails, rounds) in [(1usize, 2usize), (3, 2), (4, 1)] {
        st.evaluations += 1;
        st.traces += 1;
        st.class("rtu-server-pty-scenario");
        st.state(&(fails, rounds));
        st.observe(&(fails, rounds));
        let mut p = rtu_server_scenario(fails, rounds);
        if !p.is_empty() {
            let p2 = rtu_server_scenario(fails, rounds);
            if p2.is_empty() {
                p = p2;
            }
        }
        st.sample(json!({"failed_opens_first": fails, "rounds": rounds}));
        for (sig, desc) in p {
            st.violation(Violation { signature: format!("{sig}:rtu-server"), summary: format!("RTU server over a pty (fails first {fails}, rounds {rounds}): {desc}"), replay: json!({"kind": "rtu-server-pty", "fails": fails, "rounds": rounds}) });
        }
    }
    rep.phase("RTU server over a pty: announced delay = reference delay <= delay waited", st, json!({}));
}

pub fn replay_rtu_server(v: &serde_json::Value) -> Vec<(String, String)> {
    rtu_server_scenario(v["fails"].as_u64().unwrap() as usize, v["rounds"].as_u64().unwrap() as usize)
        .into_iter()
        .map(|(s, d)| (format!("{s}:rtu-server"), d))
        .collect()
}

#[allow(dead_code)]
fn unused() -> Vec<u8> {
    pdu::rtu_frame(0, &[])
}

// ---------------------------------------------------------------------------------------------
// C06 over a real pty: the production RTU server task (open -> session -> reopen)
// ---------------------------------------------------------------------------------------------

/// every listed single-bit corruption of one request frame is sent over the line: no reply may
/// come back, and the next intact request must be answered with a CRC-valid frame
pub fn rtu_crc_over_pty(bit_positions: &[usize]) -> (u64, Vec<(String, String)>) {
    use rodbus::server::*;
    let mut problems = vec![];
    let mut sent = 0u64;
    let port = PortPath::new();
    let pty = match open_pty() {
        Ok(p) => p,
        Err(e) => return (0, vec![("MACHINERY:pty".into(), e)]),
    };
    port.point_to(&pty.slave_path);
    let map = ServerHandlerMap::single(UnitId::new(1), Coils.wrap());
    let (handle, task) = create_rtu_server_task(&port.0, SerialSettings::default(), doubling_retry_strategy(Duration::from_millis(10), Duration::from_millis(10)), map, DecodeLevel::nothing());
    let join = rt().spawn(task.run());
    let good = rtu_frame(1, &[3, 0, 5, 0, 1]);
    let want = rtu_frame(1, &[3, 2, 0x01, 0x05]);
    let ask = |pty: &Pty| -> Result<(), String> {
        // the port may just be re-opening: retry for a while
        let deadline = Instant::now() + Duration::from_secs(3);
        loop {
            pty.write(&good);
            match pty.read_n(want.len(), Duration::from_millis(150)) {
                Ok(b) if b == want => return Ok(()),
                Ok(b) => return Err(format!("reply {b:?}, expected {want:?}")),
                Err(b) if !b.is_empty() => return Err(format!("partial reply {b:?}")),
                Err(_) => {
                    if Instant::now() > deadline {
                        return Err("no reply to an intact request".into());
                    }
                }
            }
        }
    };
    if let Err(e) = ask(&pty) {
        problems.push(("pty-transmit".into(), e));
    }
    for bit in bit_positions {
        let mut bad = good.clone();
        bad[bit / 8] ^= 1 << (bit % 8);
        pty.write(&bad);
        sent += 1;
        if let Ok(b) = pty.read_n(1, Duration::from_millis(40)) {
            let more = pty.read_n(6, Duration::from_millis(40)).unwrap_or_else(|x| x);
            problems.push(("corrupted-frame-answered-over-pty".into(), format!("bit {bit} flipped: the server replied {:?}", [b, more].concat())));
            break;
        }
        if let Err(e) = ask(&pty) {
            problems.push(("pty-session-not-recovered".into(), format!("after a frame with bit {bit} flipped: {e}")));
            break;
        }
    }
    let _ = rt().block_on(async { tokio::time::timeout(Duration::from_secs(2), handle.shutdown()).await });
    join.abort();
    (sent, problems)
}

//! E2 part of C13 / C14: the unmodified public client constructors (TCP and TLS) against a
//! harness-owned listener on a loopback port; the listener callback is a lock-step gate.

use crate::hclient::{classify, ErrClass, Outcome};
use crate::net::*;
use crate::refmodel::client::*;
use crate::refmodel::pdu::{mbap_frame, mbap_raw, Values};
use crate::report::*;
use rodbus::client::*;
use rodbus::*;
use serde_json::json;
use std::net::SocketAddr;
use std::sync::{Arc, Mutex};
use std::time::{Duration, Instant};
use tokio::io::{AsyncRead, AsyncWrite};
use tokio::sync::{mpsc, oneshot};

struct Gate {
    tx: mpsc::UnboundedSender<(ClientState, oneshot::Sender<()>)>,
}

impl Listener<ClientState> for Gate {
    fn update(&mut self, value: ClientState) -> MaybeAsync<()> {
        let (ack, wait) = oneshot::channel();
        let _ = self.tx.send((value, ack));
        MaybeAsync::asynchronous(async move {
            let _ = wait.await;
        })
    }
}

trait Stream: AsyncRead + AsyncWrite + Unpin + Send {}
impl<T: AsyncRead + AsyncWrite + Unpin + Send> Stream for T {}

const RETRY_MIN: u64 = 40;
const RETRY_MAX: u64 = 160;
const REQ_TIMEOUT: u64 = 80;

fn mstate(s: &ClientState) -> MState {
    match s {
        ClientState::Disabled => MState::Disabled,
        ClientState::Connecting => MState::Connecting,
        ClientState::Connected => MState::Connected,
        ClientState::WaitAfterFailedConnect(d) => MState::WaitAfterFailedConnect(d.as_millis() as u64),
        ClientState::WaitAfterDisconnect(d) => MState::WaitAfterDisconnect(d.as_millis() as u64),
        ClientState::Shutdown => MState::Shutdown,
    }
}

fn out_ok(exp: &OutClass, got: &Outcome) -> bool {
    match (exp, got) {
        (OutClass::Ok(v), Outcome::Ok(g)) => v == g,
        (OutClass::Exception(c), Outcome::Err(ErrClass::Exception(g))) => c == g,
        (OutClass::NoConnection, Outcome::Err(ErrClass::NoConnection)) => true,
        (OutClass::Timeout, Outcome::Err(ErrClass::Timeout)) => true,
        // the kernel decides which I/O error kind a closed socket produces
        (OutClass::Io(_), Outcome::Err(ErrClass::Io(_))) => true,
        (OutClass::BadFrame, Outcome::Err(ErrClass::BadFrame)) => true,
        (OutClass::BadResponse, Outcome::Err(ErrClass::BadResponse)) => true,
        (OutClass::Shutdown, Outcome::Err(ErrClass::Shutdown)) => true,
        (OutClass::AnyError, Outcome::Err(_)) => true,
        _ => false,
    }
}

#[derive(Clone, Copy, PartialEq, Eq, Debug)]
enum PortMode {
    Refuse,
    Accept,
    /// (TCP) accept queue full: the connect stays pending; (TLS) accepted, handshake never answered
    Pending,
}

struct Env {
    /// bound, never listening, SO_REUSEPORT: keeps the port ours for the whole history (nobody else
    /// can be handed it by the OS), while connects are refused unless `listener` is also bound
    _holder: tokio::net::TcpSocket,
    addr: SocketAddr,
    listener: Option<tokio::net::TcpListener>,
    /// connections that fill the accept queue in Pending mode / silent TLS peers
    parked: Vec<tokio::net::TcpStream>,
    conn: Option<Box<dyn Stream>>,
    tls: bool,
}

impl Env {
    async fn set_mode(&mut self, mode: PortMode) {
        self.parked.clear();
        self.listener = None;
        match mode {
            PortMode::Refuse => {}
            PortMode::Accept => {
                self.listener = bind_reuse(self.addr, 16);
            }
            PortMode::Pending => {
                if self.tls {
                    // accept the TCP connection (done in `accept_silent`), never answer the handshake
                    self.listener = bind_reuse(self.addr, 16);
                } else {
                    // a listener whose accept queue is already full: SYNs are dropped
                    self.listener = bind_reuse(self.addr, 1);
                    for _ in 0..3 {
                        if let Ok(Ok(s)) = tokio::time::timeout(Duration::from_millis(200), tokio::net::TcpStream::connect(self.addr)).await {
                            self.parked.push(s);
                        }
                    }
                }
            }
        }
    }

    async fn accept(&mut self) -> Result<(), String> {
        let l = self.listener.as_ref().ok_or("no listener")?;
        let (tcp, _) = tokio::time::timeout(STEP_TIMEOUT, l.accept()).await.map_err(|_| "the client never connected")?.map_err(|e| e.to_string())?;
        if self.tls {
            let acceptor = tokio_rustls::TlsAcceptor::from(peer_server_config(PeerVersions::Both, "srv_valid"));
            let s = tokio::time::timeout(STEP_TIMEOUT, acceptor.accept(tcp)).await.map_err(|_| "handshake timed out")?.map_err(|e| format!("handshake: {e}"))?;
            self.conn = Some(Box::new(s));
        } else {
            self.conn = Some(Box::new(tcp));
        }
        Ok(())
    }

    /// complete an attempt that was left pending (TCP: free the accept queue; TLS: answer the handshake now)
    async fn complete_pending(&mut self) -> Result<(), String> {
        if self.tls {
            let tcp = self.parked.pop().ok_or("no pending TLS connection")?;
            let acceptor = tokio_rustls::TlsAcceptor::from(peer_server_config(PeerVersions::Both, "srv_valid"));
            let s = tokio::time::timeout(STEP_TIMEOUT, acceptor.accept(tcp)).await.map_err(|_| "handshake timed out")?.map_err(|e| format!("handshake: {e}"))?;
            self.conn = Some(Box::new(s));
            return Ok(());
        }
        let mine: Vec<u16> = self.parked.iter().filter_map(|s| s.local_addr().ok().map(|a| a.port())).collect();
        let l = self.listener.as_ref().ok_or("no listener")?;
        // the client's SYN is retransmitted after about a second
        let deadline = Instant::now() + Duration::from_secs(8);
        loop {
            let left = deadline.saturating_duration_since(Instant::now());
            let (tcp, peer) = tokio::time::timeout(left, l.accept()).await.map_err(|_| "the pending connect never completed")?.map_err(|e| e.to_string())?;
            if mine.contains(&peer.port()) {
                // one of the connections that filled the queue
                self.parked.push(tcp);
                continue;
            }
            self.conn = Some(Box::new(tcp));
            return Ok(());
        }
    }

    /// TLS only: take the TCP connection and stay silent
    async fn accept_silent(&mut self) -> Result<(), String> {
        let l = self.listener.as_ref().ok_or("no listener")?;
        let (tcp, _) = tokio::time::timeout(STEP_TIMEOUT, l.accept()).await.map_err(|_| "the client never connected")?.map_err(|e| e.to_string())?;
        self.parked.push(tcp);
        Ok(())
    }
}

fn bind_reuse(addr: SocketAddr, backlog: u32) -> Option<tokio::net::TcpListener> {
    let s = tokio::net::TcpSocket::new_v4().ok()?;
    let _ = s.set_reuseaddr(true);
    let _ = s.set_reuseport(true);
    s.bind(addr).ok()?;
    s.listen(backlog).ok()
}

/// reserve a loopback port: the returned socket is bound and never listens
fn hold_port() -> (tokio::net::TcpSocket, SocketAddr) {
    let s = tokio::net::TcpSocket::new_v4().expect("socket");
    s.set_reuseaddr(true).expect("reuseaddr");
    s.set_reuseport(true).expect("reuseport");
    s.bind("127.0.0.1:0".parse().unwrap()).expect("bind");
    let a = s.local_addr().expect("local_addr");
    (s, a)
}

pub struct NetHistory {
    pub tls: bool,
    pub events: Vec<Ev>,
}

/// run one history against the real client; the reference client model says what to expect
pub async fn run_net_history(h: &NetHistory) -> Vec<(String, String)> {
    let mut problems: Vec<(String, String)> = vec![];
    // a port that stays ours for the whole history
    let (holder, addr) = hold_port();
    let port = addr.port();
    let mut env = Env { _holder: holder, addr, listener: None, parked: vec![], conn: None, tls: h.tls };
    let (tx, mut gate) = mpsc::unbounded_channel();
    let options = ClientOptions::default().max_queued_requests(16).max_response_timeouts(std::num::NonZeroUsize::new(1)).decode_level(DecodeLevel::nothing());
    let retry = doubling_retry_strategy(Duration::from_millis(RETRY_MIN), Duration::from_millis(RETRY_MAX));
    let (channel, task) = if h.tls {
        let cfg = match TlsClientConfig::full_pki(Some("test.com".into()), &cert_path("ca_a"), &cert_path("cli_operator"), &key_path("cli_operator"), None, MinTlsVersion::V1_2) {
            Ok(c) => c,
            Err(e) => return vec![("MACHINERY:tls-config".into(), e.to_string())],
        };
        create_tls_client_task_with_options(HostAddr::ip(addr.ip(), port), retry, cfg, Some(Box::new(Gate { tx })), options)
    } else {
        create_tcp_client_task_with_options(HostAddr::ip(addr.ip(), port), retry, Some(Box::new(Gate { tx })), options)
    };
    let join = tokio::spawn(task.run());
    let mut handles: Vec<Option<Channel>> = vec![Some(channel)];
    let mut model = ClientModel::new(16, Some(1), RETRY_MIN, RETRY_MAX, 1);
    let done: Arc<Mutex<Vec<(usize, Outcome)>>> = Arc::new(Mutex::new(vec![]));
    let mut held: Option<oneshot::Sender<()>> = None;
    let mut last_wait: Option<(Instant, u64)> = None;
    let mut seen: Vec<usize> = vec![];
    let mut request_tasks: Vec<tokio::task::JoinHandle<()>> = vec![];

    // collect `n` announcements, acknowledging each (a Connecting announcement is held)
    async fn collect(
        gate: &mut mpsc::UnboundedReceiver<(ClientState, oneshot::Sender<()>)>,
        expected: &[MState],
        held: &mut Option<oneshot::Sender<()>>,
        last_wait: &mut Option<(Instant, u64)>,
        problems: &mut Vec<(String, String)>,
        step: &str,
    ) {
        for want in expected {
            match tokio::time::timeout(STEP_TIMEOUT, gate.recv()).await {
                Ok(Some((s, ack))) => {
                    let got = mstate(&s);
                    if got != *want {
                        problems.push(("listener-states".into(), format!("{step}: expected {want:?}, the listener was told {got:?}")));
                    }
                    match got {
                        MState::WaitAfterFailedConnect(d) | MState::WaitAfterDisconnect(d) => *last_wait = Some((Instant::now(), d)),
                        // a disable supersedes the announced wait (re-enabling connects at once)
                        MState::Disabled => *last_wait = None,
                        _ => {}
                    }
                    if got == MState::Connecting {
                        // never earlier than the announced delay
                        if let Some((t, d)) = last_wait.take() {
                            let waited = t.elapsed().as_millis() as u64;
                            if waited + 2 < d {
                                problems.push(("retry-too-early".into(), format!("{step}: a new attempt started {waited} ms after a wait of {d} ms was announced")));
                            }
                        }
                        *held = Some(ack);
                    } else {
                        let _ = ack.send(());
                    }
                }
                _ => {
                    problems.push(("listener-states".into(), format!("{step}: expected {want:?}, nothing was announced within {STEP_TIMEOUT:?}")));
                    return;
                }
            }
        }
    }

    let e0 = model.start();
    collect(&mut gate, &e0.states, &mut held, &mut last_wait, &mut problems, "start").await;
    let mut req_tx: u16 = 0;
    for (i, ev) in h.events.iter().enumerate() {
        if !problems.is_empty() {
            break;
        }
        let step = format!("step {i} {ev:?}");
        // a held Connecting announcement is released once the environment for the attempt is set
        let release = |held: &mut Option<oneshot::Sender<()>>| {
            if let Some(a) = held.take() {
                let _ = a.send(());
            }
        };
        let expected = match ev {
            Ev::ConnectOk => {
                let r = if held.is_some() {
                    env.set_mode(PortMode::Accept).await;
                    release(&mut held);
                    env.accept().await
                } else {
                    // the attempt has been pending since an earlier event: let it through now
                    env.complete_pending().await
                };
                if let Err(e) = r {
                    problems.push(("connect-path".into(), format!("{step}: {e}")));
                    break;
                }
                model.apply(ev)
            }
            Ev::ConnectFail if h.tls && held.is_some() && i % 2 == 1 => {
                // TLS: the TCP connection is accepted and closed before any handshake byte: the
                // attempt fails *after* the socket connected (every other failure is a refusal)
                env.set_mode(PortMode::Accept).await;
                release(&mut held);
                if let Some(l) = env.listener.as_ref() {
                    match tokio::time::timeout(STEP_TIMEOUT, l.accept()).await {
                        Ok(Ok((tcp, _))) => drop(tcp),
                        _ => {
                            problems.push(("connect-path".into(), format!("{step}: the client never connected")));
                            break;
                        }
                    }
                }
                env.set_mode(PortMode::Refuse).await;
                model.apply(ev)
            }
            Ev::ConnectFail => {
                // (a pending attempt fails when its listener goes away: RST / closed socket)
                env.set_mode(PortMode::Refuse).await;
                release(&mut held);
                model.apply(ev)
            }
            Ev::Eof => {
                env.conn = None;
                model.apply(ev)
            }
            Ev::BadHeader => {
                if let Some(c) = env.conn.as_mut() {
                    write_all(c, &mbap_raw(7, 0x0101, 6, 1, &[3, 0, 0, 0, 1])).await;
                }
                model.apply(ev)
            }
            Ev::ReplyOk => {
                let bytes = model.delivery(ev).unwrap();
                if let Some(c) = env.conn.as_mut() {
                    write_all(c, &bytes).await;
                }
                model.apply(ev)
            }
            Ev::AdvanceToNext => model.apply(ev),
            _ => {
                // an application-side event; if a connection attempt is being held, it stays pending
                if held.is_some() {
                    env.set_mode(PortMode::Pending).await;
                    release(&mut held);
                    if h.tls {
                        if let Err(e) = env.accept_silent().await {
                            problems.push(("connect-path".into(), format!("{step}: {e}")));
                            break;
                        }
                    } else {
                        tokio::time::sleep(Duration::from_millis(10)).await;
                    }
                }
                match ev {
                    Ev::Enable(_) => {
                        if let Some(c) = &handles[0] {
                            let _ = tokio::time::timeout(STEP_TIMEOUT, c.enable()).await;
                        }
                    }
                    Ev::Disable(_) => {
                        if let Some(c) = &handles[0] {
                            let _ = tokio::time::timeout(STEP_TIMEOUT, c.disable()).await;
                        }
                    }
                    Ev::SetDecode(_) => {
                        if let Some(c) = &handles[0] {
                            let _ = tokio::time::timeout(STEP_TIMEOUT, c.set_decode_level(DecodeLevel::nothing())).await;
                        }
                    }
                    Ev::Shutdown(_) => {
                        if let Some(c) = &handles[0] {
                            let _ = tokio::time::timeout(STEP_TIMEOUT, c.shutdown()).await;
                        }
                    }
                    Ev::DropHandle(_) => {
                        handles[0] = None;
                        // the caller's unresolved request futures go away with the handle
                        for t in request_tasks.drain(..) {
                            t.abort();
                        }
                        tokio::time::sleep(Duration::from_millis(2)).await;
                    }
                    Ev::Submit { .. } => {
                        if let Some(c) = &handles[0] {
                            let id = model.next_req;
                            let c = c.clone();
                            let done = done.clone();
                            // only the register read of the reference request table is used here
                            let start = ((id % 4000) as u16) * 16 + 1;
                            request_tasks.push(tokio::spawn(async move {
                                let r = c.read_holding_registers(RequestParam::new(UnitId::new(1), Duration::from_millis(REQ_TIMEOUT)), AddressRange::try_from(start, 2).unwrap()).await;
                                let o = match r {
                                    Ok(v) => Outcome::Ok(Values::Regs(v.into_iter().map(|x| (x.index, x.value)).collect())),
                                    Err(e) => Outcome::Err(classify(e)),
                                };
                                done.lock().unwrap().push((id, o));
                            }));
                        }
                    }
                    _ => {}
                }
                model.apply(ev)
            }
        };
        // lock-step: a request that the model says is transmitted must be seen on the wire before
        // the next event is applied
        for w in &expected.wire {
            match env.conn.as_mut() {
                None => problems.push(("wire".into(), format!("{step}: a request should be transmitted but there is no connection"))),
                Some(c) => match read_n(c, w.len(), STEP_TIMEOUT).await {
                    ReadOutcome::Bytes(b) if b == *w => {}
                    other => problems.push(("wire".into(), format!("{step}: expected request frame {}, got {other:?}", crate::hserver::hex(w)))),
                },
            }
        }
        let _ = &mut req_tx;
        collect(&mut gate, &expected.states, &mut held, &mut last_wait, &mut problems, &step).await;
        // completions expected now
        let deadline = Instant::now() + STEP_TIMEOUT;
        loop {
            let have = done.lock().unwrap().len();
            if have >= seen.len() + expected.completions.len() || Instant::now() > deadline {
                break;
            }
            tokio::time::sleep(Duration::from_millis(1)).await;
        }
        let all = done.lock().unwrap().clone();
        let new: Vec<(usize, Outcome)> = all.into_iter().filter(|x| !seen.contains(&x.0)).collect();
        for (id, want) in &expected.completions {
            match new.iter().find(|x| x.0 == *id) {
                None => problems.push((format!("missing-completion:{}", class(want)), format!("{step}: request {id} should have completed with {want:?}"))),
                Some((_, got)) => {
                    if !out_ok(want, got) {
                        problems.push((format!("wrong-result:{}", class(want)), format!("{step}: request {id}: expected {want:?} got {got:?}")));
                    }
                }
            }
        }
        for (id, got) in &new {
            if !expected.completions.iter().any(|x| x.0 == *id) {
                problems.push(("unexpected-completion".into(), format!("{step}: request {id} completed with {got:?}")));
            }
            seen.push(*id);
        }
        if expected.task_done {
            match tokio::time::timeout(STEP_TIMEOUT, async {
                while !join.is_finished() {
                    tokio::time::sleep(Duration::from_millis(1)).await;
                }
            })
            .await
            {
                Ok(()) => {}
                Err(_) => problems.push(("task-end".into(), format!("{step}: the client task did not end within {STEP_TIMEOUT:?}"))),
            }
        }
    }
    // epilogue: drop the handle, the task must end from whatever state it is in
    if problems.is_empty() && !model.done() {
        if held.is_some() {
            env.set_mode(PortMode::Pending).await;
            if let Some(a) = held.take() {
                let _ = a.send(());
            }
            if h.tls {
                let _ = env.accept_silent().await;
            }
        }
        handles[0] = None;
        // acknowledge whatever is announced on the way out
        let end = tokio::time::timeout(STEP_TIMEOUT, async {
            let mut last = None;
            while let Some((s, ack)) = gate.recv().await {
                let _ = ack.send(());
                last = Some(mstate(&s));
                if last == Some(MState::Shutdown) {
                    break;
                }
            }
            last
        })
        .await;
        match end {
            Ok(Some(MState::Shutdown)) => {}
            other => problems.push(("task-end".into(), format!("after dropping every handle the task did not announce Shutdown ({other:?}) within {STEP_TIMEOUT:?}"))),
        }
    }
    join.abort();
    problems
}

fn class(c: &OutClass) -> &'static str {
    match c {
        OutClass::Ok(_) => "ok",
        OutClass::NoConnection => "no-connection",
        OutClass::Timeout => "timeout",
        OutClass::Io(_) => "io",
        OutClass::BadFrame => "bad-frame",
        OutClass::Shutdown => "shutdown",
        _ => "other",
    }
}

/// histories: model-driven enumeration over a small alphabet
pub fn net_histories(depth: usize) -> Vec<Vec<Ev>> {
    let mut out = vec![];
    fn rec(m: &ClientModel, path: &mut Vec<Ev>, depth: usize, out: &mut Vec<Vec<Ev>>) {
        let evs: Vec<Ev> = m
            .enabled_events(2)
            .into_iter()
            .filter(|e| match e {
                Ev::Enable(0) | Ev::Disable(0) | Ev::Shutdown(0) | Ev::DropHandle(0) | Ev::ConnectOk | Ev::ConnectFail | Ev::Eof | Ev::BadHeader | Ev::ReplyOk | Ev::AdvanceToNext => true,
                Ev::Submit { style, .. } => *style == MStyle::Future,
                _ => false,
            })
            .filter(|e| {
                // only register reads are issued by this driver: requests 0 and (after one request) none of the other kinds
                !matches!(e, Ev::Submit { .. }) || m.next_req == 0
            })
            .collect();
        if path.len() >= depth || evs.is_empty() {
            out.push(path.clone());
            return;
        }
        for e in evs {
            // an enable while enabled is a no-op: keep the tree small
            if matches!(e, Ev::Enable(_)) && m.enabled {
                continue;
            }
            let mut m2 = m.clone();
            m2.apply(&e);
            path.push(e);
            rec(&m2, path, depth, out);
            path.pop();
        }
    }
    let mut m = ClientModel::new(16, Some(1), RETRY_MIN, RETRY_MAX, 1);
    m.start();
    rec(&m, &mut vec![], depth, &mut out);
    out
}

pub fn net_phase(rep: &mut Report, prop: &str) {
    let depth = if rep.thorough() { 5 } else { 4 };
    let paths = net_histories(depth);
    let mut hist: Vec<NetHistory> = vec![];
    for tls in [false, true] {
        for p in &paths {
            hist.push(NetHistory { tls, events: p.clone() });
        }
    }
    let hist = Arc::new(hist);
    let results: Arc<Mutex<Vec<(usize, Vec<(String, String)>)>>> = Arc::new(Mutex::new(vec![]));
    rt().block_on(async {
        let sem = Arc::new(tokio::sync::Semaphore::new(12));
        let mut joins = vec![];
        for i in 0..hist.len() {
            let hist = hist.clone();
            let results = results.clone();
            let sem = sem.clone();
            joins.push(tokio::spawn(async move {
                let _p = sem.acquire().await.unwrap();
                let mut r = run_net_history(&hist[i]).await;
                if !r.is_empty() {
                    // real sockets and real time: a verdict must reproduce
                    let r2 = run_net_history(&hist[i]).await;
                    if r2.is_empty() {
                        r = r2;
                    }
                }
                results.lock().unwrap().push((i, r));
            }));
        }
        for j in joins {
            let _ = j.await;
        }
    });
    let mut st = Stats::default();
    let mut res = results.lock().unwrap().clone();
    res.sort_by_key(|x| x.0);
    for (i, problems) in res {
        let h = &hist[i];
        st.evaluations += 1;
        st.traces += 1;
        st.transitions += h.events.len() as u64;
        st.class(if h.tls { "net-history-tls" } else { "net-history-tcp" });
        st.state(&(h.tls, format!("{:?}", h.events)));
        st.observe(&(h.tls, format!("{:?}", h.events), problems.len()));
        if i % 53 == 0 {
            st.sample(json!({"transport": if h.tls { "tls" } else { "tcp" }, "events": format!("{:?}", h.events)}));
        }
        for (sig, desc) in problems {
            let during_handshake = h.tls;
            st.violation(Violation {
                signature: format!("{sig}:{}", if during_handshake { "tls" } else { "tcp" }),
                summary: format!("{} history {:?}: {desc}", if h.tls { "TLS" } else { "TCP" }, h.events),
                replay: json!({"kind": "net-history", "property": prop, "tls": h.tls, "events": h.events}),
            });
        }
    }
    rep.phase("production connect path over loopback (TCP and TLS), gated listener", st, json!({"depth": depth, "histories": hist.len()}));
}

pub fn replay_net(v: &serde_json::Value) -> Vec<(String, String)> {
    let h = NetHistory { tls: v["tls"].as_bool().unwrap(), events: serde_json::from_value(v["events"].clone()).unwrap() };
    rt().block_on(run_net_history(&h)).into_iter().map(|(s, d)| (format!("{s}:{}", if h.tls { "tls" } else { "tcp" }), d)).collect()
}

#[allow(dead_code)]
fn unused() -> Vec<u8> {
    mbap_frame(0, 0, &[])
}

//! E2 part of C13 / C14: the unmodified public client constructors (TCP and TLS) against a
//! harness-owned listener on a loopback port; the listener callback is a lock-step gate.

use crate::hclient::{classify, ErrClass, Outcome};
use crate::net::*;
use crate::refmodel::client::*;
use crate::refmodel::pdu::{mbap_frame, mbap_raw, Values};
use crate::report::*;
use rodbus::client::*;
use rodbus::*;
use serde_json::json;
use std::net::SocketAddr;
use std::sync::{Arc, Mutex};
use std::time::{Duration, Instant};
use tokio::io::{AsyncRead, AsyncWrite};
use tokio::sync::{mpsc, oneshot};

struct Gate {
    tx: mpsc::UnboundedSender<(ClientState, oneshot::Sender<()>)>,
}

impl Listener<ClientState> for Gate {
    fn update(&mut self, value: ClientState) -> MaybeAsync<()> {
        let (ack, wait) = oneshot::channel();
        let _ = self.tx.send((value, ack));
        MaybeAsync::asynchronous(async move {
            let _ = wait.await;
        })
    }
}

trait Stream: AsyncRead + AsyncWrite + Unpin + Send {}
impl<T: AsyncRead + AsyncWrite + Unpin + Send> Stream for T {}

const RETRY_MIN: u64 = 40;
const RETRY_MAX: u64 = 160;
const REQ_TIMEOUT: u64 = 80;

fn mstate(s: &ClientState) -> MState {
    match s {
        ClientState::Disabled => MState::Disabled,
        ClientState::Connecting => MState::Connecting,
        ClientState::Connected => MState::Connected,
        ClientState::WaitAfterFailedConnect(d) => MState::WaitAfterFailedConnect(d.as_millis() as u64),
        ClientState::WaitAfterDisconnect(d) => MState::WaitAfterDisconnect(d.as_millis() as u64),
        ClientState::Shutdown => MState::Shutdown,
    }
}

fn out_ok(exp: &OutClass, got: &Outcome) -> bool {
    match (exp, got) {
        (OutClass::Ok(v), Outcome::Ok(g)) => v == g,
        (OutClass::Exception(c), Outcome::Err(ErrClass::Exception(g))) => c == g,
        (OutClass::NoConnection, Outcome::Err(ErrClass::NoConnection)) => true,
        (OutClass::Timeout, Outcome::Err(ErrClass::Timeout)) => true,
        // the kernel decides which I/O error kind a closed socket produces
        (OutClass::Io(_), Outcome::Err(ErrClass::Io(_))) => true,
        (OutClass::BadFrame, Outcome::Err(ErrClass::BadFrame)) => true,
        (OutClass::BadResponse, Outcome::Err(ErrClass::BadResponse)) => true,
        (OutClass::Shutdown, Outcome::Err(ErrClass::Shutdown)) => true,
        (OutClass::AnyError, Outcome::Err(_)) => true,
        _ => false,
    }
}

#[derive(Clone, Copy, PartialEq, Eq, Debug)]
enum PortMode {
    Refuse,
    Accept,
    /// (TCP) accept queue full: the connect stays pending; (TLS) accepted, handshake never answered
    Pending,
}

struct Env {
    /// bound, never listening, SO_REUSEPORT: keeps the port ours for the whole history (nobody else
    /// can be handed it by the OS), while connects are refused unless `listener` is also bound
    _holder: tokio::net::TcpSocket,
    addr: SocketAddr,
    listener: Option<tokio::net::TcpListener>,
    /// connections that fill the accept queue in Pending mode / silent TLS peers
    parked: Vec<tokio::net::TcpStream>,
    conn: Option<Box<dyn Stream>>,
    tls: bool,
}

impl Env {
    async fn set_mode(&mut self, mode: PortMode) {
        self.parked.clear();
        self.listener = None;
        match mode {
            PortMode::Refuse => {}
            PortMode::Accept => {
                self.listener = bind_reuse(self.addr, 16);
            }
            PortMode::Pending => {
                if self.tls {
                    // accept the TCP connection (done in `accept_silent`), never answer the handshake
                    self.listener = bind_reuse(self.addr, 16);
                } else {
                    // a listener whose accept queue is already full: SYNs are dropped
                    self.listener = bind_reuse(self.addr, 1);
                    for _ in 0..3 {
                        if let Ok(Ok(s)) = tokio::time::timeout(Duration::from_millis(200), tokio::net::TcpStream::connect(self.addr)).await {
                            self.parked.push(s);
                        }
                    }
                }
            }
        }
    }

    async fn accept(&mut self) -> Result<(), String> {
        let l = self.listener.as_ref().ok_or("no listener")?;
        let (tcp, _) = tokio::time::timeout(STEP_TIMEOUT, l.accept()).await.map_err(|_| "the client never connected")?.map_err(|e| e.to_string())?;
        if self.tls {
            let acceptor = tokio_rustls::TlsAcceptor::from(peer_server_config(PeerVersions::Both, "srv_valid"));
            let s = tokio::time::timeout(STEP_TIMEOUT, acceptor.accept(tcp)).await.map_err(|_| "handshake timed out")?.map_err(|e| format!("handshake: {e}"))?;
            self.conn = Some(Box::new(s));
        } else {
            self.conn = Some(Box::new(tcp));
        }
        Ok(())
    }

    /// complete an attempt that was left pending (TCP: free the accept queue; TLS: answer the handshake now)
    async fn complete_pending(&mut self) -> Result<(), String> {
        if self.tls {
            let tcp = self.parked.pop().ok_or("no pending TLS connection")?;
            let acceptor = tokio_rustls::TlsAcceptor::from(peer_server_config(PeerVersions::Both, "srv_valid"));
            let s = tokio::time::timeout(STEP_TIMEOUT, acceptor.accept(tcp)).await.map_err(|_| "handshake timed out")?.map_err(|e| format!("handshake: {e}"))?;
            self.conn = Some(Box::new(s));
            return Ok(());
        }
        let mine: Vec<u16> = self.parked.iter().filter_map(|s| s.local_addr().ok().map(|a| a.port())).collect();
        let l = self.listener.as_ref().ok_or("no listener")?;
        // the client's SYN is retransmitted after about a second
        let deadline = Instant::now() + Duration::from_secs(8);
        loop {
            let left = deadline.saturating_duration_since(Instant::now());
            let (tcp, peer) = tokio::time::timeout(left, l.accept()).await.map_err(|_| "the pending connect never completed")?.map_err(|e| e.to_string())?;
            if mine.contains(&peer.port()) {
                // one of the connections that filled the queue
                self.parked.push(tcp);
                continue;
            }
            self.conn = Some(Box::new(tcp));
            return Ok(());
        }
    }

    /// TLS only: take the TCP connection and stay silent
    async fn accept_silent(&mut self) -> Result<(), String> {
        let l = self.listener.as_ref().ok_or("no listener")?;
        let (tcp, _) = tokio::time::timeout(STEP_TIMEOUT, l.accept()).await.map_err(|_| "the client never connected")?.map_err(|e| e.to_string())?;
        self.parked.push(tcp);
        Ok(())
    }
}

fn bind_reuse(addr: SocketAddr, backlog: u32) -> Option<tokio::net::TcpListener> {
    let s = tokio::net::TcpSocket::new_v4().ok()?;
    let _ = s.set_reuseaddr(true);
    let _ = s.set_reuseport(true);
    s.bind(addr).ok()?;
    s.listen(backlog).ok()
}

/// reserve a loopback port: the returned socket is bound and never listens
fn hold_port() -> (tokio::net::TcpSocket, SocketAddr) {
    let s = tokio::net::TcpSocket::new_v4().expect("socket");
    s.set_reuseaddr(true).expect("reuseaddr");
    s.set_reuseport(true).expect("reuseport");
    s.bind("127.0.0.1:0".parse().unwrap()).expect("bind");
    let a = s.local_addr().expect("local_addr");
    (s, a)
}

pub struct NetHistory {
    pub tls: bool,
    pub events: Vec<Ev>,
}

/// run one history against the real client; the reference client model says what to expect
pub async fn run_net_history(h: &NetHistory) -> Vec<(String, String)> {
    let mut problems: Vec<(String, String)> = vec![];
    // a port that stays ours for the whole history
    let (holder, addr) = hold_port();
    let port = addr.port();
    let mut env = Env { _holder: holder, addr, listener: None, parked: vec![], conn: None, tls: h.tls };
    let (tx, mut gate) = mpsc::unbounded_channel();
    let options = ClientOptions::default().max_queued_requests(16).max_response_timeouts(std::num::NonZeroUsize::new(1)).decode_level(DecodeLevel::nothing());
    let retry = doubling_retry_strategy(Duration::from_millis(RETRY_MIN), Duration::from_millis(RETRY_MAX));
    let (channel, task) = if h.tls {
        let cfg = match TlsClientConfig::full_pki(Some("test.com".into()), &cert_path("ca_a"), &cert_path("cli_operator"), &key_path("cli_operator"), None, MinTlsVersion::V1_2) {
            Ok(c) => c,
            Err(e) => return vec![("MACHINERY:tls-config".into(), e.to_string())],
        };
        create_tls_client_task_with_options(HostAddr::ip(addr.ip(), port), retry, cfg, Some(Box::new(Gate { tx })), options)
    } else {
        create_tcp_client_task_with_options(HostAddr::ip(addr.ip(), port), retry, Some(Box::new(Gate { tx })), options)
    };
    let join = tokio::spawn(task.run());
    let mut handles: Vec<Option<Channel>> = vec![Some(channel)];
    let mut model = ClientModel::new(16, Some(1), RETRY_MIN, RETRY_MAX, 1);
    let done: Arc<Mutex<Vec<(usize, Outcome)>>> = Arc::new(Mutex::new(vec![]));
    let mut held: Option<oneshot::Sender<()>> = None;
    let mut last_wait: Option<(Instant, u64)> = None;
    let mut seen: Vec<usize> = vec![];
    let mut request_tasks: Vec<tokio::task::JoinHandle<()>> = vec![];

    // collect `n` announcements, acknowledging each (a Connecting announcement is held)
    async fn collect(
        gate: &mut mpsc::UnboundedReceiver<(ClientState, oneshot::Sender<()>)>,
        expected: &[MState],
        held: &mut Option<oneshot::Sender<()>>,
        last_wait: &mut Option<(Instant, u64)>,
        problems: &mut Vec<(String, String)>,
        step: &str,
    ) {
        for want in expected {
            match tokio::time::timeout(STEP_TIMEOUT, gate.recv()).await {
                Ok(Some((s, ack))) => {
                    let got = mstate(&s);
                    if got != *want {
                        problems.push(("listener-states".into(), format!("{step}: expected {want:?}, the listener was told {got:?}")));
                    }
                    match got {
                        MState::WaitAfterFailedConnect(d) | MState::WaitAfterDisconnect(d) => *last_wait = Some((Instant::now(), d)),
                        // a disable supersedes the announced wait (re-enabling connects at once)
                        MState::Disabled => *last_wait = None,
                        _ => {}
                    }
                    if got == MState::Connecting {
                        // never earlier than the announced delay
                        if let Some((t, d)) = last_wait.take() {
                            let waited = t.elapsed().as_millis() as u64;
                            if waited + 2 < d {
                                problems.push(("retry-too-early".into(), format!("{step}: a new attempt started {waited} ms after a wait of {d} ms was announced")));
                            }
                        }
                        *held = Some(ack);
                    } else {
                        let _ = ack.send(());
                    }
                }
                _ => {
                    problems.push(("listener-states".into(), format!("{step}: expected {want:?}, nothing was announced within {STEP_TIMEOUT:?}")));
                    return;
                }
            }
        }
    }

    let e0 = model.start();
    collect(&mut gate, &e0.states, &mut held, &mut last_wait, &mut problems, "start").await;
    let mut req_tx: u16 = 0;
    for (i, ev) in h.events.iter().enumerate() {
        if !problems.is_empty() {
            break;
        }
        let step = format!("step {i} {ev:?}");
        // a held Connecting announcement is released once the environment for the attempt is set
        let release = |held: &mut Option<oneshot::Sender<()>>| {
            if let Some(a) = held.take() {
                let _ = a.send(());
            }
        };
        let expected = match ev {
            Ev::ConnectOk => {
                let r = if held.is_some() {
                    env.set_mode(PortMode::Accept).await;
                    release(&mut held);
                    env.accept().await
                } else {
                    // the attempt has been pending since an earlier event: let it through now
                    env.complete_pending().await
                };
                if let Err(e) = r {
                    problems.push(("connect-path".into(), format!("{step}: {e}")));
                    break;
                }
                model.apply(ev)
            }
            Ev::ConnectFail if h.tls && held.is_some() && i % 2 == 1 => {
                // TLS: the TCP connection is accepted and closed before any handshake byte: the
                // attempt fails *after* the socket connected (every other failure is a refusal)
                env.set_mode(PortMode::Accept).await;
                release(&mut held);
                if let Some(l) = env.listener.as_ref() {
                    match tokio::time::timeout(STEP_TIMEOUT, l.accept()).await {
                        Ok(Ok((tcp, _))) => drop(tcp),
                        _ => {
                            problems.push(("connect-path".into(), format!("{step}: the client never connected")));
                            break;
                        }
                    }
                }
                env.set_mode(PortMode::Refuse).await;
                model.apply(ev)
            }
            Ev::ConnectFail => {
                // (a pending attempt fails when its listener goes away: RST / closed socket)
                env.set_mode(PortMode::Refuse).await;
                release(&mut held);
                model.apply(ev)
            }
            Ev::Eof => {
                env.conn = None;
                model.apply(ev)
            }
            Ev::BadHeader => {
                if let Some(c) = env.conn.as_mut() {
                    write_all(c, &mbap_raw(7, 0x0101, 6, 1, &[3, 0, 0, 0, 1])).await;
                }
                model.apply(ev)
            }
            Ev::ReplyOk => {
                let bytes = model.delivery(ev).unwrap();
                if let Some(c) = env.conn.as_mut() {
                    write_all(c, &bytes).await;
                }
                model.apply(ev)
            }
            Ev::AdvanceToNext => model.apply(ev),
            _ => {
                // an application-side event; if a connection attempt is being held, it stays pending
                if held.is_some() {
                    env.set_mode(PortMode::Pending).await;
                    release(&mut held);
                    if h.tls {
                        if let Err(e) = env.accept_silent().await {
                            problems.push(("connect-path".into(), format!("{step}: {e}")));
                            break;
                        }
                    } else {
                        tokio::time::sleep(Duration::from_millis(10)).await;
                    }
                }
                match ev {
                    Ev::Enable(_) => {
                        if let Some(c) = &handles[0] {
                            let _ = tokio::time::timeout(STEP_TIMEOUT, c.enable()).await;
                        }
                    }
                    Ev::Disable(_) => {
                        if let Some(c) = &handles[0] {
                            let _ = tokio::time::timeout(STEP_TIMEOUT, c.disable()).await;
                        }
                    }
                    Ev::SetDecode(_) => {
                        if let Some(c) = &handles[0] {
                            let _ = tokio::time::timeout(STEP_TIMEOUT, c.set_decode_level(DecodeLevel::nothing())).await;
                        }
                    }
                    Ev::Shutdown(_) => {
                        if let Some(c) = &handles[0] {
                            let _ = tokio::time::timeout(STEP_TIMEOUT, c.shutdown()).await;
                        }
                    }
                    Ev::DropHandle(_) => {
                        handles[0] = None;
                        // the caller's unresolved request futures go away with the handle
                        for t in request_tasks.drain(..) {
                            t.abort();
                        }
                        tokio::time::sleep(Duration::from_millis(2)).await;
                    }
                    Ev::Submit { .. } => {
                        if let Some(c) = &handles[0] {
                            let id = model.next_req;
                            let c = c.clone();
                            let done = done.clone();
                            // only the register read of the reference request table is used here
                            let start = ((id % 4000) as u16) * 16 + 1;
                            request_tasks.push(tokio::spawn(async move {
                                let r = c.read_holding_registers(RequestParam::new(UnitId::new(1), Duration::from_millis(REQ_TIMEOUT)), AddressRange::try_from(start, 2).unwrap()).await;
                                let o = match r {
                                    Ok(v) => Outcome::Ok(Values::Regs(v.into_iter().map(|x| (x.index, x.value)).collect())),
                                    Err(e) => Outcome::Err(classify(e)),
                                };
                                done.lock().unwrap().push((id, o));
                            }));
                        }
                    }
                    _ => {}
                }
                model.apply(ev)
            }
        };
        // lock-step: a request that the model says is transmitted must be seen on the wire before
        // the next event is applied
        for w in &expected.wire {
            match env.conn.as_mut() {
                None => problems.push(("wire".into(), format!("{step}: a request should be transmitted but there is no connection"))),
                Some(c) => match read_n(c, w.len(), STEP_TIMEOUT).await {
                    ReadOutcome::Bytes(b) if b == *w => {}
                    other => problems.push(("wire".into(), format!("{step}: expected request frame {}, got {other:?}", crate::hserver::hex(w)))),
                },
            }
        }
        let _ = &mut req_tx;
        collect(&mut gate, &expected.states, &mut held, &mut last_wait, &mut problems, &step).await;
        // completions expected now
        let deadline = Instant::now() + STEP_TIMEOUT;
        loop {
            let have = done.lock().unwrap().len();
            if have >= seen.len() + expected.completions.len() || Instant::now() > deadline {
                break;
            }
            tokio::time::sleep(Duration::from_millis(1)).await;
        }
        let all = done.lock().unwrap().clone();
        let new: Vec<(usize, Outcome)> = all.into_iter().filter(|x| !seen.contains(&x.0)).collect();
        for (id, want) in &expected.completions {
            match new.iter().find(|x| x.0 == *id) {
                None => problems.push((format!("missing-completion:{}", class(want)), format!("{step}: request {id} should have completed with {want:?}"))),
                Some((_, got)) => {
                    if !out_ok(want, got) {
                        problems.push((format!("wrong-result:{}", class(want)), format!("{step}: request {id}: expected {want:?} got {got:?}")));
                    }
                }
            }
        }
        for (id, got) in &new {
            if !expected.completions.iter().any(|x| x.0 == *id) {
                problems.push(("unexpected-completion".into(), format!("{step}: request {id} completed with {got:?}")));
            }
            seen.push(*id);
        }
        if expected.task_done {
            match tokio::time::timeout(STEP_TIMEOUT, async {
                while !join.is_finished() {
                    tokio::time::sleep(Duration::from_millis(1)).await;
                }
            })
            .await
            {
                Ok(()) => {}
                Err(_) => problems.push(("task-end".into(), format!("{step}: the client task did not end within {STEP_TIMEOUT:?}"))),
            }
        }
    }
    // epilogue: drop the handle, the task must end from whatever state it is in
    if problems.is_empty() && !model.done() {
        if held.is_some() {
            env.set_mode(PortMode::Pending).await;
            if let Some(a) = held.take() {
                let _ = a.send(());
            }
            if h.tls {
                let _ = env.accept_silent().await;
            }
        }
        handles[0] = None;
        // acknowledge whatever is announced on the way out
        let end = tokio::time::timeout(STEP_TIMEOUT, async {
            let mut last = None;
            while let Some((s, ack)) = gate.recv().await {
                let _ = ack.send(());
                last = Some(mstate(&s));
                if last == Some(MState::Shutdown) {
                    break;
                }
            }
            last
        })
        .await;
        match end {
            Ok(Some(MState::Shutdown)) => {}
            other => problems.push(("task-end".into(), format!("after dropping every handle the task did not announce Shutdown ({other:?}) within {STEP_TIMEOUT:?}"))),
        }
    }
    join.abort();
    problems
}

fn class(c: &OutClass) -> &'static str {
    match c {
        OutClass::Ok(_) => "ok",
        OutClass::NoConnection => "no-connection",
        OutClass::Timeout => "timeout",
        OutClass::Io(_) => "io",
        OutClass::BadFrame => "bad-frame",
        OutClass::Shutdown => "shutdown",
        _ => "other",
    }
}

/// histories: model-driven enumeration over a small alphabet
pub fn net_histories(depth: usize) -> Vec<Vec<Ev>> {
    let mut out = vec![];
    fn rec(m: &ClientModel, path: &mut Vec<Ev>, depth: usize, out: &mut Vec<Vec<Ev>>) {
        let evs: Vec<Ev> = m
            .enabled_events(2)
            .into_iter()
            .filter(|e| match e {
                Ev::Enable(0) | Ev::Disable(0) | Ev::Shutdown(0) | Ev::DropHandle(0) | Ev::ConnectOk | Ev::ConnectFail | Ev::Eof | Ev::BadHeader | Ev::ReplyOk | Ev::AdvanceToNext => true,
                Ev::Submit { style, .. } => *style == MStyle::Future,
                _ => false,
            })
            .filter(|e| {
                // only register reads are issued by this driver: requests 0 and (after one request) none of the other kinds
                !matches!(e, Ev::Submit { .. }) || m.next_req == 0
            })
            .collect();
        if path.len() >= depth || evs.is_empty() {
            out.push(path.clone());
            return;
        }
        for e in evs {
            // an enable while enabled is a no-op: keep the tree small
            if matches!(e, Ev::Enable(_)) && m.enabled {
                continue;
            }
            let mut m2 = m.clone();
            m2.apply(&e);
            path.push(e);
            rec(&m2, path, depth, out);
            path.pop();
        }
    }
    let mut m = ClientModel::new(16, Some(1), RETRY_MIN, RETRY_MAX, 1);
    m.start();
    rec(&m, &mut vec![], depth, &mut out);
    out
}

pub fn net_phase(rep: &mut Report, prop: &str) {
    let depth = if rep.thorough() { 5 } else { 4 };
    let paths = net_histories(depth);
    let mut hist: Vec<NetHistory> = vec![];
    for tls in [false, true] {
        for p in &paths {
            hist.push(NetHistory { tls, events: p.clone() });
        }
    }
    let hist = Arc::new(hist);
    let results: Arc<Mutex<Vec<(usize, Vec<(String, String)>)>>> = Arc::new(Mutex::new(vec![]));
    rt().block_on(async {
        let sem = Arc::new(tokio::sync::Semaphore::new(12));
        let mut joins = vec![];
        for i in 0..hist.len() {
            let hist = hist.clone();
            let results = results.clone();
            let sem = sem.clone();
            joins.push(tokio::spawn(async move {
                let _p = sem.acquire().await.unwrap();
                let mut r = run_net_history(&hist[i]).await;
                if !r.is_empty() {
                    // real sockets and real time: a verdict must reproduce
                    let r2 = run_net_history(&hist[i]).await;
                    if r2.is_empty() {
                        r = r2;
                    }
                }
                results.lock().unwrap().push((i, r));
            }));
        }
        for j in joins {
            let _ = j.await;
        }
    });
    let mut st = Stats::default();
    let mut res = results.lock().unwrap().clone();
    res.sort_by_key(|x| x.0);
    for (i, problems) in res {
        let h = &hist[i];
        st.evaluations += 1;
        st.traces += 1;
        st.transitions += h.events.len() as u64;
        st.class(if h.tls { "net-history-tls" } else { "net-history-tcp" });
        st.state(&(h.tls, format!("{:?}", h.events)));
        st.observe(&(h.tls, format!("{:?}", h.events), problems.len()));
        if i % 53 == 0 {
            st.sample(json!({"transport": if h.tls { "tls" } else { "tcp" }, "events": format!("{:?}", h.events)}));
        }
        for (sig, desc) in problems {
            let during_handshake = h.tls;
            st.violation(Violation {
                signature: format!("{sig}:{}", if during_handshake { "tls" } else { "tcp" }),
                summary: format!("{} history {:?}: {desc}", if h.tls { "TLS" } else { "TCP" }, h.events),
                replay: json!({"kind": "net-history", "property": prop, "tls": h.tls, "events": h.events}),
            });
        }
    }
    rep.phase("production connect path over loopback (TCP and TLS), gated listener", st, json!({"depth": depth, "histories": hist.len()}));
}

pub fn replay_net(v: &serde_json::Value) -> Vec<(String, String)> {
    let h = NetHistory { tls: v["tls"].as_bool().unwrap(), events: serde_json::from_value(v["events"].clone()).unwrap() };
    rt().block_on(run_net_history(&h)).into_iter().map(|(s, d)| (format!("{s}:{}", if h.tls { "tls" } else { "tcp" }), d)).collect()
}


// ---------------------------------------------------------------------------------------------
// C07: what the peer sends (or withholds) *during the TLS handshake* of the client
// ---------------------------------------------------------------------------------------------

/// listener that records every announced state without holding the task
struct Tap {
    tx: mpsc::UnboundedSender<ClientState>,
}

impl Listener<ClientState> for Tap {
    fn update(&mut self, value: ClientState) -> MaybeAsync<()> {
        let _ = self.tx.send(value);
        MaybeAsync::ready(())
    }
}

/// behaviour of the peer on every TCP connection it accepts
#[derive(Clone, Debug, serde::Serialize, serde::Deserialize, PartialEq, Eq, Hash)]
pub enum PeerHs {
    /// a real rustls acceptor whose bytes towards the client are cut after `k` bytes (then silence)
    Prefix { v12: bool, k: usize },
    /// these raw bytes, then silence
    Raw(Vec<u8>),
}

#[derive(Clone, Copy, Debug, serde::Serialize, serde::Deserialize, PartialEq, Eq, Hash)]
pub enum HsOp {
    Request,
    SetDecode,
    Disable,
    Enable,
    Drop,
    Shutdown,
}

struct HsPeer {
    addr: SocketAddr,
    forwarded: Arc<std::sync::atomic::AtomicUsize>,
    accepted: Arc<std::sync::atomic::AtomicUsize>,
    handshakes: Arc<std::sync::atomic::AtomicUsize>,
    task: tokio::task::JoinHandle<()>,
    _holder: tokio::net::TcpSocket,
}

impl Drop for HsPeer {
    fn drop(&mut self) {
        self.task.abort();
    }
}

fn start_hs_peer(behaviour: PeerHs) -> Option<HsPeer> {
    use std::sync::atomic::{AtomicUsize, Ordering};
    use tokio::io::{AsyncReadExt, AsyncWriteExt};
    let (holder, addr) = hold_port();
    let listener = bind_reuse(addr, 16)?;
    let forwarded = Arc::new(AtomicUsize::new(0));
    let accepted = Arc::new(AtomicUsize::new(0));
    let handshakes = Arc::new(AtomicUsize::new(0));
    let (f2, a2, h2) = (forwarded.clone(), accepted.clone(), handshakes.clone());
    let task = tokio::spawn(async move {
        let mut conns = tokio::task::JoinSet::new();
        loop {
            let Ok((tcp, _)) = listener.accept().await else { return };
            a2.fetch_add(1, Ordering::SeqCst);
            let (behaviour, f3, h3) = (behaviour.clone(), f2.clone(), h2.clone());
            conns.spawn(async move {
                let (mut cr, mut cw) = tcp.into_split();
                match behaviour {
                    PeerHs::Raw(bytes) => {
                        let _ = cw.write_all(&bytes).await;
                        f3.fetch_add(bytes.len(), Ordering::SeqCst);
                        // silence until the client goes away
                        let mut buf = [0u8; 4096];
                        while let Ok(n) = cr.read(&mut buf).await {
                            if n == 0 {
                                break;
                            }
                        }
                    }
                    PeerHs::Prefix { v12, k } => {
                        let (a, b) = tokio::io::duplex(1 << 16);
                        let versions = if v12 { PeerVersions::Tls12Only } else { PeerVersions::Tls13Only };
                        let acceptor = tokio_rustls::TlsAcceptor::from(peer_server_config(versions, "srv_valid"));
                        let acc = tokio::spawn(async move {
                            if let Ok(s) = acceptor.accept(a).await {
                                h3.fetch_add(1, Ordering::SeqCst);
                                // keep the session open, never answer a request
                                let (mut r, _w) = tokio::io::split(s);
                                let mut buf = [0u8; 4096];
                                while let Ok(n) = r.read(&mut buf).await {
                                    if n == 0 {
                                        break;
                                    }
                                }
                            }
                        });
                        let (mut br, mut bw) = tokio::io::split(b);
                        let up = async {
                            let mut buf = [0u8; 4096];
                            loop {
                                match cr.read(&mut buf).await {
                                    Ok(0) | Err(_) => return,
                                    Ok(n) => {
                                        if bw.write_all(&buf[..n]).await.is_err() {
                                            return;
                                        }
                                    }
                                }
                            }
                        };
                        let down = async {
                            let mut left = k;
                            let mut buf = [0u8; 4096];
                            loop {
                                if left == 0 {
                                    std::future::pending::<()>().await;
                                }
                                match br.read(&mut buf).await {
                                    Ok(0) | Err(_) => std::future::pending::<()>().await,
                                    Ok(n) => {
                                        let n = n.min(left);
                                        if cw.write_all(&buf[..n]).await.is_err() {
                                            std::future::pending::<()>().await;
                                        }
                                        left -= n;
                                        f3.fetch_add(n, Ordering::SeqCst);
                                    }
                                }
                            }
                        };
                        tokio::select! {
                            _ = up => {}
                            _ = down => {}
                        }
                        acc.abort();
                    }
                }
            });
        }
    });
    Some(HsPeer { addr, forwarded, accepted, handshakes, task, _holder: holder })
}

fn hs_client(addr: SocketAddr) -> Result<(Channel, tokio::task::JoinHandle<()>, mpsc::UnboundedReceiver<ClientState>), String> {
    let (tx, states) = mpsc::unbounded_channel();
    let options = ClientOptions::default().max_queued_requests(16).decode_level(DecodeLevel::nothing());
    let retry = doubling_retry_strategy(Duration::from_millis(RETRY_MIN), Duration::from_millis(RETRY_MAX));
    let cfg = TlsClientConfig::full_pki(Some("test.com".into()), &cert_path("ca_a"), &cert_path("cli_operator"), &key_path("cli_operator"), None, MinTlsVersion::V1_2).map_err(|e| e.to_string())?;
    let (channel, task) = create_tls_client_task_with_options(HostAddr::ip(addr.ip(), addr.port()), retry, cfg, Some(Box::new(Tap { tx })), options);
    let join = tokio::spawn(task.run());
    Ok((channel, join, states))
}

/// number of bytes a real acceptor sends before the client reports Connected
pub async fn hs_flight_len(v12: bool) -> Result<usize, String> {
    use std::sync::atomic::Ordering;
    let peer = start_hs_peer(PeerHs::Prefix { v12, k: usize::MAX }).ok_or("no listener")?;
    let (channel, join, mut states) = hs_client(peer.addr)?;
    let _ = channel.enable().await;
    let r = tokio::time::timeout(STEP_TIMEOUT, async {
        while let Some(s) = states.recv().await {
            if s == ClientState::Connected {
                return true;
            }
        }
        false
    })
    .await;
    let n = peer.forwarded.load(Ordering::SeqCst);
    drop(channel);
    join.abort();
    match r {
        Ok(true) if n > 0 => Ok(n),
        _ => Err(format!("the probe handshake (v12={v12}) never completed ({n} bytes forwarded)")),
    }
}

async fn wait_state(states: &mut mpsc::UnboundedReceiver<ClientState>, want: ClientState) -> bool {
    tokio::time::timeout(STEP_TIMEOUT, async {
        while let Some(s) = states.recv().await {
            if s == want {
                return true;
            }
        }
        false
    })
    .await
    .unwrap_or(false)
}

/// one peer behaviour, one script of API calls made while the peer behaves that way
pub async fn run_hs_case(behaviour: &PeerHs, ops: &[HsOp]) -> Vec<(String, String)> {
    use std::sync::atomic::Ordering;
    let mut problems = vec![];
    let Some(peer) = start_hs_peer(behaviour.clone()) else { return vec![("MACHINERY:listener".into(), "could not listen".into())] };
    let (channel, join, mut states) = match hs_client(peer.addr) {
        Ok(x) => x,
        Err(e) => return vec![("MACHINERY:tls-config".into(), e)],
    };
    let mut handle = Some(channel);
    let _ = handle.as_ref().unwrap().enable().await;
    // let the peer play its part of the first attempt
    let want = match behaviour {
        PeerHs::Prefix { k, .. } => *k,
        PeerHs::Raw(b) => b.len(),
    };
    let deadline = Instant::now() + Duration::from_millis(400);
    while Instant::now() < deadline {
        if peer.accepted.load(Ordering::SeqCst) > 0 && peer.forwarded.load(Ordering::SeqCst) >= want {
            break;
        }
        tokio::time::sleep(Duration::from_millis(1)).await;
    }
    if peer.accepted.load(Ordering::SeqCst) == 0 {
        problems.push(("MACHINERY:never-connected".into(), "the client never connected to the peer".into()));
    }
    for (i, op) in ops.iter().enumerate() {
        if !problems.is_empty() {
            break;
        }
        let step = format!("step {i} {op:?}");
        match op {
            HsOp::Request => {
                let c = handle.as_ref().unwrap().clone();
                let r = tokio::time::timeout(STEP_TIMEOUT, async move { c.read_coils(RequestParam::new(UnitId::new(1), Duration::from_millis(100)), AddressRange::try_from(0, 1).unwrap()).await }).await;
                match r {
                    Err(_) => problems.push(("request-never-completes".into(), format!("{step}: a request with a 100 ms response timeout was still unresolved after {STEP_TIMEOUT:?}"))),
                    Ok(Ok(v)) => problems.push(("request-succeeded".into(), format!("{step}: the peer never answered, yet the request returned {v:?}"))),
                    Ok(Err(_)) => {}
                }
            }
            HsOp::SetDecode => {
                let c = handle.as_ref().unwrap();
                match tokio::time::timeout(STEP_TIMEOUT, c.set_decode_level(DecodeLevel::nothing())).await {
                    Ok(Ok(())) => {}
                    other => problems.push(("handle-unusable".into(), format!("{step}: set_decode_level -> {other:?}"))),
                }
            }
            HsOp::Disable => {
                let c = handle.as_ref().unwrap();
                match tokio::time::timeout(STEP_TIMEOUT, c.disable()).await {
                    Ok(Ok(())) => {}
                    other => problems.push(("handle-unusable".into(), format!("{step}: disable -> {other:?}"))),
                }
                if !wait_state(&mut states, ClientState::Disabled).await {
                    problems.push(("disable-ignored".into(), format!("{step}: Disabled was not announced within {STEP_TIMEOUT:?}")));
                }
            }
            HsOp::Enable => {
                let c = handle.as_ref().unwrap();
                match tokio::time::timeout(STEP_TIMEOUT, c.enable()).await {
                    Ok(Ok(())) => {}
                    other => problems.push(("handle-unusable".into(), format!("{step}: enable -> {other:?}"))),
                }
                if !wait_state(&mut states, ClientState::Connecting).await {
                    problems.push(("enable-ignored".into(), format!("{step}: Connecting was not announced within {STEP_TIMEOUT:?}")));
                }
            }
            HsOp::Drop | HsOp::Shutdown => {
                if *op == HsOp::Shutdown {
                    let c = handle.as_ref().unwrap();
                    match tokio::time::timeout(STEP_TIMEOUT, c.shutdown()).await {
                        Ok(_) => {}
                        Err(_) => problems.push(("handle-unusable".into(), format!("{step}: shutdown() did not return within {STEP_TIMEOUT:?}"))),
                    }
                }
                handle = None;
                if !wait_state(&mut states, ClientState::Shutdown).await {
                    problems.push(("shutdown-ignored".into(), format!("{step}: Shutdown was not announced within {STEP_TIMEOUT:?}")));
                } else {
                    let ended = tokio::time::timeout(STEP_TIMEOUT, async {
                        while !join.is_finished() {
                            tokio::time::sleep(Duration::from_millis(1)).await;
                        }
                    })
                    .await;
                    if ended.is_err() {
                        problems.push(("shutdown-ignored".into(), format!("{step}: the client task did not end within {STEP_TIMEOUT:?}")));
                    }
                }
                break;
            }
        }
    }
    let _ = peer.handshakes.load(Ordering::SeqCst);
    drop(handle);
    join.abort();
    problems
}

pub fn hs_scripts() -> Vec<Vec<HsOp>> {
    use HsOp::*;
    vec![vec![Request, SetDecode, Request, Disable, Enable, Request, Drop], vec![Drop], vec![Disable, Drop], vec![Shutdown], vec![Request, Shutdown]]
}

/// C07, client role, TLS: every cut of the peer's real handshake flight (and some byte strings that
/// are not TLS at all) followed by silence, against every script of API calls
pub fn handshake_input_phase(thorough: bool) -> (Stats, serde_json::Value) {
    let mut st = Stats::default();
    let lens = rt().block_on(async { (hs_flight_len(false).await, hs_flight_len(true).await) });
    let (l13, l12) = match lens {
        (Ok(a), Ok(b)) => (a, b),
        (a, b) => {
            st.violation(Violation { signature: "MACHINERY:handshake-probe".into(), summary: format!("probe handshakes: {a:?} {b:?}"), replay: json!({}) });
            return (st, json!({}));
        }
    };
    let mut peers: Vec<PeerHs> = vec![];
    for (v12, l) in [(false, l13), (true, l12)] {
        let ks: Vec<usize> = if thorough {
            (0..l).collect()
        } else {
            let mut v: Vec<usize> = (0..8).collect();
            v.extend([50, 100, l / 4, l / 2, 3 * l / 4, l - 2, l - 1]);
            v.sort();
            v.dedup();
            v.into_iter().filter(|k| *k < l).collect()
        };
        for k in ks {
            peers.push(PeerHs::Prefix { v12, k });
        }
    }
    for raw in [
        vec![0x16, 0x03, 0x03, 0xff, 0xff],
        vec![0x16, 0x03, 0x03, 0x00, 0x00],
        vec![0x15, 0x03, 0x03, 0x00, 0x02, 0x02],
        vec![0x00; 5],
        vec![0xff; 64],
        b"HTTP/1.1 400 Bad Request\r\n\r\n".to_vec(),
        // a Modbus reply where a ServerHello is expected
        mbap_raw(0, 0, 6, 1, &[1, 1, 0]),
    ] {
        peers.push(PeerHs::Raw(raw));
    }
    let scripts = hs_scripts();
    let mut cases: Vec<(PeerHs, Vec<HsOp>)> = vec![];
    for (i, p) in peers.iter().enumerate() {
        for (j, s) in scripts.iter().enumerate() {
            // thorough: every cut with the long script, every 8th cut with the others
            if thorough && matches!(p, PeerHs::Prefix { .. }) && j != 0 && i % 8 != j % 8 {
                continue;
            }
            cases.push((p.clone(), s.clone()));
        }
    }
    let cases = Arc::new(cases);
    let results: Arc<Mutex<Vec<(usize, Vec<(String, String)>)>>> = Arc::new(Mutex::new(vec![]));
    rt().block_on(async {
        let sem = Arc::new(tokio::sync::Semaphore::new(16));
        let mut joins = vec![];
        for i in 0..cases.len() {
            let (cases, results, sem) = (cases.clone(), results.clone(), sem.clone());
            joins.push(tokio::spawn(async move {
                let _p = sem.acquire().await.unwrap();
                let mut r = run_hs_case(&cases[i].0, &cases[i].1).await;
                if !r.is_empty() {
                    // real sockets and real time: a verdict must reproduce
                    let r2 = run_hs_case(&cases[i].0, &cases[i].1).await;
                    if r2.is_empty() {
                        r = r2;
                    }
                }
                results.lock().unwrap().push((i, r));
            }));
        }
        for j in joins {
            let _ = j.await;
        }
    });
    let mut res = results.lock().unwrap().clone();
    res.sort_by_key(|x| x.0);
    for (i, problems) in res {
        let (p, s) = &cases[i];
        st.evaluations += 1;
        st.traces += 1;
        st.transitions += s.len() as u64;
        st.class(match p {
            PeerHs::Prefix { v12: false, .. } => "client-tls-handshake:flight-cut:tls13",
            PeerHs::Prefix { v12: true, .. } => "client-tls-handshake:flight-cut:tls12",
            PeerHs::Raw(_) => "client-tls-handshake:not-tls",
        });
        st.state(&(p, s));
        st.observe(&(p, s, problems.len()));
        if i % 97 == 0 {
            st.sample(json!({"peer": p, "script": s}));
        }
        for (sig, desc) in problems {
            st.violation(Violation {
                signature: format!("client-during-tls-handshake:{sig}"),
                summary: format!("peer {p:?}, script {s:?}: {desc}"),
                replay: json!({"kind": "c07-handshake", "peer": p, "script": s}),
            });
        }
    }
    (st, json!({"flight_len_tls13": l13, "flight_len_tls12": l12, "scripts": scripts.len(), "peers": peers.len()}))
}

pub fn replay_hs(v: &serde_json::Value) -> Vec<(String, String)> {
    let p: PeerHs = serde_json::from_value(v["peer"].clone()).unwrap();
    let s: Vec<HsOp> = serde_json::from_value(v["script"].clone()).unwrap();
    rt().block_on(run_hs_case(&p, &s)).into_iter().map(|(s, d)| (format!("client-during-tls-handshake:{s}"), d)).collect()
}

#[allow(dead_code)]
fn unused() -> Vec<u8> {
    mbap_frame(0, 0, &[])
}

//! C05 (MBAP framing), C06 (RTU framing / CRC), C07 (robustness): whole byte streams delivered
//! to the production tasks under every chunking in the bound, judged by stream-level reference
//! framers plus the reference server / reference reply decoder.

use crate::checks::client_codec::good_reply;
use crate::checks::server_family::{from_hex, read_pdu, to_hex, write_multi_pdu};
use crate::hclient::*;
use crate::hserver::*;
use crate::refmodel::pdu::{self, *};
use crate::refmodel::server::Call;
use crate::report::*;
use crate::sim::{Task, WriteMode};
use rodbus::DecodeLevel;
use serde_json::json;

// ---------------------------------------------------------------------------------------------
// chunkings
// ---------------------------------------------------------------------------------------------

/// positions worth cutting at for long streams: around frame boundaries, header ends and the
/// 260-byte receive buffer boundary, plus a coarse grid
fn interesting_cuts(len: usize, boundaries: &[usize]) -> Vec<usize> {
    let mut v = vec![];
    for b in boundaries {
        for d in -8i64..=8 {
            v.push(*b as i64 + d);
        }
        for d in 5..=9i64 {
            v.push(*b as i64 + d);
        }
    }
    for m in 1..=(len / 260 + 1) {
        for d in -3i64..=3 {
            v.push((m * 260) as i64 + d);
        }
    }
    for g in (0..len).step_by(16) {
        v.push(g as i64);
    }
    let mut v: Vec<usize> = v.into_iter().filter(|x| *x > 0 && (*x as usize) < len).map(|x| x as usize).collect();
    v.sort();
    v.dedup();
    v
}

#[derive(Clone, Copy)]
pub struct ChunkBound {
    pub uniform: bool,
    pub max_cuts: usize,
    /// streams up to this length get every cut position; longer ones the interesting set
    pub full_cuts_up_to: usize,
    pub all_partitions_up_to: usize,
}

pub fn for_each_chunking(len: usize, boundaries: &[usize], b: ChunkBound, f: &mut dyn FnMut(&[usize])) {
    f(&[]);
    if len <= 1 {
        return;
    }
    if b.uniform {
        for k in 1..len {
            let cuts: Vec<usize> = (1..len).filter(|c| c % k == 0).collect();
            f(&cuts);
        }
    }
    if len <= b.all_partitions_up_to {
        for mask in 1u32..(1u32 << (len - 1)) {
            let cuts: Vec<usize> = (1..len).filter(|c| (mask >> (c - 1)) & 1 == 1).collect();
            f(&cuts);
        }
        return;
    }
    let pos: Vec<usize> = if len <= b.full_cuts_up_to { (1..len).collect() } else { interesting_cuts(len, boundaries) };
    if b.max_cuts >= 1 {
        for c in &pos {
            f(&[*c]);
        }
    }
    if b.max_cuts >= 2 {
        for (i, c1) in pos.iter().enumerate() {
            for c2 in &pos[i + 1..] {
                f(&[*c1, *c2]);
            }
        }
    }
    if b.max_cuts >= 3 && len <= 300 {
        let p3 = interesting_cuts(len, boundaries);
        for (i, c1) in p3.iter().enumerate() {
            for (j, c2) in p3[i + 1..].iter().enumerate() {
                for c3 in &p3[i + 1 + j + 1..] {
                    f(&[*c1, *c2, *c3]);
                }
            }
        }
    }
}

fn split<'a>(stream: &'a [u8], cuts: &[usize]) -> Vec<&'a [u8]> {
    let mut out = vec![];
    let mut last = 0;
    for c in cuts {
        out.push(&stream[last..*c]);
        last = *c;
    }
    out.push(&stream[last..]);
    out
}

// ---------------------------------------------------------------------------------------------
// server role
// ---------------------------------------------------------------------------------------------

pub struct ServerExpect {
    pub output: Vec<u8>,
    pub calls: Vec<Call>,
    pub scopes: Vec<(u8, u8, u16, u16)>,
    pub end: StreamEnd,
    pub frames: usize,
    pub boundaries: Vec<usize>,
    /// false if some read has several acceptable exception codes (stream not used)
    pub unambiguous: bool,
    /// some write-multiple request in the stream has a byte-count field that disagrees with its data
    pub lenient: bool,
}

pub fn server_expect(cfg: &ServerCfg, stream: &[u8]) -> ServerExpect {
    server_expect_with(cfg, stream, false)
}

pub fn server_expect_with(cfg: &ServerCfg, stream: &[u8], strict_byte_count: bool) -> ServerExpect {
    let (frames, end) = if cfg.rtu { parse_rtu_stream(RtuRole::Request, stream) } else { parse_mbap_stream(stream) };
    let mut model = cfg.model_with(strict_byte_count);
    let mut output = vec![];
    let mut calls = vec![];
    let mut scopes = vec![];
    let mut unambiguous = true;
    let mut boundaries = vec![];
    let mut pos = 0usize;
    let mut lenient = false;
    for f in &frames {
        pos += if cfg.rtu { f.pdu.len() + 3 } else { f.pdu.len() + 7 };
        boundaries.push(pos);
        if !byte_count_consistent(&f.pdu) {
            lenient = true;
        }
        let e = model.handle(f.unit, &f.pdu);
        if e.replies.len() > 1 {
            unambiguous = false;
        }
        if let Some(r) = e.replies.first() {
            output.extend(if cfg.rtu { rtu_frame(f.unit, r) } else { mbap_frame(f.tx.unwrap_or(0), f.unit, r) });
        }
        calls.extend(e.calls);
        if let Some(s) = e.read_scope {
            scopes.push(s);
        }
    }
    ServerExpect { output, calls, scopes, end, frames: frames.len(), boundaries, unambiguous, lenient }
}

#[derive(Clone, Copy, Debug, PartialEq, Eq, Hash, serde::Serialize, serde::Deserialize)]
pub enum Tail {
    None,
    Eof,
    Reset,
    TimedOut,
}

impl Tail {
    fn inject(&self, io: &crate::sim::IoHandle) {
        match self {
            Tail::None => {}
            Tail::Eof => io.eof(),
            Tail::Reset => io.read_error(std::io::ErrorKind::ConnectionReset),
            Tail::TimedOut => io.read_error(std::io::ErrorKind::TimedOut),
        }
    }
    fn io_class(&self) -> String {
        match self {
            Tail::None => String::new(),
            Tail::Eof => "UnexpectedEof".into(),
            Tail::Reset => "ConnectionReset".into(),
            Tail::TimedOut => "TimedOut".into(),
        }
    }
}

pub fn run_server_stream(
    cfg: &ServerCfg,
    stream: &[u8],
    cuts: &[usize],
    exp: &ServerExpect,
    check_shutdown: bool,
) -> Vec<(String, String)> {
    run_server_stream_tail(cfg, stream, cuts, exp, check_shutdown, Tail::None)
}

pub fn run_server_stream_tail(
    cfg: &ServerCfg,
    stream: &[u8],
    cuts: &[usize],
    exp: &ServerExpect,
    check_shutdown: bool,
    tail: Tail,
) -> Vec<(String, String)> {
    run_server_stream_inject(cfg, stream, cuts, exp, check_shutdown, tail, None)
}

/// deliver `stream` split at `cuts` to a fresh production server session and compare with `exp`;
/// `inject` = (chunk index, level): change the decode level through the server handle after
/// that chunk has been delivered
pub fn run_server_stream_inject(
    cfg: &ServerCfg,
    stream: &[u8],
    cuts: &[usize],
    exp: &ServerExpect,
    check_shutdown: bool,
    tail: Tail,
    inject: Option<(usize, (u8, u8, u8))>,
) -> Vec<(String, String)> {
    let r = run_server_stream_once(cfg, stream, cuts, exp, check_shutdown, tail, inject);
    if !r.is_empty() && exp.lenient {
        // the strict reading of the byte-count field is equally acceptable
        let strict = server_expect_with(cfg, stream, true);
        let r2 = run_server_stream_once(cfg, stream, cuts, &strict, check_shutdown, tail, inject);
        if r2.is_empty() {
            return r2;
        }
    }
    r
}

fn run_server_stream_once(
    cfg: &ServerCfg,
    stream: &[u8],
    cuts: &[usize],
    exp: &ServerExpect,
    check_shutdown: bool,
    tail: Tail,
    inject: Option<(usize, (u8, u8, u8))>,
) -> Vec<(String, String)> {
    let mut out = vec![];
    let mut h = ServerHarness::new(cfg);
    h.settle();
    let mut written: Vec<u8> = vec![];
    let mut calls: Vec<Call> = vec![];
    for (ci, chunk) in split(stream, cuts).into_iter().enumerate() {
        if let Some((at, level)) = inject {
            if at + 1 == ci {
                if let Some(mut hd) = h.handle.take() {
                    let level = decode_level(level);
                    let mut t = Task::new(async move {
                        let _ = hd.set_decode_level(level).await;
                        hd
                    });
                    crate::sim::run_until_quiescent(&mut [&mut t, &mut h.task], POLL_BUDGET);
                    h.handle = t.output.take();
                }
            }
        }
        let obs = h.deliver_and_observe(chunk);
        written.extend(obs.written.concat());
        calls.extend(obs.calls);
        if let Some(p) = obs.panicked {
            out.push(("panic".into(), format!("server session panicked: {p}")));
            return out;
        }
        if obs.budget_exceeded {
            out.push(("busy-loop".into(), "poll budget exceeded".into()));
            return out;
        }
        if !exp.output.starts_with(&written) {
            out.push((
                "output-not-a-prefix".into(),
                format!("after a chunk the output {} is not a prefix of the expected {}", hex(&written), hex(&exp.output)),
            ));
            return out;
        }
    }
    if written != exp.output {
        out.push((
            "stream-output".into(),
            format!("{} frames expected; output {} expected {}", exp.frames, hex(&written), hex(&exp.output)),
        ));
    }
    let non_reads: Vec<&Call> = calls.iter().filter(|c| !c.is_read()).collect();
    let exp_calls: Vec<&Call> = exp.calls.iter().collect();
    if non_reads != exp_calls {
        out.push((
            "stream-handler-calls".into(),
            format!("expected {} got {}", trunc(&format!("{exp_calls:?}")), trunc(&format!("{non_reads:?}"))),
        ));
    }
    for c in calls.iter() {
        if let Call::Read { unit, table, addr } = c {
            if !exp.scopes.iter().any(|(u, t, s, n)| unit == u && table == t && addr >= s && (*addr as u32) < *s as u32 + *n as u32) {
                out.push(("stream-read-out-of-scope".into(), format!("{c:?}")));
                break;
            }
        }
    }
    match exp.end {
        StreamEnd::Error(at) => {
            if !h.task.is_done() {
                out.push((
                    "framing-error-not-fatal".into(),
                    format!("framing error at offset {at} did not end the session"),
                ));
            }
        }
        StreamEnd::NeedMore(_) => {
            if h.task.is_done() {
                out.push((
                    "session-ended-on-valid-stream".into(),
                    format!("session ended with {:?}", h.task.output),
                ));
            } else if tail != Tail::None {
                tail.inject(&h.io);
                let ok = h.settle();
                let end = h.task.output.as_ref().map(|e| format!("{e:?}"));
                if !ok {
                    out.push(("busy-loop".into(), "poll budget exceeded after the transport failed".into()));
                } else if let Some(p) = &h.task.panicked {
                    out.push(("panic".into(), format!("panic after the transport failed: {p}")));
                } else if end != Some(format!("Io({})", tail.io_class())) {
                    out.push(("transport-failure-end".into(), format!("after {tail:?} the session state is {end:?}")));
                }
                if !h.io.take_written_flat().is_empty() {
                    out.push(("output-after-transport-failure".into(), "bytes written after the transport failed".into()));
                }
            } else if check_shutdown {
                // the session must still honour shutdown
                let handle = h.handle.take().unwrap();
                let mut t = Task::new(async move {
                    let _ = handle.shutdown().await;
                });
                let ok = crate::sim::run_until_quiescent(&mut [&mut t, &mut h.task], POLL_BUDGET).is_some();
                if !ok || !h.task.is_done() {
                    out.push(("shutdown-ignored".into(), "session did not end after shutdown".into()));
                }
                if let Some(p) = &h.task.panicked {
                    out.push(("panic".into(), format!("panic during shutdown: {p}")));
                }
            }
        }
    }
    out
}

fn dense_cfg(rtu: bool, decode: (u8, u8, u8)) -> ServerCfg {
    ServerCfg { rtu, units: vec![(1, AppSpec::dense())], auth: None, decode }
}

fn mbap_items() -> Vec<(&'static str, Vec<u8>)> {
    let filler: Vec<u8> = (0..252).map(|i| (i as u8).wrapping_mul(3)).collect();
    let mut big_unknown = vec![0x41u8];
    big_unknown.extend(&filler);
    let coils1968 = write_multi_pdu(15, 0, 1968, 246, &filler[..246]);
    vec![
        ("read", mbap_frame(0x0001, 1, &read_pdu(3, 0, 3))),
        ("write-multi", mbap_frame(0x0002, 1, &write_multi_pdu(16, 4, 3, 6, &[0, 1, 0, 2, 0, 3]))),
        ("max-size", mbap_frame(0xFFFF, 1, &big_unknown)),
        ("max-write", mbap_frame(0x7FFF, 1, &coils1968)),
        ("empty-pdu", mbap_frame(0x0003, 1, &[])),
        ("malformed-pdu", mbap_frame(0x0004, 1, &read_pdu(1, 0, 0))),
        ("unknown-function", mbap_frame(0x0005, 1, &[0x2B, 0x0E])),
        ("other-unit", mbap_frame(0x0006, 9, &read_pdu(3, 0, 3))),
        ("proto-1", mbap_raw(0x0007, 1, 6, 1, &read_pdu(3, 0, 3))),
        ("proto-ffff", mbap_raw(0x0008, 0xFFFF, 6, 1, &read_pdu(3, 0, 3))),
        ("length-0", mbap_raw(0x0009, 0, 0, 1, &[3, 0])),
        ("length-255", mbap_raw(0x000A, 0, 255, 1, &[3, 0, 0, 0, 1])),
        ("length-ffff", mbap_raw(0x000B, 0, 0xFFFF, 1, &[3])),
        ("partial-frame", mbap_frame(0x000C, 1, &read_pdu(3, 0, 3))[..9].to_vec()),
        ("partial-header", mbap_frame(0x000D, 1, &read_pdu(3, 0, 3))[..5].to_vec()),
    ]
}

fn for_each_stream(items: &[(&'static str, Vec<u8>)], max_items: usize, f: &mut dyn FnMut(&[usize], Vec<u8>)) {
    fn rec(items: &[(&'static str, Vec<u8>)], max: usize, idx: &mut Vec<usize>, f: &mut dyn FnMut(&[usize], Vec<u8>)) {
        if !idx.is_empty() {
            let s: Vec<u8> = idx.iter().flat_map(|i| items[*i].1.clone()).collect();
            f(idx, s);
        }
        if idx.len() == max {
            return;
        }
        for i in 0..items.len() {
            idx.push(i);
            rec(items, max, idx, f);
            idx.pop();
        }
    }
    rec(items, max_items, &mut vec![], f);
}

pub fn server_stream_job(
    prop: &str,
    cfg: &ServerCfg,
    label: &str,
    stream: &[u8],
    bound: ChunkBound,
    st: &mut Stats,
) {
    let exp = server_expect(cfg, stream);
    if !exp.unambiguous {
        st.class("skipped-ambiguous");
        return;
    }
    st.class(match exp.end {
        StreamEnd::Error(_) => "stream-ends-in-framing-error",
        StreamEnd::NeedMore(0) => "stream-complete",
        StreamEnd::NeedMore(_) => "stream-ends-mid-frame",
    });
    st.state(&(exp.frames, &exp.end, exp.output.len()));
    let mut first_failure: Option<Vec<usize>> = None;
    let mut n = 0u64;
    for_each_chunking(stream.len(), &exp.boundaries, bound, &mut |cuts| {
        if first_failure.is_some() {
            return;
        }
        n += 1;
        let describe = || ("server-stream".to_string(), format!("stream [{label}] cuts {cuts:?}"), json!({"kind": "server-stream", "cfg": cfg, "stream": to_hex(stream), "cuts": cuts}));
        let problems = crate::sim::watchdog::guard(&describe, || run_server_stream(cfg, stream, cuts, &exp, n % 16 == 1));
        st.observe(&(stream.len(), cuts.len(), cuts.first().copied(), problems.len()));
        if !problems.is_empty() {
            first_failure = Some(cuts.to_vec());
            for (sig, desc) in problems {
                st.violation(Violation {
                    signature: sig,
                    summary: format!("{} stream [{label}] ({} bytes) cuts {:?}: {desc}", if cfg.rtu { "RTU" } else { "TCP" }, stream.len(), cuts),
                    replay: json!({"kind": "server-stream", "cfg": cfg, "stream": to_hex(stream), "cuts": cuts}),
                });
            }
        }
    });
    st.evaluations += n;
    st.transitions += n;
    st.traces += n;
    if st.traces % 7 == 0 {
        st.sample(json!({"role": "server", "rtu": cfg.rtu, "stream_items": label, "bytes": stream.len(), "chunkings": n}));
    }
}

/// C02: requests pipelined in one delivery - a small request, then a maximum-size write (and the
/// other way round, and three in a row): what the write handler receives must be what was sent
pub fn pipelined_write_streams(rtu: bool) -> Vec<(String, Vec<u8>)> {
    let coil_bytes: Vec<u8> = (0..246).map(|i| (i as u8).wrapping_mul(7).wrapping_add(1)).collect();
    let reg_bytes: Vec<u8> = (0..246).map(|i| (i as u8).wrapping_mul(5).wrapping_add(3)).collect();
    let small: Vec<(&str, Vec<u8>)> = vec![("read", read_pdu(3, 0, 3)), ("write-reg", vec![6, 0, 9, 0xAB, 0xCD]), ("write-3-regs", write_multi_pdu(16, 4, 3, 6, &[0xA1, 0xA2, 0xA3, 0xA4, 0xA5, 0xA6]))];
    let big: Vec<(&str, Vec<u8>)> = vec![
        ("write-1968-coils", write_multi_pdu(15, 0, 1968, 246, &coil_bytes)),
        ("write-123-regs", write_multi_pdu(16, 0, 123, 246, &reg_bytes)),
        ("write-1000-coils", write_multi_pdu(15, 7, 1000, 125, &coil_bytes[..125])),
        ("write-60-regs", write_multi_pdu(16, 2, 60, 120, &reg_bytes[..120])),
    ];
    let mut tx = 0x2000u16;
    let mut fr = |p: &Vec<u8>| {
        tx += 1;
        if rtu {
            rtu_frame(1, p)
        } else {
            mbap_frame(tx, 1, p)
        }
    };
    let mut out = vec![];
    for (sn, sp) in &small {
        for (bn, bp) in &big {
            out.push((format!("{sn}+{bn}"), [fr(sp), fr(bp)].concat()));
            out.push((format!("{bn}+{sn}"), [fr(bp), fr(sp)].concat()));
            out.push((format!("{sn}+{bn}+{sn}"), [fr(sp), fr(bp), fr(sp)].concat()));
        }
    }
    for (bn, bp) in &big {
        for (cn, cp) in &big {
            out.push((format!("{bn}+{cn}"), [fr(bp), fr(cp)].concat()));
        }
    }
    out
}

/// every single cut of the stream with a (no-op) server command processed by the session between
/// the two reads: what the session does between two reads must not influence framing
pub fn server_stream_job_with_command(prop: &str, cfg: &ServerCfg, label: &str, stream: &[u8], st: &mut Stats) {
    let exp = server_expect(cfg, stream);
    if !exp.unambiguous {
        return;
    }
    for c in 1..stream.len() {
        let cuts = [c];
        st.evaluations += 1;
        st.traces += 1;
        st.transitions += 2;
        st.class("command-between-reads");
        let describe = || ("server-stream-command".to_string(), format!("stream [{label}] cut {c}"), json!({"kind": "server-stream-command", "property": prop, "cfg": cfg, "stream": to_hex(stream), "cuts": cuts}));
        let problems = crate::sim::watchdog::guard(&describe, || run_server_stream_inject(cfg, stream, &cuts, &exp, false, Tail::None, Some((0, cfg.decode))));
        st.observe(&(label.to_string(), c, problems.len()));
        if let Some((sig, desc)) = problems.first() {
            st.violation(Violation {
                signature: format!("command-between-reads:{sig}"),
                summary: format!("{} stream [{label}] ({} bytes) cut at {c} with a server command between the two reads: {desc}", if cfg.rtu { "RTU" } else { "TCP" }, stream.len()),
                replay: json!({"kind": "server-stream-command", "property": prop, "cfg": cfg, "stream": to_hex(stream), "cuts": cuts}),
            });
            return;
        }
    }
}

pub fn replay_server_stream_command(v: &serde_json::Value) -> Vec<(String, String)> {
    let cfg: ServerCfg = serde_json::from_value(v["cfg"].clone()).unwrap();
    if v["kind"] == "c07-rtu-reopen" {
        let level: (u8, u8, u8) = serde_json::from_value(v["level"].clone()).unwrap();
        return rtu_server_reopen_case(level, &from_hex(v["stream"].as_str().unwrap())).1;
    }
    let stream = from_hex(v["stream"].as_str().unwrap());
    let cuts: Vec<usize> = v["cuts"].as_array().unwrap().iter().map(|x| x.as_u64().unwrap() as usize).collect();
    let exp = server_expect(&cfg, &stream);
    run_server_stream_inject(&cfg, &stream, &cuts, &exp, false, Tail::None, Some((0, cfg.decode)))
}

pub fn replay_server_stream(v: &serde_json::Value) -> Vec<(String, String)> {
    let cfg: ServerCfg = serde_json::from_value(v["cfg"].clone()).unwrap();
    let stream = from_hex(v["stream"].as_str().unwrap());
    let cuts: Vec<usize> = v["cuts"].as_array().unwrap().iter().map(|x| x.as_u64().unwrap() as usize).collect();
    let exp = server_expect(&cfg, &stream);
    run_server_stream(&cfg, &stream, &cuts, &exp, true)
}

// ---------------------------------------------------------------------------------------------
// client role: one outstanding request, a reply stream, then a sentinel transaction
// ---------------------------------------------------------------------------------------------

#[derive(Clone, Debug, PartialEq, Eq, Hash)]
pub enum ClientExpect {
    /// the request completes with this decoded reply; session continues unless `then_error`
    Completes(ReplyDecode, bool),
    /// a framing error arrives before any matching frame: request fails with a framing error,
    /// session ends
    FramingError,
    /// nothing matching arrives: request stays outstanding (until its deadline)
    Pending,
}

pub fn client_expect(rtu: bool, req: &Req, tx: u16, stream: &[u8]) -> (ClientExpect, Vec<usize>) {
    let (frames, end) = if rtu { parse_rtu_stream(RtuRole::Response, stream) } else { parse_mbap_stream(stream) };
    let mut boundaries = vec![];
    let mut pos = 0;
    for f in &frames {
        pos += if rtu { f.pdu.len() + 3 } else { f.pdu.len() + 7 };
        boundaries.push(pos);
    }
    let hit = frames.iter().position(|f| rtu || f.tx == Some(tx));
    let e = match hit {
        Some(i) => ClientExpect::Completes(decode_reply(req, &frames[i].pdu), matches!(end, StreamEnd::Error(_))),
        None => match end {
            StreamEnd::Error(_) => ClientExpect::FramingError,
            StreamEnd::NeedMore(_) => ClientExpect::Pending,
        },
    };
    (e, boundaries)
}

pub fn run_client_stream(rtu: bool, req: &Req, stream: &[u8], cuts: &[usize], decode: DecodeLevel) -> Vec<(String, String)> {
    run_client_stream_tail(rtu, req, stream, cuts, decode, Tail::None, false)
}

pub fn run_client_stream_tail(
    rtu: bool,
    req: &Req,
    stream: &[u8],
    cuts: &[usize],
    decode: DecodeLevel,
    tail: Tail,
    check_shutdown: bool,
) -> Vec<(String, String)> {
    let mut out = vec![];
    let unit = 1u8;
    let mut h = ClientSessionHarness::new(rtu, decode, None, 16);
    h.settle();
    let id = match h.submit(req, unit, 1000, Style::Future) {
        Ok(id) => id,
        Err(e) => return vec![("MACHINERY:request-rejected".into(), format!("{e:?}"))],
    };
    h.settle();
    let tx = 0u16;
    let sent = h.io.take_written_flat();
    let want = if rtu { rtu_frame(unit, &encode_request(req)) } else { mbap_frame(tx, unit, &encode_request(req)) };
    if sent != want {
        return vec![("MACHINERY:unexpected-request-frame".into(), hex(&sent))];
    }
    let (exp, _) = client_expect(rtu, req, tx, stream);
    for chunk in split(stream, cuts) {
        h.io.deliver(chunk);
        if !h.settle() {
            return vec![("busy-loop".into(), "poll budget exceeded".into())];
        }
        if let Some(p) = &h.task.panicked {
            return vec![("panic".into(), format!("client task panicked: {p}"))];
        }
    }
    let mut exp = exp;
    if tail != Tail::None && !h.task.is_done() {
        tail.inject(&h.io);
        if !h.settle() {
            return vec![("busy-loop".into(), "poll budget exceeded after the transport failed".into())];
        }
        if let Some(p) = &h.task.panicked {
            return vec![("panic".into(), format!("client task panicked after the transport failed: {p}"))];
        }
        let end = h.task.output.map(|e| format!("{e:?}"));
        if end != Some(format!("Io({})", tail.io_class())) {
            out.push(("transport-failure-end".into(), format!("after {tail:?} the session state is {end:?}")));
        }
        if exp == ClientExpect::Pending {
            let done = h.take_done();
            match done.iter().find(|d| d.0 == id).map(|d| d.1.clone()) {
                Some(Outcome::Err(ErrClass::Io(k))) if k == tail.io_class() => {}
                other => out.push(("transport-failure-result".into(), format!("after {tail:?} the outstanding request has {other:?}"))),
            }
            return out;
        }
        if let ClientExpect::Completes(d, _) = &exp {
            exp = ClientExpect::Completes(d.clone(), true);
        }
    }
    let done = h.take_done();
    let got = done.iter().find(|d| d.0 == id).map(|d| d.1.clone());
    if done.len() > 1 {
        out.push(("completed-twice".into(), format!("{done:?}")));
    }
    let extra = h.io.take_written_flat();
    if !extra.is_empty() {
        out.push(("unsolicited-transmission".into(), hex(&extra)));
    }
    match &exp {
        ClientExpect::Completes(dec, then_error) => {
            let good = match (dec, &got) {
                (ReplyDecode::Ok(v), Some(Outcome::Ok(g))) => v == g,
                (ReplyDecode::OkLenient(v), Some(Outcome::Ok(g))) => v == g,
                (ReplyDecode::OkLenient(_), Some(Outcome::Err(e))) => !matches!(e, ErrClass::Exception(_)),
                (ReplyDecode::Exception(c), Some(Outcome::Err(ErrClass::Exception(g)))) => c == g,
                (ReplyDecode::Other, Some(Outcome::Err(e))) => !matches!(e, ErrClass::Exception(_)),
                _ => false,
            };
            if !good {
                out.push((
                    "client-stream-result".into(),
                    format!("expected {} got {}", trunc(&format!("{dec:?}")), trunc(&format!("{got:?}"))),
                ));
            }
            if *then_error {
                if !h.task.is_done() {
                    out.push(("framing-error-not-fatal".into(), "framing error after the reply did not end the session".into()));
                }
            } else if h.task.is_done() {
                out.push(("session-ended-on-valid-stream".into(), format!("{:?}", h.task.output)));
            }
        }
        ClientExpect::FramingError => {
            match &got {
                Some(Outcome::Err(ErrClass::BadFrame)) => {}
                other => out.push(("framing-error-result".into(), format!("expected a framing error, got {other:?}"))),
            }
            if !h.task.is_done() {
                out.push(("framing-error-not-fatal".into(), "session still running after a framing error".into()));
            }
        }
        ClientExpect::Pending => {
            if got.is_some() {
                out.push(("completed-without-matching-reply".into(), format!("{got:?}")));
            }
            if h.task.is_done() {
                out.push(("session-ended-on-valid-stream".into(), format!("{:?}", h.task.output)));
            }
        }
    }
    if check_shutdown && out.is_empty() && !h.task.is_done() {
        // the task must still honour shutdown (after the outstanding transaction, if any, times out)
        let ch = h.channel.clone().unwrap();
        let mut t = Task::new(async move {
            let _ = ch.shutdown().await;
        });
        t.poll_if_woken();
        h.settle();
        if !h.task.is_done() {
            crate::sim::advance(1000);
            h.settle();
        }
        t.poll_if_woken();
        if !h.task.is_done() {
            out.push(("shutdown-ignored".into(), "client task did not end after shutdown".into()));
        }
        if let Some(p) = &h.task.panicked {
            out.push(("panic".into(), format!("panic during shutdown: {p}")));
        }
        return out;
    }
    // sentinel: bytes after the reply were neither lost nor re-read
    if out.is_empty() && !h.task.is_done() && matches!(exp, ClientExpect::Completes(..)) {
        let (end_rest, _) = {
            let (_, end) = if rtu { parse_rtu_stream(RtuRole::Response, stream) } else { parse_mbap_stream(stream) };
            (end, 0)
        };
        // only when the stream ended on a frame boundary (otherwise a partial frame is legitimately buffered)
        if end_rest == StreamEnd::NeedMore(0) {
            let sreq = Req::ReadRegs { fc: 3, start: 9, count: 2 };
            let sid = h.submit(&sreq, unit, 1000, Style::Future).unwrap();
            h.settle();
            let sent = h.io.take_written_flat();
            let want = if rtu { rtu_frame(unit, &encode_request(&sreq)) } else { mbap_frame(1, unit, &encode_request(&sreq)) };
            if sent != want {
                out.push(("sentinel-request-frame".into(), hex(&sent)));
            } else {
                let (rp, vals) = good_reply(&sreq);
                h.io.deliver(&if rtu { rtu_frame(unit, &rp) } else { mbap_frame(1, unit, &rp) });
                h.settle();
                let d = h.take_done();
                match d.iter().find(|x| x.0 == sid) {
                    Some((_, Outcome::Ok(v), _)) if *v == vals => {}
                    other => out.push(("sentinel-failed".into(), format!("{:?}", other.map(|x| &x.1)))),
                }
            }
        }
    }
    out
}

fn client_stream_job(prop: &str, rtu: bool, req: &Req, label: &str, stream: &[u8], bound: ChunkBound, st: &mut Stats) {
    let (exp, boundaries) = client_expect(rtu, req, 0, stream);
    st.class(match &exp {
        ClientExpect::Completes(ReplyDecode::Ok(_), _) | ClientExpect::Completes(ReplyDecode::OkLenient(_), _) => "client-accepts",
        ClientExpect::Completes(ReplyDecode::Exception(_), _) => "client-exception",
        ClientExpect::Completes(ReplyDecode::Other, _) => "client-rejects-reply",
        ClientExpect::FramingError => "client-framing-error",
        ClientExpect::Pending => "client-still-waiting",
    });
    st.state(&exp);
    let mut failed = false;
    let mut n = 0u64;
    for_each_chunking(stream.len(), &boundaries, bound, &mut |cuts| {
        if failed {
            return;
        }
        n += 1;
        let describe = || ("client-stream".to_string(), format!("client stream [{label}] cuts {cuts:?}"), json!({"kind": "client-stream", "property": prop, "rtu": rtu, "req": crate::checks::client_codec::req_to_json(req), "stream": to_hex(stream), "cuts": cuts}));
        let problems = crate::sim::watchdog::guard(&describe, || run_client_stream(rtu, req, stream, cuts, DecodeLevel::nothing()));
        st.observe(&(stream.len(), cuts.len(), cuts.first().copied(), problems.len()));
        if !problems.is_empty() {
            failed = true;
            for (sig, desc) in problems {
                st.violation(Violation {
                    signature: sig,
                    summary: format!("{} client stream [{label}] ({} bytes) cuts {:?}: {desc}", if rtu { "RTU" } else { "TCP" }, stream.len(), cuts),
                    replay: json!({"kind": "client-stream", "property": prop, "rtu": rtu, "req": crate::checks::client_codec::req_to_json(req), "stream": to_hex(stream), "cuts": cuts}),
                });
            }
        }
    });
    st.evaluations += n;
    st.transitions += n;
    st.traces += n;
    if st.traces % 5 == 0 {
        st.sample(json!({"role": "client", "rtu": rtu, "stream_items": label, "bytes": stream.len(), "chunkings": n}));
    }
}

pub fn replay_client_stream(v: &serde_json::Value) -> Vec<(String, String)> {
    let rtu = v["rtu"].as_bool().unwrap();
    let req = crate::checks::client_codec::req_from_json(&v["req"]);
    let stream = from_hex(v["stream"].as_str().unwrap());
    let cuts: Vec<usize> = v["cuts"].as_array().unwrap().iter().map(|x| x.as_u64().unwrap() as usize).collect();
    run_client_stream(rtu, &req, &stream, &cuts, DecodeLevel::nothing())
}

fn mbap_reply_items(req: &Req) -> Vec<(&'static str, Vec<u8>)> {
    let (good, _) = good_reply(req);
    let big: Vec<u8> = std::iter::once(req.fc()).chain((0..252).map(|i| i as u8)).collect();
    vec![
        ("genuine", mbap_frame(0, 1, &good)),
        ("stale", mbap_frame(0xFFFF, 1, &good)),
        ("future", mbap_frame(1, 1, &good)),
        ("far", mbap_frame(0x8000, 1, &good)),
        ("exception", mbap_frame(0, 1, &[req.fc() | 0x80, 2])),
        ("bad-pdu", mbap_frame(0, 1, &[req.fc()])),
        ("max-size-stale", mbap_frame(0x1234, 1, &big)),
        ("empty-pdu-stale", mbap_frame(7, 1, &[])),
        ("proto-1", mbap_raw(0, 1, 5, 1, &good[..good.len().min(4)])),
        ("length-0", mbap_raw(0, 0, 0, 1, &[])),
        ("length-255", mbap_raw(0, 0, 255, 1, &[1, 2, 3])),
    ]
}

pub fn check_c05(tier: &str) -> i32 {
    let mut rep = Report::new(
        "C05",
        tier,
        "model_checking",
        "byte streams = all concatenations of <= N items from a 13-item (server role) / 11-item (client role) library of valid and invalid MBAP frames; each stream is delivered to a fresh production session under every chunking in the bound (baseline, every uniform chunk size, all placements of <= K cuts, all 2^(n-1) partitions of short streams); output, handler calls, request result and session end are compared with a stream-level reference framer + reference server / reply decoder; a sentinel transaction proves no byte was lost or re-read; plus every one of the 65,536 values of the length field and of the protocol id in both roles. states = distinct reference outcomes of streams",
    );
    let thorough = rep.thorough();
    let max_items = if thorough { 3 } else { 2 };
    let bound = ChunkBound {
        uniform: true,
        max_cuts: 2,
        full_cuts_up_to: if thorough { 300 } else { 40 },
        all_partitions_up_to: if thorough { 16 } else { 12 },
    };
    rep.bounds = json!({"max_items": max_items, "max_cuts": bound.max_cuts, "full_cut_positions_up_to_bytes": bound.full_cuts_up_to, "all_partitions_up_to_bytes": bound.all_partitions_up_to, "uniform_sizes": "1..len"});
    let cfg = dense_cfg(false, (0, 0, 0));
    // server role
    let items = mbap_items();
    let mut streams: Vec<(String, Vec<u8>)> = vec![];
    for_each_stream(&items, max_items, &mut |idx, s| {
        // items after a framing error are dead bytes: keep streams whose error item (if any) is last or second to last
        let first_err = idx.iter().position(|i| *i >= 8);
        if let Some(p) = first_err {
            if p + 2 < idx.len() {
                return;
            }
        }
        streams.push((idx.iter().map(|i| items[*i].0).collect::<Vec<_>>().join("+"), s));
    });
    // a few short hand-made streams that get all partitions
    streams.push(("short-read".into(), mbap_frame(0x0102, 1, &read_pdu(3, 0, 1))));
    streams.push(("short-empty+read".into(), [mbap_frame(1, 1, &[]), mbap_frame(2, 1, &[7])].concat()));
    let st = parallel(streams.len(), |i, st| {
        server_stream_job("C05", &cfg, &streams[i].0, &streams[i].1, bound, st);
    });
    rep.phase("server role", st, json!({"streams": streams.len()}));
    let short: Vec<&(String, Vec<u8>)> = streams.iter().filter(|s| s.1.len() <= 300).collect();
    let st = parallel(short.len(), |i, st| {
        server_stream_job_with_command("C05", &cfg, &short[i].0, &short[i].1, st);
    });
    rep.phase("server role: a server command between two reads", st, json!({"streams": short.len()}));
    // client role
    let req = Req::ReadRegs { fc: 3, start: 0, count: 2 };
    let citems = mbap_reply_items(&req);
    let mut cstreams: Vec<(String, Vec<u8>)> = vec![];
    for_each_stream(&citems, max_items, &mut |idx, s| {
        let first_err = idx.iter().position(|i| *i >= 8);
        if let Some(p) = first_err {
            if p + 1 < idx.len() {
                return;
            }
        }
        cstreams.push((idx.iter().map(|i| citems[*i].0).collect::<Vec<_>>().join("+"), s));
    });
    let st = parallel(cstreams.len(), |i, st| {
        client_stream_job("C05", false, &req, &cstreams[i].0, &cstreams[i].1, bound, st);
    });
    rep.phase("client role", st, json!({"streams": cstreams.len()}));
    // a transport that takes only 1 / 7 bytes per write call: replies must come out whole and in order
    let st = parallel(short.len(), |i, st| {
        let (label, stream) = short[i];
        let exp = server_expect(&cfg, stream);
        if !exp.unambiguous {
            return;
        }
        for k in [1usize, 7] {
            for lenient in [false, true] {
                let exp = if lenient { server_expect_with(&cfg, stream, true) } else { server_expect(&cfg, stream) };
                let mut h = ServerHarness::new(&cfg);
                h.io.set_write_mode(WriteMode::AcceptAtMost(k));
                h.settle();
                let obs = h.deliver_and_observe(stream);
                let written: Vec<u8> = obs.written.concat();
                let ok = obs.panicked.is_none() && !obs.budget_exceeded && written == exp.output;
                if lenient && !ok {
                    // neither reading of the byte-count field explains the output
                    st.violation(Violation {
                        signature: "short-writes:stream-output".into(),
                        summary: format!("TCP stream [{label}] over a transport taking {k} bytes per write: output {} expected {} (panic {:?})", hex(&written), hex(&exp.output), obs.panicked),
                        replay: json!({"kind": "server-stream", "cfg": cfg, "stream": to_hex(stream), "cuts": []}),
                    });
                }
                if ok {
                    break;
                }
            }
            st.evaluations += 1;
            st.traces += 1;
            st.class("server-short-writes");
            st.observe(&(label.clone(), k));
        }
    });
    rep.phase("server role: transport that takes 1 or 7 bytes per write call", st, json!({"streams": short.len()}));
    // every value of the header fields: all 65,536 length fields and all protocol ids, both roles.
    // The frame carries as many body bytes as a correct reader takes for that length (length - 1,
    // at most 253) followed by a valid sentinel frame, so a reader that misjudges the length either
    // loses the sentinel or answers garbage
    let minimal = ChunkBound { uniform: false, max_cuts: 0, full_cuts_up_to: 0, all_partitions_up_to: 0 };
    let st = parallel(256, |hi, st| {
        for lo in 0..256usize {
            let v = ((hi << 8) | lo) as u16;
            let body_len = if (1..=254).contains(&v) { v as usize - 1 } else { 5 };
            let mut body = read_pdu(3, 0, 2);
            body.resize(body_len.max(0), 0);
            if body_len >= 5 {
                // still a read request when long enough (longer bodies are malformed PDUs, answered with an exception)
                body[..5].copy_from_slice(&read_pdu(3, 0, 2));
            }
            let sentinel = mbap_frame(0x7E7E, 1, &read_pdu(4, 1, 1));
            // (a) length field = v
            let mut stream = mbap_raw(0x0101, 0, v, 1, &body);
            stream.extend_from_slice(&sentinel);
            server_stream_job("C05", &cfg, &format!("length-field-{v:#06x}+sentinel"), &stream, minimal, st);
            // (b) protocol id = v
            let mut stream = mbap_raw(0x0101, v, 6, 1, &read_pdu(3, 0, 2));
            stream.extend_from_slice(&sentinel);
            server_stream_job("C05", &cfg, &format!("protocol-id-{v:#06x}+sentinel"), &stream, minimal, st);
            // client role: the reply to the outstanding request with that length field / protocol id
            let (good, _) = good_reply(&req);
            let mut rbody = good.clone();
            let rlen = if (1..=254).contains(&v) { v as usize - 1 } else { good.len() };
            rbody.resize(rlen, 0);
            let stream = mbap_raw(0, 0, v, 1, &rbody);
            client_stream_job("C05", false, &req, &format!("reply-length-field-{v:#06x}"), &stream, minimal, st);
            let stream = mbap_raw(0, v, (good.len() + 1) as u16, 1, &good);
            client_stream_job("C05", false, &req, &format!("reply-protocol-id-{v:#06x}"), &stream, minimal, st);
        }
    });
    rep.phase("all values of the length field and of the protocol id, both roles", st, json!({"values": 65536}));
    // connection boundary: the byte stream the property quantifies over is per connection. A
    // reply (or an unsolicited frame) cut off at every position by a reset / EOF, then a fresh
    // connection on which an honest exchange must work
    let st = {
        use crate::checks::client_sm::{run_path, SmCfg};
        use crate::refmodel::client::{Ev, MStyle};
        let cfg = SmCfg { cap: 16, max_timeouts: None, retry_min: 3, retry_max: 12, handles: 1, decode: (0, 0, 0) };
        let submit = Ev::Submit { handle: 0, style: MStyle::Future, timeout_ms: 50 };
        let mut paths: Vec<Vec<Ev>> = vec![];
        for n in 1..=12usize {
            for end in [Ev::ReadError, Ev::Eof] {
                // a reply to an outstanding request cut after n bytes
                paths.push(vec![Ev::Enable(0), Ev::ConnectOk, submit.clone(), Ev::ReplyPartial(n), end.clone(), Ev::AdvanceToNext, Ev::ConnectOk, submit.clone(), Ev::ReplyOk, submit.clone(), Ev::ReplyOk]);
                // an unsolicited frame cut after n bytes while idle
                paths.push(vec![Ev::Enable(0), Ev::ConnectOk, Ev::ReplyPartial(n), end.clone(), Ev::AdvanceToNext, Ev::ConnectOk, submit.clone(), Ev::ReplyOk]);
                // a complete stale frame followed by a partial one, then the boundary
                paths.push(vec![Ev::Enable(0), Ev::ConnectOk, submit.clone(), Ev::ReplyStale(1), Ev::ReplyPartial(n), end, Ev::AdvanceToNext, Ev::ConnectOk, submit.clone(), Ev::ReplyOk]);
            }
        }
        // a reply that straddles its request's deadline: the request times out, the rest of the frame
        // arrives afterwards and is still the rest of *that* frame (then discarded by its id)
        for n in 1..=12usize {
            let short = Ev::Submit { handle: 0, style: MStyle::Future, timeout_ms: 5 };
            paths.push(vec![Ev::Enable(0), Ev::ConnectOk, short.clone(), Ev::ReplyPartial(n), Ev::AdvanceToNext, Ev::ReplyRest, submit.clone(), Ev::ReplyOk]);
            paths.push(vec![Ev::Enable(0), Ev::ConnectOk, short.clone(), Ev::ReplyPartial(n), Ev::AdvanceToNext, submit.clone(), Ev::ReplyRest, Ev::ReplyOk]);
        }
        // a handle call (or a second request) processed by the client task between two reads of one
        // frame: the frame boundary must not move (the idle client selects between the reader and
        // its command queue, so the read is cancelled and resumed)
        for n in 1..=12usize {
            for cmd in [Ev::SetDecode(0), Ev::Enable(0)] {
                paths.push(vec![Ev::Enable(0), Ev::ConnectOk, Ev::ReplyPartial(n), cmd.clone(), Ev::ReplyRest, submit.clone(), Ev::ReplyOk]);
                paths.push(vec![Ev::Enable(0), Ev::ConnectOk, submit.clone(), Ev::ReplyPartial(n), cmd.clone(), Ev::ReplyRest, submit.clone(), Ev::ReplyOk]);
            }
            paths.push(vec![Ev::Enable(0), Ev::ConnectOk, submit.clone(), Ev::ReplyPartial(n), submit.clone(), Ev::ReplyRest, Ev::ReplyOk]);
            paths.push(vec![Ev::Enable(0), Ev::ConnectOk, Ev::ReplyPartial(n), submit.clone(), Ev::ReplyRest, Ev::ReplyOk]);
        }
        parallel(paths.len(), |i, st| {
            let r = run_path(&cfg, &paths[i]);
            st.evaluations += 1;
            st.traces += 1;
            st.transitions += paths[i].len() as u64;
            st.class("connection-boundary");
            st.state(&r.model);
            st.observe(&r.obs);
            if i % 17 == 0 {
                st.sample(json!({"role": "client", "connection_boundary_path": format!("{:?}", paths[i])}));
            }
            for p in &r.problems {
                st.violation(Violation {
                    signature: format!("connection-boundary:{}", p.sig),
                    summary: format!("path {:?} step {}: {}", paths[i], p.step, p.desc),
                    replay: json!({"kind": "client-sm", "property": "C05", "cfg": cfg, "events": paths[i], "aspects": "CWTLDP"}),
                });
            }
        })
    };
    rep.phase("client role: stream cut by the end of a connection (honest exchange on the next one) or interleaved with handle calls", st, json!({}));
    // over real sockets: the reply stream of the production server under back-pressure (the
    // transport arms of `PhysLayer::write` for TCP and TLS are not reached by the scripted transport)
    let st = crate::checks::sessions::backpressure_stream_phase(thorough, 4);
    rep.phase("production TCP / TLS server: reply stream to a peer that pipelines requests and reads slowly, in pieces", st, json!({"pipelined_requests": if thorough { 12000 } else { 2500 }, "cases": 16}));
    rep.require_class("reply-stream-under-back-pressure:tcp");
    rep.require_class("reply-stream-under-back-pressure:tls");
    for c in ["connection-boundary", "command-between-reads", "stream-complete", "stream-ends-in-framing-error", "stream-ends-mid-frame", "client-accepts", "client-framing-error", "client-still-waiting", "client-exception"] {
        rep.require_class(c);
    }
    rep.assumptions.push("the back-pressure phase over real sockets is a fixed set of 16 peer behaviours; where the kernel cuts a write is the kernel's choice and is not enumerated".into());
    rep.assumptions.push("a frame carrying a transaction id that has not been transmitted yet is never buffered before its request leaves (tokio's select! tie, excluded in DESIGN.md section 10)".into());
    rep.finish()
}

// ---------------------------------------------------------------------------------------------
// C06: RTU
// ---------------------------------------------------------------------------------------------

fn rtu_request_library() -> Vec<(&'static str, Vec<u8>)> {
    let wsc = |a: u16, v: u16| [&[5u8][..], &a.to_be_bytes(), &v.to_be_bytes()].concat();
    let wsr = |a: u16, v: u16| [&[6u8][..], &a.to_be_bytes(), &v.to_be_bytes()].concat();
    let data40: Vec<u8> = (0..32).map(|i| (i * 5 + 1) as u8).collect();
    let data246: Vec<u8> = (0..246).map(|i| (i * 7 + 3) as u8).collect();
    vec![
        ("read-coils", rtu_frame(1, &read_pdu(1, 0x10, 0x13))),
        ("read-discrete", rtu_frame(1, &read_pdu(2, 0, 8))),
        ("read-holding", rtu_frame(1, &read_pdu(3, 0x6B, 3))),
        ("read-input", rtu_frame(1, &read_pdu(4, 8, 1))),
        ("write-coil", rtu_frame(1, &wsc(0xAC, 0xFF00))),
        ("write-reg", rtu_frame(1, &wsr(1, 3))),
        ("write-coils", rtu_frame(1, &write_multi_pdu(15, 0x13, 10, 2, &[0xCD, 0x01]))),
        ("write-regs", rtu_frame(1, &write_multi_pdu(16, 1, 2, 4, &[0, 0x0A, 1, 2]))),
        ("write-regs-16", rtu_frame(1, &write_multi_pdu(16, 2, 16, 32, &data40))),
        ("write-coils-max", rtu_frame(1, &write_multi_pdu(15, 0, 1968, 246, &data246))),
        // broadcasts (address 0): the CRC covers the address byte like any other
        ("bcast-write-reg", rtu_frame(0, &wsr(2, 0x1234))),
        ("bcast-write-coils", rtu_frame(0, &write_multi_pdu(15, 3, 10, 2, &[0x55, 0x02]))),
        // and the highest ordinary unit id, where it is configured
        ("write-reg-unit-1-after-bcast", [rtu_frame(0, &wsr(4, 7)), rtu_frame(1, &wsr(5, 9))].concat()),
    ]
}

fn rtu_response_library() -> Vec<(&'static str, Req, Vec<u8>)> {
    let mk = |req: Req| {
        let (g, _) = good_reply(&req);
        (req, rtu_frame(1, &g))
    };
    let mut v = vec![];
    for (name, req) in [
        ("resp-read-coils", Req::ReadBits { fc: 1, start: 0x13, count: 0x13 }),
        ("resp-read-discrete", Req::ReadBits { fc: 2, start: 0, count: 8 }),
        ("resp-read-holding", Req::ReadRegs { fc: 3, start: 0x6B, count: 3 }),
        ("resp-read-input", Req::ReadRegs { fc: 4, start: 8, count: 1 }),
        ("resp-write-coil", Req::WriteSingleCoil { addr: 0xAC, value: true }),
        ("resp-write-reg", Req::WriteSingleReg { addr: 1, value: 3 }),
        ("resp-write-coils", Req::WriteMultiCoils { start: 0x13, values: vec![true; 10] }),
        ("resp-write-regs", Req::WriteMultiRegs { start: 1, values: vec![10, 258] }),
        ("resp-read-holding-125", Req::ReadRegs { fc: 3, start: 0, count: 125 }),
    ] {
        let (r, f) = mk(req);
        v.push((name, r, f));
    }
    let r = Req::ReadRegs { fc: 3, start: 0, count: 1 };
    v.push(("resp-exception", r.clone(), rtu_frame(1, &[0x83, 0x02])));
    v.push(("resp-exception-unknown", Req::WriteSingleCoil { addr: 1, value: false }, rtu_frame(1, &[0x85, 0x7F])));
    // the exception form of every function (its length is derived from the function byte)
    for (name, req) in [
        ("resp-exception-fc1", Req::ReadBits { fc: 1, start: 0, count: 3 }),
        ("resp-exception-fc2", Req::ReadBits { fc: 2, start: 0, count: 3 }),
        ("resp-exception-fc4", Req::ReadRegs { fc: 4, start: 0, count: 2 }),
        ("resp-exception-fc6", Req::WriteSingleReg { addr: 1, value: 3 }),
        ("resp-exception-fc15", Req::WriteMultiCoils { start: 1, values: vec![true, false] }),
        ("resp-exception-fc16", Req::WriteMultiRegs { start: 1, values: vec![10, 258] }),
    ] {
        let code = 1 + (req.fc() % 4);
        let f = rtu_frame(1, &[req.fc() | 0x80, code]);
        v.push((name, req, f));
    }
    v
}

/// error patterns: returns (description class, bit positions to flip) for a frame of n bytes
fn for_each_corruption(nbytes: usize, thorough: bool, f: &mut dyn FnMut(&'static str, &[usize])) {
    let nbits = nbytes * 8;
    // all single-bit errors
    for b in 0..nbits {
        f("1-bit", &[b]);
    }
    // all double-bit errors (short frames: all pairs; long frames: pairs within a 64-bit window + coarse pairs)
    if nbytes <= 13 || thorough && nbytes <= 48 {
        for a in 0..nbits {
            for b in a + 1..nbits {
                f("2-bit", &[a, b]);
            }
        }
    } else {
        for a in 0..nbits {
            for b in a + 1..(a + 64).min(nbits) {
                f("2-bit", &[a, b]);
            }
            for b in ((a + 64)..nbits).step_by(if thorough { 13 } else { 101 }) {
                f("2-bit", &[a, b]);
            }
        }
    }
    // all bursts of span 3..=16 bits that start and end with an error
    let max_inner: u32 = if thorough { 14 } else { 6 };
    for span in 3..=16usize {
        let inner = span - 2;
        let patterns: Vec<u32> = if inner as u32 <= max_inner {
            (0..(1u32 << inner)).collect()
        } else {
            // bounded: all-zero, all-one, alternating, single inner bit
            let mut p = vec![0u32, (1u32 << inner) - 1, 0x5555_5555 & ((1u32 << inner) - 1), 0xAAAA_AAAA & ((1u32 << inner) - 1)];
            for i in 0..inner {
                p.push(1 << i);
            }
            p
        };
        let offsets: Vec<usize> = if nbytes <= 13 || thorough && nbytes <= 48 {
            (0..=nbits - span).collect()
        } else {
            (0..=nbits - span).step_by(if thorough { 3 } else { 29 }).collect()
        };
        for off in offsets {
            for p in &patterns {
                let mut bits = vec![off];
                for i in 0..inner {
                    if (p >> i) & 1 == 1 {
                        bits.push(off + 1 + i);
                    }
                }
                bits.push(off + span - 1);
                f("burst", &bits);
            }
        }
    }
}

fn flip(frame: &[u8], bits: &[usize]) -> Vec<u8> {
    let mut v = frame.to_vec();
    for b in bits {
        v[b / 8] ^= 1 << (b % 8);
    }
    v
}

pub fn check_c06(tier: &str) -> i32 {
    let mut rep = Report::new(
        "C06",
        tier,
        "fault_enumeration",
        "for each frame of a 13-request (three of them broadcasts) / 17-response RTU library: every single-bit error, every double-bit error (all pairs for frames <= 13 bytes, windowed pairs for long ones), every burst of span <= 16 bits (all inner patterns up to the bound), and CRC-trailer corruptions are delivered to the production server session / client loop; the reference RTU framer (independent bit-wise CRC) decides which spans are frames: no corrupted frame may cause a handler call, a reply or an accepted response. Transmit side: every frame the library emits for the request/response library is checked against the reference CRC and the 256-byte bound. Chunking: all 2^(n-1) partitions of frames <= 13 bytes, uniform sizes and <= 2 cuts for longer ones. distinct = distinct (frame, corruption class, reference verdict, observation)",
    );
    let thorough = rep.thorough();
    let cfg = dense_cfg(true, (0, 0, 0));
    // transmit: replies of the server and requests of the client are byte-compared with the
    // reference (CRC low byte first, <= 256 bytes)
    let reqs = rtu_request_library();
    let resps = rtu_response_library();
    let mut st = Stats::default();
    for (name, f) in &reqs {
        let exp = server_expect(&cfg, f);
        let problems = run_server_stream(&cfg, f, &[], &exp, true);
        st.evaluations += 1;
        st.class("transmit-server-reply");
        st.observe(&(name, exp.output.len()));
        // (broadcasts are not answered; the last library entry is two frames, one reply)
        if name.starts_with("bcast-") {
            if !exp.output.is_empty() {
                st.violation(Violation { signature: "MACHINERY:reference-reply".into(), summary: format!("{name}: the reference answers a broadcast"), replay: json!({}) });
            }
        } else if exp.output.is_empty() || exp.output.len() > 256 || {
            let n = exp.output.len();
            crc16(&exp.output[..n - 2]) != (exp.output[n - 2] as u16 | (exp.output[n - 1] as u16) << 8)
        } {
            st.violation(Violation { signature: "MACHINERY:reference-reply".into(), summary: name.to_string(), replay: json!({}) });
        }
        for (sig, desc) in problems {
            st.violation(Violation {
                signature: format!("transmit:{sig}"),
                summary: format!("RTU reply to {name}: {desc}"),
                replay: json!({"kind": "server-stream", "cfg": cfg, "stream": to_hex(f), "cuts": []}),
            });
        }
    }
    for (name, req, f) in &resps {
        // the request frame is checked inside run_client_stream (MACHINERY signature otherwise)
        let problems = run_client_stream(true, req, f, &[], DecodeLevel::nothing());
        st.evaluations += 1;
        st.class("transmit-client-request");
        st.observe(&(name, 1));
        for (sig, desc) in problems {
            st.violation(Violation {
                signature: format!("transmit:{}", sig.replace("MACHINERY:", "")),
                summary: format!("RTU request/response {name}: {desc}"),
                replay: json!({"kind": "client-stream", "property": "C06", "rtu": true, "req": crate::checks::client_codec::req_to_json(req), "stream": to_hex(f), "cuts": []}),
            });
        }
    }
    rep.phase("transmit", st, json!({"frames": reqs.len() + resps.len()}));
    // receive, server role
    let st = parallel(reqs.len(), |i, st| {
        let (name, f) = &reqs[i];
        for_each_corruption(f.len(), thorough, &mut |class, bits| {
            let bad = flip(f, bits);
            let exp = server_expect(&cfg, &bad);
            st.evaluations += 1;
            if exp.frames > 0 {
                // the reference CRC accepts a span of the corrupted bytes (cannot happen for <=2-bit / <=16-bit burst errors over the whole frame, but the span may have changed)
                st.class("corruption-yields-crc-valid-span");
            } else {
                st.class(match exp.end {
                    StreamEnd::Error(_) => "corruption-detected",
                    StreamEnd::NeedMore(_) => "corruption-makes-frame-longer",
                });
            }
            let problems = run_server_stream(&cfg, &bad, &[], &exp, false);
            st.observe(&(name, class, exp.frames, &exp.end, problems.len()));
            for (sig, desc) in problems {
                st.violation(Violation {
                    signature: format!("corrupted-request:{sig}"),
                    summary: format!("{name} with {class} error at bits {bits:?}: {desc}"),
                    replay: json!({"kind": "server-stream", "cfg": cfg, "stream": to_hex(&bad), "cuts": []}),
                });
            }
        });
        // trailer-only corruptions
        let n = f.len();
        for (k, bad) in [
            { let mut b = f.clone(); b[n - 2] ^= 0xFF; b },
            { let mut b = f.clone(); b[n - 1] ^= 0xFF; b },
            { let mut b = f.clone(); b.swap(n - 2, n - 1); b },
            { let mut b = f.clone(); b[n - 2] = 0; b[n - 1] = 0; b },
        ].into_iter().enumerate() {
            if bad == *f {
                continue;
            }
            let exp = server_expect(&cfg, &bad);
            st.evaluations += 1;
            st.class("trailer-corruption");
            for (sig, desc) in run_server_stream(&cfg, &bad, &[], &exp, false) {
                st.violation(Violation {
                    signature: format!("corrupted-request:{sig}"),
                    summary: format!("{name} trailer corruption #{k}: {desc}"),
                    replay: json!({"kind": "server-stream", "cfg": cfg, "stream": to_hex(&bad), "cuts": []}),
                });
            }
        }
        st.traces += 1;
        st.sample(json!({"role": "server", "frame": name, "bytes": f.len()}));
    });
    rep.phase("receive: corrupted requests (server role)", st, json!({"frames": reqs.len()}));
    // the same frames (intact, single-bit corrupted in the address / function / first data byte /
    // CRC, and prefixed by one stray byte) split at every position with a server command handled
    // between the two reads: what the session does between reads must not move the frame boundary
    let short: Vec<&(&str, Vec<u8>)> = reqs.iter().filter(|(_, f)| f.len() <= 48).collect();
    let st = parallel(short.len(), |i, st| {
        let (name, f) = short[i];
        let n = f.len();
        let mut variants: Vec<(String, Vec<u8>)> = vec![(format!("{name}"), f.clone())];
        for bit in [0usize, 8, 16, 8 * (n - 2), 8 * n - 1] {
            variants.push((format!("{name}+bit{bit}"), flip(f, &[bit])));
        }
        let mut stray = vec![0x55u8];
        stray.extend_from_slice(f);
        variants.push((format!("stray-byte+{name}"), stray));
        for (label, stream) in variants {
            server_stream_job_with_command("C06", &cfg, &label, &stream, st);
        }
    });
    rep.phase("receive: a server command between two reads of one (intact or corrupted) frame", st, json!({"frames": short.len()}));
    // receive, client role
    let st = parallel(resps.len(), |i, st| {
        let (name, req, f) = &resps[i];
        for_each_corruption(f.len(), thorough && f.len() <= 13, &mut |class, bits| {
            let bad = flip(f, bits);
            st.evaluations += 1;
            let (exp, _) = client_expect(true, req, 0, &bad);
            st.class(match &exp {
                ClientExpect::Completes(..) => "corruption-yields-crc-valid-span",
                ClientExpect::FramingError => "corruption-detected",
                ClientExpect::Pending => "corruption-makes-frame-longer",
            });
            let problems = run_client_stream(true, req, &bad, &[], DecodeLevel::nothing());
            st.observe(&(name, class, &exp, problems.len()));
            for (sig, desc) in problems {
                st.violation(Violation {
                    signature: format!("corrupted-response:{sig}"),
                    summary: format!("{name} with {class} error at bits {bits:?}: {desc}"),
                    replay: json!({"kind": "client-stream", "property": "C06", "rtu": true, "req": crate::checks::client_codec::req_to_json(req), "stream": to_hex(&bad), "cuts": []}),
                });
            }
        });
        st.traces += 1;
        st.sample(json!({"role": "client", "frame": name, "bytes": f.len()}));
    });
    rep.phase("receive: corrupted responses (client role)", st, json!({"frames": resps.len()}));
    // chunking independence of the length derivation
    let bound = ChunkBound { uniform: true, max_cuts: 2, full_cuts_up_to: if thorough { 300 } else { 48 }, all_partitions_up_to: 13 };
    let mut streams: Vec<(String, Vec<u8>)> = reqs.iter().map(|(n, f)| (n.to_string(), f.clone())).collect();
    // two frames back to back, and a frame followed by a corrupted one
    streams.push(("read-holding+write-regs".into(), [reqs[2].1.clone(), reqs[7].1.clone()].concat()));
    streams.push(("write-coils+read-coils(bad crc)".into(), [reqs[6].1.clone(), flip(&reqs[0].1, &[9])].concat()));
    // pipelined frames that fill the receive buffer: a short frame, a maximum-size frame and more
    let max_regs = rtu_frame(1, &write_multi_pdu(16, 0, 123, 246, &(0..246).map(|i| (i * 3 + 1) as u8).collect::<Vec<u8>>()));
    streams.push(("read-coils+write-regs-max".into(), [reqs[0].1.clone(), max_regs.clone()].concat()));
    streams.push(("read-coils+write-coils-max+read-holding".into(), [reqs[0].1.clone(), reqs[9].1.clone(), reqs[2].1.clone()].concat()));
    streams.push(("write-regs-max+write-regs-max+read-input".into(), [max_regs.clone(), max_regs, reqs[3].1.clone()].concat()));
    let st = parallel(streams.len(), |i, st| {
        server_stream_job("C06", &cfg, &streams[i].0, &streams[i].1, bound, st);
    });
    rep.phase("chunking (server role)", st, json!({"streams": streams.len()}));
    let st = parallel(resps.len(), |i, st| {
        let (name, req, f) = &resps[i];
        client_stream_job("C06", true, req, name, f, bound, st);
    });
    rep.phase("chunking (client role)", st, json!({"streams": resps.len()}));
    // the same over a real pty through the unmodified create_rtu_server_task (bits of the unit id,
    // data and CRC bytes: the frame length is unchanged, so the whole frame is consumed)
    let bits: Vec<usize> = (0..8).chain(16..64).filter(|b| thorough || b % 5 == 0).collect();
    let (sent, problems) = crate::checks::serial_pty::rtu_crc_over_pty(&bits);
    let mut st = Stats::default();
    st.evaluations += sent + 1;
    st.class("pty-production-path");
    st.observe(&("pty", sent));
    st.sample(json!({"transport": "pty", "frame": "read-holding unit 1", "single_bit_corruptions": sent}));
    for (sig, desc) in problems {
        st.violation(Violation { signature: sig, summary: desc, replay: json!({"kind": "c06-pty", "bits": bits}) });
    }
    rep.phase("production RTU server over a pty", st, json!({"corruptions": bits.len()}));
    for c in ["pty-production-path", "corruption-detected", "corruption-makes-frame-longer", "transmit-server-reply", "transmit-client-request", "trailer-corruption"] {
        rep.require_class(c);
    }
    rep.exhaustive = thorough;
    rep.assumptions.push("after the first framing error on a serial stream only the absence of fabricated effects is judged (resynchronisation is unspecified)".into());
    rep.finish()
}

// ---------------------------------------------------------------------------------------------
// C07: no peer input can panic, wedge or silently kill a task
// ---------------------------------------------------------------------------------------------

const LATTICE: [u8; 12] = [0x00, 0x01, 0x02, 0x03, 0x05, 0x06, 0x0F, 0x10, 0x7F, 0x80, 0x83, 0xFF];

fn mutate_1(seed: &[u8], f: &mut dyn FnMut(Vec<u8>)) {
    for pos in 0..seed.len() {
        for val in 0..=255u8 {
            if val != seed[pos] {
                let mut v = seed.to_vec();
                v[pos] = val;
                f(v);
            }
        }
        let mut d = seed.to_vec();
        d.remove(pos);
        f(d);
        f(seed[..pos].to_vec());
    }
    for pos in 0..=seed.len() {
        for val in [0u8, 1, 0x7F, 0x80, 0xFF] {
            let mut v = seed.to_vec();
            v.insert(pos, val);
            f(v);
        }
    }
}

fn mutate_2(seed: &[u8], f: &mut dyn FnMut(Vec<u8>)) {
    for a in 0..seed.len() {
        for b in a + 1..seed.len() {
            for va in LATTICE {
                for vb in LATTICE {
                    let mut v = seed.to_vec();
                    v[a] = va;
                    v[b] = vb;
                    f(v);
                }
            }
        }
    }
}

fn c07_levels(all: bool) -> Vec<(u8, u8, u8)> {
    if all {
        let mut v = vec![];
        for a in 0..4 {
            for f in 0..3 {
                for p in 0..3 {
                    v.push((a, f, p));
                }
            }
        }
        v
    } else {
        vec![(0, 0, 0), (3, 2, 2)]
    }
}

fn c07_server_case(rtu: bool, level: (u8, u8, u8), stream: &[u8], tail: Tail, cuts: &[usize], st: &mut Stats) {
    let cfg = dense_cfg(rtu, level);
    let exp = server_expect(&cfg, stream);
    st.evaluations += 1;
    st.class(match exp.end {
        StreamEnd::Error(_) => "server-session-ends-with-error",
        StreamEnd::NeedMore(_) => "server-session-continues",
    });
    let describe = || ("c07-server".to_string(), format!("server {} level {level:?} stream {} tail {tail:?}", if rtu { "RTU" } else { "TCP" }, hex(stream)), json!({"kind": "c07-server", "cfg": cfg, "stream": to_hex(stream), "cuts": cuts, "tail": tail}));
    let problems = crate::sim::watchdog::guard(&describe, || run_server_stream_tail(&cfg, stream, cuts, &exp, tail == Tail::None, tail));
    st.observe(&(rtu, exp.frames, &exp.end, exp.output.len().min(16), stream.len().min(6), problems.len()));
    for (sig, desc) in problems {
        st.violation(Violation {
            signature: sig,
            summary: format!("server {} level {level:?} stream {} tail {tail:?}: {desc}", if rtu { "RTU" } else { "TCP" }, hex(stream)),
            replay: json!({"kind": "c07-server", "cfg": cfg, "stream": to_hex(stream), "cuts": cuts, "tail": tail}),
        });
    }
}

fn c07_client_case(rtu: bool, level: (u8, u8, u8), req: &Req, stream: &[u8], tail: Tail, cuts: &[usize], st: &mut Stats) {
    st.evaluations += 1;
    let (exp, _) = client_expect(rtu, req, 0, stream);
    st.class(match &exp {
        ClientExpect::Completes(..) => "client-request-completes",
        ClientExpect::FramingError => "client-session-ends-with-error",
        ClientExpect::Pending => "client-keeps-waiting",
    });
    let describe = || ("c07-client".to_string(), format!("client {} level {level:?} stream {} tail {tail:?}", if rtu { "RTU" } else { "TCP" }, hex(stream)), json!({"kind": "c07-client", "rtu": rtu, "level": level, "req": crate::checks::client_codec::req_to_json(req), "stream": to_hex(stream), "cuts": cuts, "tail": tail}));
    let problems = crate::sim::watchdog::guard(&describe, || run_client_stream_tail(rtu, req, stream, cuts, decode_level(level), tail, tail == Tail::None && stream.len() % 3 == 0));
    st.observe(&(rtu, &exp, stream.len().min(6), problems.len()));
    for (sig, desc) in problems {
        st.violation(Violation {
            signature: sig,
            summary: format!("client {} level {level:?} stream {} tail {tail:?}: {desc}", if rtu { "RTU" } else { "TCP" }, hex(stream)),
            replay: json!({"kind": "c07-client", "rtu": rtu, "level": level, "req": crate::checks::client_codec::req_to_json(req), "stream": to_hex(stream), "cuts": cuts, "tail": tail}),
        });
    }
}

/// The production RTU server task re-opens its port after every session error and runs the *same*
/// session object (same frame reader, same parser) again. This replays that loop: the stream is
/// delivered, and while the session keeps ending with errors it is run again on a fresh, quiet
/// line, then with valid probe requests. Oracle ("spin without progress"): a session error must be
/// caused by input, so the number of session errors can never exceed the number of bytes received;
/// a server that fails again and again without consuming anything is wedged for good. Whether and
/// when a probe is answered again depends on the resynchronisation policy, which the property
/// leaves open: it is recorded, not judged.
pub fn rtu_server_reopen_case(level: (u8, u8, u8), stream: &[u8]) -> (Option<usize>, Vec<(String, String)>) {
    use rodbus::server::RequestHandler;
    use std::sync::{Arc, Mutex};
    const PROBES: usize = 4;
    let cfg = dense_cfg(true, level);
    let log: crate::hserver::Log = Arc::new(Mutex::new(vec![]));
    let mut map = rodbus::server::ServerHandlerMap::new();
    for (u, spec) in &cfg.units {
        let h = crate::hserver::RecHandler { unit: *u, app: spec.build(), log: log.clone() }.wrap();
        map.add(rodbus::UnitId::new(*u), h);
    }
    let (handle, session) = rodbus::verif::server_session(rodbus::verif::Framing::Rtu, map, None, decode_level(level));
    let probe_pdu = read_pdu(3, 0, 3);
    let probe = rtu_frame(1, &probe_pdu);
    let want = {
        let mut m = cfg.model();
        let e = m.handle(1, &probe_pdu);
        rtu_frame(1, &e.replies[0])
    };
    let mut session = Some(session);
    let mut out = vec![];
    let mut errors = 0usize;
    let mut bytes = 0usize;
    let mut probes_sent = 0usize;
    let mut recovered: Option<usize> = None;
    let mut pending: Option<Vec<u8>> = Some(stream.to_vec());
    'rounds: loop {
        let (sio, io) = crate::sim::script_io();
        let mut sess = session.take().unwrap();
        let mut task = Task::new(async move {
            let e = sess.run(Box::new(sio)).await;
            (e, sess)
        });
        loop {
            if let Some(b) = pending.take() {
                bytes += b.len();
                io.deliver(&b);
            }
            if crate::sim::run_until_quiescent(&mut [&mut task], POLL_BUDGET).is_none() {
                out.push(("busy-loop".into(), "poll budget exceeded after the port was re-opened".into()));
                break 'rounds;
            }
            if let Some(p) = &task.panicked {
                out.push(("panic".into(), format!("panic after the port was re-opened: {p}")));
                break 'rounds;
            }
            if probes_sent > 0 && recovered.is_none() && io.take_written_flat().ends_with(&want) {
                recovered = Some(probes_sent);
            }
            if task.is_done() {
                let (_e, sess) = task.output.take().unwrap();
                session = Some(sess);
                errors += 1;
                if errors > bytes + 1 {
                    out.push((
                        "session-errors-without-input".into(),
                        format!("{errors} session errors after only {bytes} bytes were ever received: the re-opened session fails again and again without consuming input"),
                    ));
                    break 'rounds;
                }
                continue 'rounds;
            }
            // the session is waiting for input
            if errors == 0 || probes_sent == PROBES {
                break 'rounds;
            }
            probes_sent += 1;
            pending = Some(probe.clone());
        }
    }
    drop(handle);
    (if errors > 0 { Some(recovered.unwrap_or(0)) } else { None }, out)
}

/// request with `timeout` ms outstanding; a stale (other transaction id) frame every `gap` ms
pub fn c07_drip(level: (u8, u8, u8), timeout: u64, gap: u64, rounds: usize) -> Vec<(String, String)> {
    let mut out = vec![];
    let req = Req::ReadRegs { fc: 3, start: 0, count: 2 };
    let mut h = ClientSessionHarness::new(false, decode_level(level), None, 16);
    h.settle();
    let id = match h.submit(&req, 1, timeout, Style::Future) {
        Ok(id) => id,
        Err(e) => return vec![("MACHINERY:request-rejected".into(), format!("{e:?}"))],
    };
    h.settle();
    h.io.take_written();
    let (good, _) = good_reply(&req);
    let mut elapsed = 0u64;
    let mut completed_at: Option<u64> = None;
    for k in 0..rounds {
        h.io.deliver(&mbap_frame(0x4000 + k as u16, 1, &good));
        if !h.settle() {
            return vec![("busy-loop".into(), "poll budget exceeded".into())];
        }
        crate::sim::advance(gap);
        elapsed += gap;
        h.settle();
        if let Some(p) = &h.task.panicked {
            return vec![("panic".into(), p.clone())];
        }
        for (i, o, at) in h.take_done() {
            if i == id && completed_at.is_none() {
                completed_at = Some(at);
                if o != Outcome::Err(ErrClass::Timeout) {
                    out.push(("drip-result".into(), format!("request completed with {o:?}")));
                }
            }
        }
    }
    match completed_at {
        None if elapsed > timeout => out.push(("request-kept-pending-by-stale-frames".into(), format!("still pending {elapsed} ms after transmission (timeout {timeout} ms)"))),
        // (the exact instant is C12's business: here the clock moves in steps of `gap`)
        Some(at) if at > timeout + gap => out.push(("request-kept-pending-by-stale-frames".into(), format!("timed out only at {at} ms (timeout {timeout} ms)"))),
        _ => {}
    }
    // the task must still honour shutdown
    let ch = h.channel.clone().unwrap();
    let mut t = Task::new(async move {
        let _ = ch.shutdown().await;
    });
    t.poll_if_woken();
    h.settle();
    if !h.task.is_done() {
        crate::sim::advance(timeout + 1);
        h.settle();
    }
    if !h.task.is_done() {
        out.push(("shutdown-ignored".into(), "client task did not end after shutdown".into()));
    }
    out
}

pub fn replay_c07(v: &serde_json::Value) -> Vec<(String, String)> {
    if v["kind"] == "c07-drip" {
        let level: (u8, u8, u8) = serde_json::from_value(v["level"].clone()).unwrap();
        return c07_drip(level, v["timeout"].as_u64().unwrap(), v["gap"].as_u64().unwrap(), v["rounds"].as_u64().unwrap() as usize);
    }
    let stream = from_hex(v["stream"].as_str().unwrap());
    let cuts: Vec<usize> = v["cuts"].as_array().unwrap().iter().map(|x| x.as_u64().unwrap() as usize).collect();
    let tail: Tail = serde_json::from_value(v["tail"].clone()).unwrap();
    if v["kind"] == "c07-server" {
        let cfg: ServerCfg = serde_json::from_value(v["cfg"].clone()).unwrap();
        let exp = server_expect(&cfg, &stream);
        run_server_stream_tail(&cfg, &stream, &cuts, &exp, tail == Tail::None, tail)
    } else {
        let rtu = v["rtu"].as_bool().unwrap();
        let level: (u8, u8, u8) = serde_json::from_value(v["level"].clone()).unwrap();
        let req = crate::checks::client_codec::req_from_json(&v["req"]);
        run_client_stream_tail(rtu, &req, &stream, &cuts, decode_level(level), tail, true)
    }
}

fn all_strings(alphabet: &[u8], len: usize, f: &mut dyn FnMut(&[u8])) {
    let mut idx = vec![0usize; len];
    let mut buf = vec![alphabet[0]; len];
    loop {
        f(&buf);
        let mut i = len;
        loop {
            if i == 0 {
                return;
            }
            i -= 1;
            idx[i] += 1;
            if idx[i] < alphabet.len() {
                buf[i] = alphabet[idx[i]];
                break;
            }
            idx[i] = 0;
            buf[i] = alphabet[0];
        }
    }
}

/// shutdown arriving together with a backlog of valid requests: the session may answer a few more
/// of them (which of its two ready sources it looks at first is tokio's choice), not the backlog
pub fn c07_backlog_phase() -> Stats {
    let mut st = Stats::default();
    for rtu in [false, true] {
        for n in [100usize, 400] {
            let cfg = dense_cfg(rtu, (0, 0, 0));
            let mut h = ServerHarness::new(&cfg);
            h.settle();
            let mut stream = vec![];
            for i in 0..n {
                stream.extend(h.frame(0x4000 + i as u16, 1, &read_pdu(3, 0, 2)));
            }
            h.io.deliver(&stream);
            let handle = h.handle.take().unwrap();
            let mut t = Task::new(async move {
                let _ = handle.shutdown().await;
            });
            let ok = crate::sim::run_until_quiescent(&mut [&mut t, &mut h.task], POLL_BUDGET).is_some();
            let served = h.io.take_written().len();
            st.evaluations += 1;
            st.traces += 1;
            st.class("shutdown-with-backlog");
            st.observe(&(rtu, n, served.min(64), h.task.is_done()));
            let problem = if !ok {
                Some(("busy-loop".to_string(), "poll budget exceeded".to_string()))
            } else if !h.task.is_done() {
                Some(("shutdown-ignored".to_string(), "the session did not end after shutdown".to_string()))
            } else if served > 64 {
                Some(("shutdown-ignored:while-requests-are-queued".to_string(), format!("{served} of {n} queued requests were answered after shutdown had been requested (an unbiased choice between the two ready sources answers more than 64 with probability 2^-64)")))
            } else {
                None
            };
            if let Some((sig, desc)) = problem {
                st.violation(Violation { signature: sig, summary: format!("{} server session, {n} requests queued when shutdown is requested: {desc}", if rtu { "RTU" } else { "TCP" }), replay: json!({"kind": "c07-backlog"}) });
            }
        }
    }
    st
}

pub fn check_c07(tier: &str) -> i32 {
    let mut rep = Report::new(
        "C07",
        tier,
        "exploration",
        "the k-deviation neighbourhood of valid traffic, exhaustively (plus, for the RTU server, the production re-open loop: the same session object is run again after every session error, with and without further valid requests, and may never fail more often than it received bytes): for every seed frame (requests and responses of all eight functions, exceptions, maximum-size frames; MBAP and RTU) every 1-byte substitution, deletion, insertion over {00,01,7F,80,FF}, truncation, (thorough: every pair of substitutions over a 12-value lattice), each optionally followed by EOF / connection reset / timed-out read; plus all byte strings of length <= 2 (thorough 3) and all strings of length <= L over the 12-value lattice from a cold start; x {server, client} x {MBAP, RTU} x decode levels {nothing, everything} (thorough: all 36 on the 1-deviation set). Built with overflow checks and debug assertions; every poll is wrapped in catch_unwind; quiescence must be reached within a poll budget; the full reference-model oracle of C05/C06 is applied and shutdown must still end the task. distinct = distinct (role, framing, reference verdict, observation) tuples",
    );
    let thorough = rep.thorough();
    crate::sim::trace::take_counts();
    // seeds
    let mut server_seeds: Vec<(bool, Vec<u8>)> = vec![];
    for (_, _, p) in crate::checks::server_family::sequence_alphabet(1, 9) {
        if p.len() <= 40 {
            server_seeds.push((false, mbap_frame(0x0102, 1, &p)));
        }
    }
    for (_, f) in rtu_request_library() {
        if f.len() <= 80 {
            server_seeds.push((true, f));
        }
    }
    // requests touching the top of the address space and the quantity limits
    for fc in 1..=4u8 {
        let max = if fc <= 2 { 2000u16 } else { 125 };
        for c in [1u16, 2, max] {
            let p = read_pdu(fc, (0x10000u32 - c as u32) as u16, c);
            server_seeds.push((false, mbap_frame(0x0A0B, 1, &p)));
            server_seeds.push((true, rtu_frame(1, &p)));
        }
    }
    for p in [
        vec![5u8, 0xFF, 0xFF, 0xFF, 0x00],
        vec![6u8, 0xFF, 0xFF, 0x12, 0x34],
        write_multi_pdu(15, 0xFFFE, 2, 1, &[3]),
        write_multi_pdu(16, 0xFFFE, 2, 4, &[0, 1, 0, 2]),
    ] {
        server_seeds.push((false, mbap_frame(0x0A0C, 1, &p)));
        server_seeds.push((true, rtu_frame(1, &p)));
    }
    let mut client_seeds: Vec<(bool, Req, Vec<u8>)> = vec![];
    for (_, req, f) in rtu_response_library() {
        if f.len() <= 40 {
            let (g, _) = good_reply(&req);
            client_seeds.push((false, req.clone(), mbap_frame(0, 1, &g)));
            client_seeds.push((true, req, f));
        }
    }
    client_seeds.push((false, Req::ReadRegs { fc: 3, start: 0, count: 1 }, mbap_frame(0, 1, &[0x83, 2])));
    // reads that end at the top of the address space: the genuine reply, and self-consistent
    // replies (byte count and frame length agree) carrying one or two units more or one less than
    // was asked for - index arithmetic on the client side
    for fc in 1..=4u8 {
        for count in [1u16, 2, 9] {
            let start = (0x10000u32 - count as u32) as u16;
            let req = if fc <= 2 { Req::ReadBits { fc, start, count } } else { Req::ReadRegs { fc, start, count } };
            let (g, _) = good_reply(&req);
            client_seeds.push((false, req.clone(), mbap_frame(0, 1, &g)));
            client_seeds.push((true, req.clone(), rtu_frame(1, &g)));
            let unit = if fc <= 2 { 1usize } else { 2 };
            for delta in [-1i32, 1, 2] {
                let n = g[1] as i32 + delta * unit as i32;
                if n < 0 {
                    continue;
                }
                let mut p = vec![fc, n as u8];
                p.extend((0..n).map(|i| 0x11u8.wrapping_mul(i as u8 + 1)));
                client_seeds.push((false, req.clone(), mbap_frame(0, 1, &p)));
            }
        }
    }
    rep.bounds = json!({"server_seeds": server_seeds.len(), "client_seeds": client_seeds.len(), "deviations": if thorough { 2 } else { 1 }, "raw_string_len": if thorough { 3 } else { 2 }, "lattice_string_len": if thorough { 7 } else { 5 }});
    let tails = [Tail::None, Tail::Eof, Tail::Reset, Tail::TimedOut];
    // 1-deviation neighbourhood
    let levels = c07_levels(thorough);
    let st = parallel(server_seeds.len() * levels.len(), |j, st| {
        let (rtu, seed) = &server_seeds[j / levels.len()];
        let level = levels[j % levels.len()];
        let mut n = 0usize;
        c07_server_case(*rtu, level, seed, Tail::None, &[], st);
        mutate_1(seed, &mut |m| {
            n += 1;
            let tail = if level == (0, 0, 0) || level == (3, 2, 2) { tails[n % 4] } else { Tail::None };
            let cuts: Vec<usize> = if n % 5 == 0 && m.len() > 2 { vec![m.len() / 2] } else { vec![] };
            c07_server_case(*rtu, level, &m, tail, &cuts, st);
        });
        st.traces += 1;
        st.sample(json!({"role": "server", "rtu": rtu, "seed": hex(seed), "level": format!("{level:?}"), "mutants": n}));
    });
    rep.phase("server: 1-deviation neighbourhood", st, json!({"levels": levels.len()}));
    // the RTU server task runs the same session again after every session error
    let rtu_seeds: Vec<Vec<u8>> = server_seeds.iter().filter(|(rtu, _)| *rtu).map(|(_, s)| s.clone()).collect();
    let st = parallel(rtu_seeds.len() * 2, |j, st| {
        let seed = &rtu_seeds[j / 2];
        let level = if j % 2 == 0 { (0, 0, 0) } else { (3, 2, 2) };
        let mut run = |m: &[u8], st: &mut Stats| {
            let describe = || ("c07-rtu-reopen".to_string(), format!("RTU server re-open, level {level:?} stream {}", hex(m)), json!({"kind": "c07-rtu-reopen", "level": level, "stream": to_hex(m)}));
            let (ended, problems) = crate::sim::watchdog::guard(&describe, || rtu_server_reopen_case(level, m));
            st.evaluations += 1;
            match ended {
                None => {}
                Some(0) => {
                    st.class("rtu-server-reopened:no-probe-answered-within-4");
                    st.traces += 1;
                }
                Some(_) => {
                    st.class("rtu-server-reopened:probe-answered");
                    st.traces += 1;
                }
            }
            st.observe(&(ended, problems.len(), m.len().min(8)));
            for (sig, desc) in problems {
                st.violation(Violation {
                    signature: sig,
                    summary: format!("RTU server re-open, level {level:?}, stream {}: {desc}", hex(m)),
                    replay: json!({"kind": "c07-rtu-reopen", "level": level, "stream": to_hex(m)}),
                });
            }
        };
        mutate_1(seed, &mut |m| run(&m, st));
        // the rejected frame followed by filler and by a second rejected frame
        mutate_1(seed, &mut |m| {
            if m.len() == seed.len() && m[..2] == seed[..2] {
                let mut s2 = m.clone();
                s2.extend_from_slice(&[0u8; 9]);
                run(&s2, st);
            }
        });
    });
    let st_backlog = c07_backlog_phase();
    rep.phase("server session: shutdown requested while a backlog of requests is readable", st_backlog, json!({"backlogs": [100, 400]}));
    // over real sockets: a session ended by malformed input leaves the other sessions of the same
    // server untouched and frees its slot
    let st_iso = crate::checks::sessions::garbage_isolation_phase();
    rep.phase("production TCP / TLS server task: malformed input on one session, the others keep being served", st_iso, json!({}));
    let (st_hs, hs_info) = crate::checks::lifecycle_net::handshake_input_phase(thorough);
    rep.phase("production TLS client task: every cut of the peer's handshake flight, then silence, against scripts of API calls", st_hs, hs_info);
    rep.phase("RTU server: session re-run after every session error (port re-open)", st, json!({"probes": 4, "oracle": "session errors <= bytes received + 1"}));
    let st = parallel(client_seeds.len() * levels.len(), |j, st| {
        let (rtu, req, seed) = &client_seeds[j / levels.len()];
        let level = levels[j % levels.len()];
        let mut n = 0usize;
        c07_client_case(*rtu, level, req, seed, Tail::None, &[], st);
        mutate_1(seed, &mut |m| {
            n += 1;
            let tail = if level == (0, 0, 0) || level == (3, 2, 2) { tails[n % 4] } else { Tail::None };
            let cuts: Vec<usize> = if n % 5 == 0 && m.len() > 2 { vec![m.len() / 2] } else { vec![] };
            c07_client_case(*rtu, level, req, &m, tail, &cuts, st);
        });
        st.traces += 1;
        st.sample(json!({"role": "client", "rtu": rtu, "seed": hex(seed), "level": format!("{level:?}"), "mutants": n}));
    });
    rep.phase("client: 1-deviation neighbourhood", st, json!({"levels": levels.len()}));
    if thorough {
        let st = parallel(server_seeds.len(), |j, st| {
            let (rtu, seed) = &server_seeds[j];
            if seed.len() > 20 {
                return;
            }
            mutate_2(seed, &mut |m| c07_server_case(*rtu, (3, 2, 2), &m, Tail::None, &[], st));
        });
        rep.phase("server: 2-deviation neighbourhood (lattice)", st, json!({}));
        let st = parallel(client_seeds.len(), |j, st| {
            let (rtu, req, seed) = &client_seeds[j];
            if seed.len() > 20 {
                return;
            }
            mutate_2(seed, &mut |m| c07_client_case(*rtu, (3, 2, 2), req, &m, Tail::None, &[], st));
        });
        rep.phase("client: 2-deviation neighbourhood (lattice)", st, json!({}));
    }
    // raw garbage from a cold start
    let all: Vec<u8> = (0..=255).collect();
    let raw_len = if thorough { 3 } else { 2 };
    let lat_len = if thorough { 7 } else { 5 };
    let creq = Req::ReadBits { fc: 1, start: 0, count: 9 };
    let st = parallel(256 * 4, |j, st| {
        let first = (j / 4) as u8;
        let role = j % 4;
        let (rtu, client) = (role & 1 == 1, role & 2 == 2);
        for len in 0..raw_len {
            all_strings(&all, len, &mut |rest| {
                let mut s = vec![first];
                s.extend_from_slice(rest);
                let level = if (s.len() + rest.first().copied().unwrap_or(0) as usize) % 2 == 0 { (0, 0, 0) } else { (3, 2, 2) };
                if client {
                    c07_client_case(rtu, level, &creq, &s, Tail::None, &[], st);
                } else {
                    c07_server_case(rtu, level, &s, Tail::None, &[], st);
                }
            });
        }
    });
    rep.phase("raw byte strings", st, json!({"max_len": raw_len}));
    let st = parallel(LATTICE.len() * 4, |j, st| {
        let first = LATTICE[j / 4];
        let role = j % 4;
        let (rtu, client) = (role & 1 == 1, role & 2 == 2);
        for len in 2..lat_len {
            all_strings(&LATTICE, len, &mut |rest| {
                let mut s = vec![first];
                s.extend_from_slice(rest);
                if client {
                    c07_client_case(rtu, (3, 2, 2), &creq, &s, Tail::None, &[], st);
                } else {
                    c07_server_case(rtu, (3, 2, 2), &s, Tail::None, &[], st);
                }
            });
        }
    });
    rep.phase("lattice byte strings", st, json!({"max_len": lat_len}));
    // long streams: three maximum-size frames, 1-byte reads (buffer wrap) at the highest level
    let mut st = Stats::default();
    let items = mbap_items();
    let long: Vec<u8> = [items[2].1.clone(), items[3].1.clone(), items[2].1.clone(), items[0].1.clone()].concat();
    for k in [1usize, 2, 3, 7, 259, 260, 261] {
        let cuts: Vec<usize> = (1..long.len()).filter(|c| c % k == 0).collect();
        c07_server_case(false, (3, 2, 2), &long, Tail::Eof, &cuts, &mut st);
    }
    rep.phase("long streams", st, json!({"bytes": long.len()}));
    // a peer that keeps sending well-formed frames which are not the awaited reply must not keep
    // a request (and with it the whole task: queued requests, disable, shutdown) pending
    let mut st = Stats::default();
    for level in [(0u8, 0u8, 0u8), (3, 2, 2)] {
        for (timeout, gap, rounds) in [(10u64, 6u64, 8usize), (10, 9, 5), (3, 2, 12), (50, 49, 4)] {
            st.evaluations += 1;
            st.class("client-dripped-stale-frames");
            st.observe(&(level, timeout, gap, rounds));
            let describe = || ("c07-drip".to_string(), format!("timeout {timeout} gap {gap}"), json!({"kind": "c07-drip", "level": level, "timeout": timeout, "gap": gap, "rounds": rounds}));
            let problems = crate::sim::watchdog::guard(&describe, || c07_drip(level, timeout, gap, rounds));
            for (sig, desc) in problems {
                st.violation(Violation { signature: sig, summary: format!("level {level:?}, request timeout {timeout} ms, a stale frame every {gap} ms x{rounds}: {desc}"), replay: json!({"kind": "c07-drip", "level": level, "timeout": timeout, "gap": gap, "rounds": rounds}) });
            }
        }
    }
    st.sample(json!({"scenario": "stale frame every g ms while a request with timeout t > g is outstanding"}));
    rep.phase("client: dripped stale frames", st, json!({}));
    let (events, bytes) = crate::sim::trace::take_counts();
    let _ = (events, bytes);
    for c in ["client-dripped-stale-frames", "server-session-ends-with-error", "server-session-continues", "client-request-completes", "client-session-ends-with-error", "client-keeps-waiting"] {
        rep.require_class(c);
    }
    rep.exhaustive = true;
    rep.assumptions.push("'raw random bytes' of the quantifier is replaced by exhaustive short strings and exhaustive small edit distance around valid traffic (a bound, not an equivalence)".into());
    rep.assumptions.push("isolation between sessions of one TCP / TLS server is checked over real sockets on a fixed set of histories here and exhaustively up to a depth in C15".into());
    rep.finish()
}

//! C10-C14 (and the client half of C20): the production TCP client task explored event by event
//! against `ClientModel`.

use crate::hclient::*;
use crate::hserver::{decode_level, hex, trunc};
use crate::refmodel::client::*;
use crate::refmodel::pdu::Values;
use crate::report::*;
use crate::sim::{Task, WriteMode};
use rodbus::client::ClientState;
use serde::{Deserialize, Serialize};
use serde_json::json;

#[derive(Clone, Debug, Serialize, Deserialize, PartialEq, Eq, Hash)]
pub struct SmCfg {
    pub cap: usize,
    pub max_timeouts: Option<usize>,
    pub retry_min: u64,
    pub retry_max: u64,
    pub handles: usize,
    pub decode: (u8, u8, u8),
}

#[derive(Clone, Debug)]
pub struct Problem {
    pub aspect: char,
    pub sig: String,
    pub desc: String,
    pub step: usize,
}

pub struct PathResult {
    pub problems: Vec<Problem>,
    pub model: ClientModel,
    /// observation log (for determinism audits and differential checks)
    pub obs: Vec<String>,
}

fn mstate(s: &ClientState) -> MState {
    match s {
        ClientState::Disabled => MState::Disabled,
        ClientState::Connecting => MState::Connecting,
        ClientState::Connected => MState::Connected,
        ClientState::WaitAfterFailedConnect(d) => MState::WaitAfterFailedConnect(d.as_millis() as u64),
        ClientState::WaitAfterDisconnect(d) => MState::WaitAfterDisconnect(d.as_millis() as u64),
        ClientState::Shutdown => MState::Shutdown,
    }
}

fn strip(s: &MState) -> MState {
    match s {
        MState::WaitAfterFailedConnect(_) => MState::WaitAfterFailedConnect(0),
        MState::WaitAfterDisconnect(_) => MState::WaitAfterDisconnect(0),
        x => x.clone(),
    }
}

fn out_matches(exp: &OutClass, got: &Outcome) -> bool {
    match (exp, got) {
        (OutClass::Ok(v), Outcome::Ok(g)) => v == g,
        (OutClass::Exception(c), Outcome::Err(ErrClass::Exception(g))) => c == g,
        (OutClass::NoConnection, Outcome::Err(ErrClass::NoConnection)) => true,
        (OutClass::Timeout, Outcome::Err(ErrClass::Timeout)) => true,
        (OutClass::Io(k), Outcome::Err(ErrClass::Io(g))) => k == g,
        (OutClass::BadFrame, Outcome::Err(ErrClass::BadFrame)) => true,
        (OutClass::BadResponse, Outcome::Err(ErrClass::BadResponse)) => true,
        (OutClass::Shutdown, Outcome::Err(ErrClass::Shutdown)) => true,
        (OutClass::AnyError, Outcome::Err(_)) => true,
        _ => false,
    }
}

fn style_of(s: MStyle) -> Style {
    match s {
        MStyle::Future => Style::Future,
        MStyle::Callback => Style::Callback,
        MStyle::Ffi => Style::Ffi,
    }
}

struct Driver {
    h: ClientTaskHarness,
    model: ClientModel,
    partial_rest: Option<Vec<u8>>,
    /// results of command calls made through handles (Ok / Err(Shutdown)), most recent last
    cmd_results: std::sync::Arc<std::sync::Mutex<Vec<bool>>>,
    seen_ids: Vec<usize>,
}

impl Driver {
    fn command(&mut self, handle: usize, which: &Ev) {
        let ch = self.h.handles[handle].as_ref().expect("alive").clone();
        let res = self.cmd_results.clone();
        let level = decode_level((3, 2, 2));
        let which = which.clone();
        let t: Task<()> = Task::new(async move {
            let r = match which {
                Ev::Enable(_) => ch.enable().await,
                Ev::Disable(_) => ch.disable().await,
                Ev::SetDecode(_) => ch.set_decode_level(level).await,
                _ => ch.shutdown().await,
            };
            res.lock().unwrap().push(r.is_ok());
        });
        self.h.pending.push((handle, Submitted { id: usize::MAX, style: Style::Future, task: Some(t) }));
    }
}

/// execute one path from a fresh task; stops at the first divergence from the model
pub fn run_path(cfg: &SmCfg, events: &[Ev]) -> PathResult {
    let tcfg = ClientTaskCfg {
        queue: cfg.cap,
        max_timeouts: cfg.max_timeouts,
        retry_min_ms: cfg.retry_min,
        retry_max_ms: cfg.retry_max,
        decode: decode_level(cfg.decode),
        handles: cfg.handles,
    };
    let mut d = Driver {
        h: ClientTaskHarness::new(&tcfg),
        model: ClientModel::new(cfg.cap, cfg.max_timeouts, cfg.retry_min, cfg.retry_max, cfg.handles),
        partial_rest: None,
        cmd_results: Default::default(),
        seen_ids: vec![],
    };
    let mut problems = vec![];
    let mut obs_log = vec![];
    // first poll
    let e = d.model.start();
    let ok = d.h.settle();
    compare(&mut d, &e, ok, usize::MAX, &mut problems, &mut obs_log, 0);
    if !problems.is_empty() {
        return PathResult { problems, model: d.model, obs: obs_log };
    }
    for (i, ev) in events.iter().enumerate() {
        if d.model.rxbuf.is_empty() {
            d.partial_rest = None;
        }
        let before_now = d.model.now;
        let next_timer = d.model.next_timer();
        let delivery = d.model.delivery(ev);
        let n_ios = d.h.ios.len();
        let e = match ev {
            Ev::ReplyRest => {
                let rest = d.partial_rest.take().expect("partial pending");
                d.h.io().expect("io").deliver(&rest);
                d.model.apply_rest(&rest)
            }
            _ => {
                match ev {
                    Ev::Enable(h) | Ev::Disable(h) | Ev::SetDecode(h) | Ev::Shutdown(h) => d.command(*h, ev),
                    Ev::Submit { handle, style, timeout_ms } => {
                        let id = d.model.next_req;
                        let r = d.h.submit(*handle, &request_for(id), d.model.unit, *timeout_ms, style_of(*style));
                        obs_log.push(format!("submit {id} -> {:?}", r.as_ref().err()));
                    }
                    Ev::DropHandle(h) => {
                        d.h.handles[*h] = None;
                        d.h.pending.retain(|(hh, _)| hh != h);
                    }
                    Ev::AbortTask => d.h.task.abort(),
                    Ev::ConnectOk => {
                        if !d.h.connect_ok() {
                            problems.push(Problem { aspect: 'L', sig: "no-attempt-pending".into(), desc: "model is Connecting but no connection attempt is pending".into(), step: i });
                        }
                    }
                    Ev::ConnectFail => {
                        if !d.h.connect_fail(std::io::ErrorKind::ConnectionRefused) {
                            problems.push(Problem { aspect: 'L', sig: "no-attempt-pending".into(), desc: "model is Connecting but no connection attempt is pending".into(), step: i });
                        }
                    }
                    Ev::ReplyOk | Ev::ReplyException | Ev::ReplyBad | Ev::ReplyStale(_) | Ev::BadHeader => {
                        d.h.io().expect("io").deliver(delivery.as_ref().unwrap());
                    }
                    Ev::ReplyPartial(n) => {
                        // the model's delivery() is the first n bytes; keep the rest for later
                        let full = d.model.delivery(&Ev::ReplyOk).unwrap();
                        d.partial_rest = Some(full[*n..].to_vec());
                        d.h.io().expect("io").deliver(delivery.as_ref().unwrap());
                    }
                    Ev::ReadError => d.h.io().expect("io").read_error(std::io::ErrorKind::ConnectionReset),
                    Ev::Eof => d.h.io().expect("io").eof(),
                    Ev::WriteErrorNext => d.h.io().expect("io").set_write_mode(WriteMode::Error(std::io::ErrorKind::BrokenPipe)),
                    Ev::AdvanceToNext => crate::sim::advance(next_timer.unwrap() - before_now),
                    Ev::Advance1 => crate::sim::advance(1),
                    Ev::ReplyRest => unreachable!(),
                }
                d.model.apply(ev)
            }
        };
        let ok = d.h.settle();
        compare(&mut d, &e, ok, n_ios, &mut problems, &mut obs_log, i);
        if !problems.is_empty() {
            break;
        }
    }
    PathResult { problems, model: d.model, obs: obs_log }
}

fn compare(d: &mut Driver, e: &Expected, settled: bool, n_ios_before: usize, problems: &mut Vec<Problem>, log: &mut Vec<String>, step: usize) {
    let mut p = |aspect: char, sig: &str, desc: String| problems.push(Problem { aspect, sig: sig.to_string(), desc, step });
    if let Some(msg) = &d.h.task.panicked {
        p('P', "panic", format!("client task panicked: {msg}"));
        return;
    }
    if !settled {
        p('P', "busy-loop", "poll budget exceeded".into());
        return;
    }
    let now = d.model.now;
    // wire
    let mut wire: Vec<Vec<u8>> = vec![];
    for io in &d.h.ios {
        wire.extend(io.take_written());
    }
    log.push(format!("wire {:?}", wire.iter().map(|w| hex(w)).collect::<Vec<_>>()));
    if wire != e.wire {
        p(
            'W',
            "wire",
            format!(
                "expected frames {:?} got {:?}",
                e.wire.iter().map(|w| hex(w)).collect::<Vec<_>>(),
                wire.iter().map(|w| hex(w)).collect::<Vec<_>>()
            ),
        );
    }
    // completions
    let done = d.h.take_done();
    log.push(format!("done {done:?}"));
    for (id, _, _) in &done {
        if d.seen_ids.contains(id) {
            p('C', "completed-twice", format!("request {id} completed a second time"));
        }
        d.seen_ids.push(*id);
    }
    let mut exp: Vec<&(usize, OutClass)> = e.completions.iter().collect();
    for (id, out, at) in &done {
        match exp.iter().position(|x| x.0 == *id) {
            None => p('C', "unexpected-completion", format!("request {id} completed with {} (not expected now)", trunc(&format!("{out:?}")))),
            Some(pos) => {
                let (_, want) = exp.remove(pos);
                if !out_matches(want, out) {
                    let sig = match (want, out) {
                        (OutClass::Ok(_), Outcome::Ok(_)) => "wrong-values".to_string(),
                        _ => format!("wrong-result:{}", class_name(want)),
                    };
                    p('C', &sig, format!("request {id}: expected {} got {}", trunc(&format!("{want:?}")), trunc(&format!("{out:?}"))));
                }
                if *at != now {
                    p('T', "completion-time", format!("request {id} completed at {at} ms, expected {now} ms"));
                }
            }
        }
    }
    for (id, want) in exp {
        p('C', &format!("missing-completion:{}", class_name(want)), format!("request {id} should have completed with {} at {now} ms", trunc(&format!("{want:?}"))));
    }
    // listener
    let states = d.h.take_states();
    log.push(format!("states {states:?}"));
    let got: Vec<MState> = states.iter().map(|(s, _)| mstate(s)).collect();
    let got_s: Vec<MState> = got.iter().map(strip).collect();
    let exp_s: Vec<MState> = e.states.iter().map(strip).collect();
    if got_s != exp_s {
        p('L', "listener-states", format!("expected {:?} got {:?}", e.states, got));
    } else if got != e.states {
        p('D', "announced-delay", format!("expected {:?} got {:?}", e.states, got));
    }
    for (_, at) in &states {
        if *at != now {
            p('D', "announcement-time", format!("state announced at {at} ms, expected {now} ms"));
        }
    }
    // attempts
    let attempts = d.h.take_attempts();
    log.push(format!("attempts {attempts:?}"));
    if attempts.len() != e.attempts {
        p('L', "connect-attempts", format!("expected {} connection attempts got {:?}", e.attempts, attempts));
    }
    for a in &attempts {
        if *a != now {
            p('D', "attempt-time", format!("connection attempt at {a} ms, expected {now} ms"));
        }
    }
    // transport
    if n_ios_before != usize::MAX && n_ios_before > 0 {
        let dropped = d.h.ios[n_ios_before - 1].is_dropped();
        let connected_after = matches!(d.model.phase, Phase::Idle | Phase::InFlight { .. }) && d.h.ios.len() == n_ios_before;
        if e.transport_dropped && !dropped {
            p('L', "transport-not-closed", "the connection should have been closed in this step".into());
        }
        if connected_after && dropped {
            p('L', "transport-closed", "the connection was closed although the model says it stays open".into());
        }
    }
    // task end
    if d.h.task.is_done() != d.model.done() {
        p('L', "task-end", format!("task finished: {}, model: {}", d.h.task.is_done(), d.model.done()));
    }
    // command result
    let results = std::mem::take(&mut *d.cmd_results.lock().unwrap());
    if let Some(want) = e.command_ok {
        if results != vec![want] {
            p('L', "command-result", format!("handle call returned {results:?}, expected ok={want}"));
        }
    }
    log.push(format!("cmd {results:?} done={}", d.h.task.is_done()));
}

fn class_name(c: &OutClass) -> &'static str {
    match c {
        OutClass::Ok(_) => "ok",
        OutClass::Exception(_) => "exception",
        OutClass::NoConnection => "no-connection",
        OutClass::Timeout => "timeout",
        OutClass::Io(_) => "io",
        OutClass::BadFrame => "bad-frame",
        OutClass::BadResponse => "bad-response",
        OutClass::Shutdown => "shutdown",
        OutClass::AnyError => "any-error",
    }
}

/// the epilogue that turns "never left pending" into a finite check: drop every handle, then
/// let every armed timer expire; the task must end and every request must have completed
pub fn epilogue(model: &ClientModel) -> Vec<Ev> {
    let mut m = model.clone();
    let mut v = vec![];
    for h in 0..m.handles.len() {
        if m.handles[h] {
            v.push(Ev::DropHandle(h));
            m.apply(&Ev::DropHandle(h));
        }
    }
    let mut guard = 0;
    while !m.done() && m.next_timer().is_some() && guard < 8 {
        // a pending connection attempt never resolves on its own
        v.push(Ev::AdvanceToNext);
        m.apply(&Ev::AdvanceToNext);
        guard += 1;
    }
    v
}

pub struct Explore<'a> {
    pub prop: &'a str,
    pub cfg: &'a SmCfg,
    pub depth: usize,
    pub max_dev: usize,
    pub max_requests: usize,
    pub aspects: &'a str,
    /// event filter: which events belong to this property's alphabet
    pub filter: &'a (dyn Fn(&Ev, &ClientModel) -> bool + Sync),
    /// 0 = default environment answer, 1 = deviation
    pub cost: &'a (dyn Fn(&Ev) -> usize + Sync),
}

fn judge(x: &Explore, path: &[Ev], res: &PathResult, st: &mut Stats, tag: &str) -> bool {
    let mut relevant = false;
    for p in &res.problems {
        if x.aspects.contains(p.aspect) || p.aspect == 'P' {
            relevant = true;
            st.violation(Violation {
                signature: p.sig.clone(),
                summary: format!("{tag}path {:?} step {}: {}", path, p.step, p.desc),
                replay: json!({"kind": "client-sm", "property": x.prop, "cfg": x.cfg, "events": path, "aspects": x.aspects}),
            });
        }
    }
    if !relevant && !res.problems.is_empty() {
        st.class("diverged-on-another-property's-aspect");
    }
    relevant
}

fn rec(x: &Explore, path: &mut Vec<Ev>, dev: usize, st: &mut Stats) {
    let describe = || ("client-sm".to_string(), format!("path {path:?}"), json!({"kind": "client-sm", "property": x.prop, "cfg": x.cfg, "events": path, "aspects": x.aspects}));
    let res = crate::sim::watchdog::guard(&describe, || run_path(x.cfg, path));
    st.evaluations += 1;
    st.transitions += path.len() as u64;
    st.state(&res.model);
    if !res.problems.is_empty() {
        judge(x, path, &res, st, "");
        return;
    }
    if let Some(last) = path.last() {
        st.class(ev_name(last));
    }
    let leaf = path.len() >= x.depth;
    // every maximal path (and every 16th inner node) is run to its horizon
    if leaf || st.evaluations % 16 == 0 {
        let mut full = path.clone();
        full.extend(epilogue(&res.model));
        let r2 = crate::sim::watchdog::guard(&describe, || run_path(x.cfg, &full));
        st.traces += 1;
        st.transitions += full.len() as u64;
        st.observe(&r2.obs);
        if r2.problems.is_empty() {
            // horizon oracle
            if !r2.model.open.is_empty() && x.aspects.contains('C') {
                // only requests whose caller went away may stay unaccounted
                let missing: Vec<&usize> = r2.model.open.iter().filter(|id| !r2.model.abandoned.contains(id)).collect();
                if !missing.is_empty() {
                    st.violation(Violation {
                        signature: "MACHINERY:model-open-at-horizon".into(),
                        summary: format!("model still has open requests {missing:?} at the horizon of {full:?}"),
                        replay: json!({"kind": "client-sm", "property": x.prop, "cfg": x.cfg, "events": full, "aspects": x.aspects}),
                    });
                }
            }
            if !r2.model.done() && r2.model.phase != Phase::Connecting {
                st.class("horizon-not-done");
            }
        } else {
            judge(x, &full, &r2, st, "(with epilogue) ");
        }
        if st.traces % 64 == 1 {
            let r3 = run_path(x.cfg, &full);
            st.audits += 1;
            if r3.obs != r2.obs {
                st.violation(Violation {
                    signature: "MACHINERY:nondeterminism".into(),
                    summary: format!("path {full:?} gave two different observation logs"),
                    replay: json!({"kind": "client-sm", "property": x.prop, "cfg": x.cfg, "events": full, "aspects": x.aspects}),
                });
            }
        }
        if st.traces % 4001 == 1 {
            st.sample(json!({"cfg": x.cfg, "events": format!("{full:?}")}));
        }
    }
    if leaf {
        return;
    }
    for ev in res.model.enabled_events(x.max_requests) {
        if !(x.filter)(&ev, &res.model) {
            continue;
        }
        let c = (x.cost)(&ev);
        if dev + c > x.max_dev {
            continue;
        }
        path.push(ev);
        rec(x, path, dev + c, st);
        path.pop();
    }
}

pub fn ev_name(e: &Ev) -> &'static str {
    match e {
        Ev::Enable(_) => "ev:enable",
        Ev::Disable(_) => "ev:disable",
        Ev::SetDecode(_) => "ev:set-decode",
        Ev::Shutdown(_) => "ev:shutdown",
        Ev::Submit { style: MStyle::Future, .. } => "ev:submit-future",
        Ev::Submit { style: MStyle::Callback, .. } => "ev:submit-callback",
        Ev::Submit { style: MStyle::Ffi, .. } => "ev:submit-ffi",
        Ev::DropHandle(_) => "ev:drop-handle",
        Ev::AbortTask => "ev:abort-task",
        Ev::ConnectOk => "ev:connect-ok",
        Ev::ConnectFail => "ev:connect-fail",
        Ev::ReplyOk => "ev:reply-ok",
        Ev::ReplyException => "ev:reply-exception",
        Ev::ReplyBad => "ev:reply-bad",
        Ev::ReplyPartial(_) => "ev:reply-partial",
        Ev::ReplyRest => "ev:reply-rest",
        Ev::ReplyStale(_) => "ev:reply-stale",
        Ev::BadHeader => "ev:bad-header",
        Ev::ReadError => "ev:read-error",
        Ev::Eof => "ev:eof",
        Ev::WriteErrorNext => "ev:write-error-next",
        Ev::AdvanceToNext => "ev:advance-to-next",
        Ev::Advance1 => "ev:advance-1ms",
    }
}

/// explore from a set of prefixes in parallel (first-level branching over the prefixes)
pub fn explore(x: &Explore, prefixes: &[Vec<Ev>]) -> Stats {
    // expand prefixes by one level to get enough parallel jobs
    let mut jobs: Vec<(Vec<Ev>, usize)> = vec![];
    for pre in prefixes {
        let res = run_path(x.cfg, pre);
        if !res.problems.is_empty() {
            jobs.push((pre.clone(), 0));
            continue;
        }
        let dev0: usize = pre.iter().map(|e| (x.cost)(e)).sum();
        jobs.push((pre.clone(), usize::MAX));
        for ev in res.model.enabled_events(x.max_requests) {
            if !(x.filter)(&ev, &res.model) {
                continue;
            }
            let c = (x.cost)(&ev);
            if dev0 + c > x.max_dev {
                continue;
            }
            let mut p = pre.clone();
            p.push(ev);
            jobs.push((p, dev0 + c));
        }
    }
    parallel(jobs.len(), |i, st| {
        let (path, dev) = &jobs[i];
        let mut path = path.clone();
        if *dev == usize::MAX {
            // the prefix node itself: evaluate without extending
            let res = run_path(x.cfg, &path);
            st.evaluations += 1;
            judge(x, &path, &res, st, "");
        } else {
            rec(x, &mut path, *dev, st);
        }
    })
}

pub fn replay(v: &serde_json::Value) -> Vec<(String, String)> {
    let cfg: SmCfg = serde_json::from_value(v["cfg"].clone()).unwrap();
    let events: Vec<Ev> = serde_json::from_value(v["events"].clone()).unwrap();
    let aspects = v["aspects"].as_str().unwrap_or("CWTLDP").to_string();
    let res = run_path(&cfg, &events);
    res.problems
        .into_iter()
        .filter(|p| aspects.contains(p.aspect) || p.aspect == 'P')
        .map(|p| (p.sig, format!("step {}: {}", p.step, p.desc)))
        .collect()
}

fn default_cost(e: &Ev) -> usize {
    match e {
        Ev::Enable(_) | Ev::ConnectOk | Ev::ReplyOk | Ev::AdvanceToNext | Ev::ReplyRest => 0,
        Ev::Submit { style: MStyle::Future, .. } => 0,
        _ => 1,
    }
}

fn connected_prefix() -> Vec<Ev> {
    vec![Ev::Enable(0), Ev::ConnectOk]
}

pub fn check_c10(tier: &str) -> i32 {
    let mut rep = Report::new(
        "C10",
        tier,
        "model_checking",
        "all event sequences up to depth D with at most K deviations over {submit (2 handles; future, callback and FfiChannel style), reply ok/exception/bad/partial+rest/stale, bad header, read error, EOF, write error, advance to the next deadline, advance 1 ms, enable, disable, set-decode, shutdown, drop handle, abort task, connect ok/fail} on the production TcpChannelTask (connector seam), queue capacity 2 and 16, max_response_timeouts None/1/2; every path is extended by an epilogue (drop all handles, expire all timers). After every event the set of completed requests and their results is compared with the reference client model; no request may complete twice or stay pending at the horizon. states = distinct reference-model states reached",
    );
    let thorough = rep.thorough();
    let (depth, k) = if thorough { (7, 3) } else { (5, 2) };
    rep.bounds = json!({"depth_after_prefix": depth, "max_deviations": k, "max_requests": 3, "handles": 2});
    let cfgs = vec![
        SmCfg { cap: 16, max_timeouts: None, retry_min: 3, retry_max: 12, handles: 2, decode: (0, 0, 0) },
        SmCfg { cap: 2, max_timeouts: Some(1), retry_min: 3, retry_max: 12, handles: 2, decode: (0, 0, 0) },
        SmCfg { cap: 2, max_timeouts: Some(2), retry_min: 3, retry_max: 12, handles: 1, decode: (3, 2, 2) },
    ];
    let filter = |e: &Ev, _m: &ClientModel| match e {
        // the second handle only submits and is dropped
        Ev::Enable(1) | Ev::Disable(1) | Ev::SetDecode(1) | Ev::Shutdown(1) => false,
        Ev::Submit { handle: 1, style, .. } => *style == MStyle::Future,
        _ => true,
    };
    for cfg in &cfgs {
        let x = Explore { prop: "C10", cfg, depth: depth + 2, max_dev: k, max_requests: 3, aspects: "C", filter: &filter, cost: &default_cost };
        // from the connected state and from a cold start
        let st = explore(&x, &[connected_prefix()]);
        rep.phase(&format!("from connected, cap={} N={:?}", cfg.cap, cfg.max_timeouts), st, json!({"cfg": cfg}));
        let x = Explore { prop: "C10", cfg, depth: depth.min(5), max_dev: k, max_requests: 2, aspects: "C", filter: &filter, cost: &default_cost };
        let st = explore(&x, &[vec![]]);
        rep.phase(&format!("from cold start, cap={} N={:?}", cfg.cap, cfg.max_timeouts), st, json!({"cfg": cfg}));
    }
    for c in ["ev:submit-future", "ev:submit-callback", "ev:submit-ffi", "ev:reply-ok", "ev:reply-partial", "ev:reply-rest", "ev:read-error", "ev:eof", "ev:write-error-next", "ev:advance-to-next", "ev:disable", "ev:shutdown", "ev:drop-handle", "ev:abort-task", "ev:connect-fail", "ev:bad-header", "ev:reply-stale"] {
        rep.require_class(c);
    }
    rep.assumptions.push("a reply completing in the same virtual millisecond as its deadline is excluded (tokio select! tie)".into());
    rep.assumptions.push("for FfiChannel calls refused synchronously (queue full / closed) only 'exactly one callback with an error' is judged".into());
    rep.finish()
}

#[allow(dead_code)]
pub fn unused(_: Values) {}

//! C10-C14 (and the client half of C20): the production TCP client task explored event by event
//! against `ClientModel`.

use crate::hclient::*;
use crate::hserver::{decode_level, hex, trunc};
use crate::refmodel::client::*;
use crate::refmodel::pdu::Values;
use crate::report::*;
use crate::sim::{Task, WriteMode};
use rodbus::client::ClientState;
use serde::{Deserialize, Serialize};
use serde_json::json;

#[derive(Clone, Debug, Serialize, Deserialize, PartialEq, Eq, Hash)]
pub struct SmCfg {
    pub cap: usize,
    pub max_timeouts: Option<usize>,
    pub retry_min: u64,
    pub retry_max: u64,
    pub handles: usize,
    pub decode: (u8, u8, u8),
}

#[derive(Clone, Debug)]
pub struct Problem {
    pub aspect: char,
    pub sig: String,
    pub desc: String,
    pub step: usize,
}

pub struct PathResult {
    pub problems: Vec<Problem>,
    pub model: ClientModel,
    /// observation log (for determinism audits and differential checks)
    pub obs: Vec<String>,
}

fn mstate(s: &ClientState) -> MState {
    match s {
        ClientState::Disabled => MState::Disabled,
        ClientState::Connecting => MState::Connecting,
        ClientState::Connected => MState::Connected,
        ClientState::WaitAfterFailedConnect(d) => MState::WaitAfterFailedConnect(d.as_millis() as u64),
        ClientState::WaitAfterDisconnect(d) => MState::WaitAfterDisconnect(d.as_millis() as u64),
        ClientState::Shutdown => MState::Shutdown,
    }
}

fn strip(s: &MState) -> MState {
    match s {
        MState::WaitAfterFailedConnect(_) => MState::WaitAfterFailedConnect(0),
        MState::WaitAfterDisconnect(_) => MState::WaitAfterDisconnect(0),
        x => x.clone(),
    }
}

fn out_matches(exp: &OutClass, got: &Outcome) -> bool {
    match (exp, got) {
        (OutClass::Ok(v), Outcome::Ok(g)) => v == g,
        (OutClass::Exception(c), Outcome::Err(ErrClass::Exception(g))) => c == g,
        (OutClass::NoConnection, Outcome::Err(ErrClass::NoConnection)) => true,
        (OutClass::Timeout, Outcome::Err(ErrClass::Timeout)) => true,
        (OutClass::Io(k), Outcome::Err(ErrClass::Io(g))) => k == g,
        (OutClass::BadFrame, Outcome::Err(ErrClass::BadFrame)) => true,
        (OutClass::BadResponse, Outcome::Err(ErrClass::BadResponse)) => true,
        (OutClass::Shutdown, Outcome::Err(ErrClass::Shutdown)) => true,
        (OutClass::AnyError, Outcome::Err(_)) => true,
        _ => false,
    }
}

fn style_of(s: MStyle) -> Style {
    match s {
        MStyle::Future => Style::Future,
        MStyle::Callback => Style::Callback,
        MStyle::Ffi => Style::Ffi,
    }
}

struct Driver {
    h: ClientTaskHarness,
    model: ClientModel,
    /// results of command calls made through handles (Ok / Err(Shutdown)), most recent last
    cmd_results: std::sync::Arc<std::sync::Mutex<Vec<bool>>>,
    seen_ids: Vec<usize>,
}

impl Driver {
    fn command(&mut self, handle: usize, which: &Ev) {
        let ch = self.h.handles[handle].as_ref().expect("alive").clone();
        let res = self.cmd_results.clone();
        let level = decode_level((3, 2, 2));
        let which = which.clone();
        let t: Task<()> = Task::new(async move {
            let r = match which {
                Ev::Enable(_) => ch.enable().await,
                Ev::Disable(_) => ch.disable().await,
                Ev::SetDecode(_) => ch.set_decode_level(level).await,
                _ => ch.shutdown().await,
            };
            res.lock().unwrap().push(r.is_ok());
        });
        self.h.pending.push((handle, Submitted { id: usize::MAX, style: Style::Future, task: Some(t) }));
    }
}

/// make the event happen in the harness (the model is not advanced and the client task is not polled)
fn inject(d: &mut Driver, ev: &Ev, problems: &mut Vec<Problem>, obs_log: &mut Vec<String>, i: usize) {
    let before_now = d.model.now;
    let next_timer = d.model.next_timer();
    let delivery = d.model.delivery(ev);
    match ev {
        Ev::ReplyRest => {
            let rest = d.model.partial_rest.clone().expect("partial pending");
            d.h.io().expect("io").deliver(&rest);
        }
        Ev::Enable(h) | Ev::Disable(h) | Ev::SetDecode(h) | Ev::Shutdown(h) => d.command(*h, ev),
        Ev::Submit { handle, style, timeout_ms } => {
            let id = d.model.next_req;
            let r = d.h.submit(*handle, &request_for(id), d.model.unit, *timeout_ms, style_of(*style));
            obs_log.push(format!("submit {id} -> {:?}", r.as_ref().err()));
        }
        Ev::DropHandle(h) => {
            d.h.handles[*h] = None;
            d.h.pending.retain(|(hh, _)| hh != h);
        }
        Ev::AbortTask => d.h.task.abort(),
        Ev::ConnectOk => {
            if !d.h.connect_ok() {
                problems.push(Problem { aspect: 'L', sig: "no-attempt-pending".into(), desc: "model is Connecting but no connection attempt is pending".into(), step: i });
            }
        }
        Ev::ConnectFail => {
            if !d.h.connect_fail(std::io::ErrorKind::ConnectionRefused) {
                problems.push(Problem { aspect: 'L', sig: "no-attempt-pending".into(), desc: "model is Connecting but no connection attempt is pending".into(), step: i });
            }
        }
        Ev::ReplyOk | Ev::ReplyException | Ev::ReplyBad | Ev::ReplyStale(_) | Ev::BadHeader | Ev::ReplyPartial(_) => {
            d.h.io().expect("io").deliver(delivery.as_ref().unwrap());
        }
        Ev::ReadError => d.h.io().expect("io").read_error(std::io::ErrorKind::ConnectionReset),
        Ev::Eof => d.h.io().expect("io").eof(),
        Ev::WriteErrorNext => d.h.io().expect("io").set_write_mode(WriteMode::Error(std::io::ErrorKind::BrokenPipe)),
        Ev::WriteBlockNext(n) => d.h.io().expect("io").set_write_mode(WriteMode::BlockAfter(*n)),
        Ev::WriteUnblock => d.h.io().expect("io").set_write_mode(WriteMode::Accept),
        Ev::AdvanceBy(ms) => crate::sim::advance(*ms),
        Ev::AdvanceToNext => crate::sim::advance(next_timer.unwrap() - before_now),
        Ev::Advance1 => crate::sim::advance(1),
        Ev::AdvanceToJustBefore => crate::sim::advance(next_timer.unwrap() - 1 - before_now),
    }
}

/// When set (to a property's aspects), `run_path` does not stop at a divergence that concerns only
/// *other* aspects: C03 judges wire bytes only, and a wire divergence that follows a completion
/// divergence would otherwise never be reached. One check runs per process, so a global is enough.
pub static KEEP_GOING_UNLESS: std::sync::Mutex<Option<String>> = std::sync::Mutex::new(None);

/// execute one path from a fresh task; stops at the first divergence from the model
/// every caller is protected against a spin inside one poll: an unguarded caller would hang for
/// good (seed s174 did that to C05's connection-boundary phase)
pub fn run_path(cfg: &SmCfg, events: &[Ev]) -> PathResult {
    let describe = || ("client-sm".to_string(), format!("path {events:?}"), json!({"kind": "client-sm", "property": crate::report::current_property(), "cfg": cfg, "events": events, "aspects": "WCTLDP"}));
    crate::sim::watchdog::guard(&describe, || run_path_unguarded(cfg, events))
}

fn run_path_unguarded(cfg: &SmCfg, events: &[Ev]) -> PathResult {
    let tcfg = ClientTaskCfg {
        queue: cfg.cap,
        max_timeouts: cfg.max_timeouts,
        retry_min_ms: cfg.retry_min,
        retry_max_ms: cfg.retry_max,
        decode: decode_level(cfg.decode),
        handles: cfg.handles,
    };
    let mut d = Driver {
        h: ClientTaskHarness::new(&tcfg),
        model: ClientModel::new(cfg.cap, cfg.max_timeouts, cfg.retry_min, cfg.retry_max, cfg.handles),
        cmd_results: Default::default(),
        seen_ids: vec![],
    };
    let mut problems = vec![];
    let mut obs_log = vec![];
    let keep: Option<String> = KEEP_GOING_UNLESS.lock().unwrap().clone();
    // first poll
    let e = d.model.start();
    let ok = d.h.settle();
    compare(&mut d, &e, ok, usize::MAX, &mut problems, &mut obs_log, 0);
    if !problems.is_empty() {
        return PathResult { problems, model: d.model, obs: obs_log };
    }
    for (i, ev) in events.iter().enumerate() {
        obs_log.push("--step--".to_string());
        let n_ios = d.h.ios.len();
        inject(&mut d, ev, &mut problems, &mut obs_log, i);
        let e = d.model.apply(ev);
        let ok = d.h.settle();
        compare(&mut d, &e, ok, n_ios, &mut problems, &mut obs_log, i);
        if !problems.is_empty() {
            let keep_going = match &keep {
                Some(aspects) => !problems.iter().any(|p| aspects.contains(p.aspect) || p.aspect == 'P' || p.sig == "no-attempt-pending"),
                None => false,
            };
            if !keep_going {
                break;
            }
        }
    }
    PathResult { problems, model: d.model, obs: obs_log }
}

/// everything the harness can see after a step (taking it is destructive, judging it is not)
struct Obs {
    panicked: Option<String>,
    settled: bool,
    wire: Vec<Vec<u8>>,
    done: Vec<(usize, Outcome, u64)>,
    completed_twice: Vec<usize>,
    states: Vec<(ClientState, u64)>,
    attempts: Vec<u64>,
    /// was the transport that was open before the step dropped? (None: there was none)
    prev_io_dropped: Option<bool>,
    n_ios_after: usize,
    task_done: bool,
    cmd_results: Vec<bool>,
    disabled_before_close: u32,
}

fn observe(d: &mut Driver, settled: bool, n_ios_before: usize, log: &mut Vec<String>) -> Obs {
    let mut wire: Vec<Vec<u8>> = vec![];
    for io in &d.h.ios {
        wire.extend(io.take_written());
    }
    log.push(format!("wire {:?}", wire.iter().map(|w| hex(w)).collect::<Vec<_>>()));
    let done = d.h.take_done();
    log.push(format!("done {done:?}"));
    let mut completed_twice = vec![];
    for (id, _, _) in &done {
        if d.seen_ids.contains(id) {
            completed_twice.push(*id);
        }
        d.seen_ids.push(*id);
    }
    let states = d.h.take_states();
    log.push(format!("states {states:?}"));
    let attempts = d.h.take_attempts();
    log.push(format!("attempts {attempts:?}"));
    let prev_io_dropped = if n_ios_before != usize::MAX && n_ios_before > 0 { Some(d.h.ios[n_ios_before - 1].is_dropped()) } else { None };
    let cmd_results = std::mem::take(&mut *d.cmd_results.lock().unwrap());
    log.push(format!("cmd {cmd_results:?} done={}", d.h.task.is_done()));
    Obs {
        panicked: d.h.task.panicked.clone(),
        settled,
        wire,
        done,
        completed_twice,
        states,
        attempts,
        prev_io_dropped,
        n_ios_after: d.h.ios.len(),
        task_done: d.h.task.is_done(),
        cmd_results,
        disabled_before_close: std::mem::take(&mut d.h.conn.lock().unwrap().disabled_before_close),
    }
}

/// compare an observation with what the model (already advanced past the step) expects
fn judge_obs(o: &Obs, e: &Expected, model: &ClientModel, n_ios_before: usize, step: usize) -> Vec<Problem> {
    let mut problems = vec![];
    let mut p = |aspect: char, sig: &str, desc: String| problems.push(Problem { aspect, sig: sig.to_string(), desc, step });
    if let Some(msg) = &o.panicked {
        p('P', "panic", format!("client task panicked: {msg}"));
        return problems;
    }
    if !o.settled {
        p('P', "busy-loop", "poll budget exceeded".into());
        return problems;
    }
    let now = model.now;
    if o.wire != e.wire {
        p(
            'W',
            "wire",
            format!(
                "expected frames {:?} got {:?}",
                e.wire.iter().map(|w| hex(w)).collect::<Vec<_>>(),
                o.wire.iter().map(|w| hex(w)).collect::<Vec<_>>()
            ),
        );
    }
    for id in &o.completed_twice {
        p('C', "completed-twice", format!("request {id} completed a second time"));
    }
    let mut exp: Vec<&(usize, OutClass)> = e.completions.iter().collect();
    for (id, out, at) in &o.done {
        match exp.iter().position(|x| x.0 == *id) {
            None => p('C', "unexpected-completion", format!("request {id} completed with {} (not expected now)", trunc(&format!("{out:?}")))),
            Some(pos) => {
                let (_, want) = exp.remove(pos);
                if !out_matches(want, out) {
                    let sig = match (want, out) {
                        (OutClass::Ok(_), Outcome::Ok(_)) => "wrong-values".to_string(),
                        _ => format!("wrong-result:{}", class_name(want)),
                    };
                    p('C', &sig, format!("request {id}: expected {} got {}", trunc(&format!("{want:?}")), trunc(&format!("{out:?}"))));
                }
                if *at != now {
                    p('T', "completion-time", format!("request {id} completed at {at} ms, expected {now} ms"));
                }
            }
        }
    }
    for (id, want) in exp {
        p('C', &format!("missing-completion:{}", class_name(want)), format!("request {id} should have completed with {} at {now} ms", trunc(&format!("{want:?}"))));
    }
    // listener
    let got: Vec<MState> = o.states.iter().map(|(s, _)| mstate(s)).collect();
    let got_s: Vec<MState> = got.iter().map(strip).collect();
    let exp_s: Vec<MState> = e.states.iter().map(strip).collect();
    if got_s != exp_s {
        p('L', "listener-states", format!("expected {:?} got {:?}", e.states, got));
    } else if got != e.states {
        p('D', "announced-delay", format!("expected {:?} got {:?}", e.states, got));
    }
    for (_, at) in &o.states {
        if *at != now {
            p('D', "announcement-time", format!("state announced at {at} ms, expected {now} ms"));
        }
    }
    // attempts
    if o.attempts.len() != e.attempts {
        p('L', "connect-attempts", format!("expected {} connection attempts got {:?}", e.attempts, o.attempts));
    }
    for a in &o.attempts {
        if *a != now {
            p('D', "attempt-time", format!("connection attempt at {a} ms, expected {now} ms"));
        }
    }
    // transport
    if let Some(dropped) = o.prev_io_dropped {
        let connected_after = matches!(model.phase, Phase::Idle | Phase::InFlight { .. }) && o.n_ios_after == n_ios_before;
        if e.transport_dropped && !dropped {
            p('L', "transport-not-closed", "the connection should have been closed in this step".into());
        }
        if connected_after && dropped {
            p('L', "transport-closed", "the connection was closed although the model says it stays open".into());
        }
    }
    if o.disabled_before_close > 0 {
        p('L', "disabled-announced-before-close", "the listener was told Disabled while the connection was still open".into());
    }
    // task end
    if o.task_done != model.done() {
        p('L', "task-end", format!("task finished: {}, model: {}", o.task_done, model.done()));
    }
    // command result
    if let Some(want) = e.command_ok {
        if o.cmd_results != vec![want] {
            p('L', "command-result", format!("handle call returned {:?}, expected ok={want}", o.cmd_results));
        }
    }
    problems
}

fn compare(d: &mut Driver, e: &Expected, settled: bool, n_ios_before: usize, problems: &mut Vec<Problem>, log: &mut Vec<String>, step: usize) {
    let o = observe(d, settled, n_ios_before, log);
    problems.extend(judge_obs(&o, e, &d.model, n_ios_before, step));
}

// ---------------------------------------------------------------------------------------------
// ties: two events that become visible to the client task in the same poll (a command or request
// queued at the very instant a timer fires, a connect attempt resolves or the peer's bytes arrive).
// Which of the two the task handles first is tokio's choice (`select!` starts at a random branch),
// so both orders are acceptable - but nothing else is: in particular nothing may be lost.
// ---------------------------------------------------------------------------------------------

fn merge_expected(a: Expected, b: Expected) -> Expected {
    Expected {
        wire: [a.wire, b.wire].concat(),
        completions: [a.completions, b.completions].concat(),
        states: [a.states, b.states].concat(),
        attempts: a.attempts + b.attempts,
        transport_dropped: a.transport_dropped || b.transport_dropped,
        task_done: a.task_done || b.task_done,
        command_ok: a.command_ok.or(b.command_ok),
        ffi_refused: a.ffi_refused || b.ffi_refused,
    }
}

/// the environment event `b` (chosen while the model was in state m0, `dt` = the clock advance it
/// stands for) applied to a model that may have moved on: an event that no longer applies is moot
fn apply_env(m: &mut ClientModel, b: &Ev, dt: u64) -> Expected {
    match b {
        Ev::AdvanceToNext => {
            let target = m.now + dt;
            let mut acc = Expected::default();
            loop {
                match m.next_timer() {
                    Some(t) if t <= target && !m.done() => acc = merge_expected(acc, m.apply(&Ev::AdvanceToNext)),
                    _ => break,
                }
            }
            if m.now < target {
                m.now = target;
            }
            acc
        }
        _ => {
            if !m.done() && m.enabled_events(usize::MAX).contains(b) {
                m.apply(b)
            } else {
                Expected::default()
            }
        }
    }
}

fn apply_caller(m: &mut ClientModel, a: &Ev) -> Option<Expected> {
    let h = match a {
        Ev::Enable(h) | Ev::Disable(h) | Ev::SetDecode(h) | Ev::Shutdown(h) | Ev::DropHandle(h) => *h,
        Ev::Submit { handle, .. } => *handle,
        _ => return None,
    };
    if !m.handles[h] {
        return None;
    }
    Some(m.apply(a))
}

pub struct TieResult {
    pub prefix_ok: bool,
    pub problems: Vec<Problem>,
    pub order: &'static str,
    pub obs: Vec<String>,
}

pub fn run_tie_path(cfg: &SmCfg, prefix: &[Ev], a: &Ev, b: &Ev) -> TieResult {
    let tcfg = ClientTaskCfg {
        queue: cfg.cap,
        max_timeouts: cfg.max_timeouts,
        retry_min_ms: cfg.retry_min,
        retry_max_ms: cfg.retry_max,
        decode: decode_level(cfg.decode),
        handles: cfg.handles,
    };
    let mut d = Driver {
        h: ClientTaskHarness::new(&tcfg),
        model: ClientModel::new(cfg.cap, cfg.max_timeouts, cfg.retry_min, cfg.retry_max, cfg.handles),
        cmd_results: Default::default(),
        seen_ids: vec![],
    };
    let mut problems = vec![];
    let mut obs_log = vec![];
    let e = d.model.start();
    let ok = d.h.settle();
    compare(&mut d, &e, ok, usize::MAX, &mut problems, &mut obs_log, 0);
    for (i, ev) in prefix.iter().enumerate() {
        if !problems.is_empty() {
            break;
        }
        let n_ios = d.h.ios.len();
        inject(&mut d, ev, &mut problems, &mut obs_log, i);
        let e = d.model.apply(ev);
        let ok = d.h.settle();
        compare(&mut d, &e, ok, n_ios, &mut problems, &mut obs_log, i);
    }
    if !problems.is_empty() {
        return TieResult { prefix_ok: false, problems, order: "-", obs: obs_log };
    }
    // the tie
    let step = prefix.len();
    let m0 = d.model.clone();
    let n_ios = d.h.ios.len();
    let dt = match b {
        Ev::AdvanceToNext => m0.next_timer().expect("timer armed") - m0.now,
        _ => 0,
    };
    obs_log.push("--tie--".to_string());
    inject(&mut d, a, &mut problems, &mut obs_log, step);
    let ok_callers = d.h.settle_callers();
    inject(&mut d, b, &mut problems, &mut obs_log, step);
    let ok = d.h.settle() && ok_callers;
    let o = observe(&mut d, ok, n_ios, &mut obs_log);
    // caller first, then the environment
    let mut m1 = m0.clone();
    let alt1 = apply_caller(&mut m1, a).map(|ea| {
        let eb = apply_env(&mut m1, b, dt);
        merge_expected(ea, eb)
    });
    // the environment first, then the caller
    let mut m2 = m0.clone();
    let eb2 = apply_env(&mut m2, b, dt);
    let alt2 = apply_caller(&mut m2, a).map(|ea| merge_expected(eb2, ea));
    let p1 = alt1.as_ref().map(|e| judge_obs(&o, e, &m1, n_ios, step));
    let p2 = alt2.as_ref().map(|e| judge_obs(&o, e, &m2, n_ios, step));
    let order;
    match (p1, p2) {
        (Some(p), _) if p.is_empty() => {
            d.model = m1;
            order = "caller-first";
        }
        (_, Some(p)) if p.is_empty() => {
            d.model = m2;
            order = "environment-first";
        }
        (p1, p2) => {
            let mut all = p1.unwrap_or_default();
            for mut q in p2.unwrap_or_default() {
                q.desc = format!("(other order) {}", q.desc);
                all.push(q);
            }
            return TieResult { prefix_ok: true, problems: all, order: "neither", obs: obs_log };
        }
    }
    // run to the horizon from the adopted model
    let tail = epilogue(&d.model);
    for (k, ev) in tail.iter().enumerate() {
        let i = step + 1 + k;
        let n_ios = d.h.ios.len();
        inject(&mut d, ev, &mut problems, &mut obs_log, i);
        let e = d.model.apply(ev);
        let ok = d.h.settle();
        compare(&mut d, &e, ok, n_ios, &mut problems, &mut obs_log, i);
        if !problems.is_empty() {
            break;
        }
    }
    TieResult { prefix_ok: true, problems, order, obs: obs_log }
}

pub fn explore_ties(prop: &str, aspects: &str, cfg: &SmCfg, prefix_depth: usize, repeats: usize) -> Stats {
    // prefixes: every path of the life-cycle alphabet up to the depth
    let sub = |style: MStyle| Ev::Submit { handle: 0, style, timeout_ms: 5 };
    let mut prefixes: Vec<Vec<Ev>> = vec![];
    fn rec(m: &ClientModel, path: &mut Vec<Ev>, depth: usize, out: &mut Vec<Vec<Ev>>) {
        out.push(path.clone());
        if path.len() >= depth || m.done() {
            return;
        }
        let mut evs = m.enabled_events(3);
        evs.retain(|e| {
            matches!(
                e,
                Ev::Enable(0) | Ev::Disable(0) | Ev::ConnectOk | Ev::ConnectFail | Ev::Eof | Ev::ReplyOk | Ev::AdvanceToNext | Ev::Submit { handle: 0, style: MStyle::Future, .. }
            )
        });
        for e in evs {
            let mut m2 = m.clone();
            m2.apply(&e);
            path.push(e);
            rec(&m2, path, depth, out);
            path.pop();
        }
    }
    let mut m = ClientModel::new(cfg.cap, cfg.max_timeouts, cfg.retry_min, cfg.retry_max, cfg.handles);
    m.start();
    m.apply(&Ev::Enable(0));
    rec(&m, &mut vec![Ev::Enable(0)], prefix_depth, &mut prefixes);
    let callers = vec![sub(MStyle::Future), sub(MStyle::Callback), Ev::Disable(0), Ev::Enable(0), Ev::SetDecode(0), Ev::Shutdown(0), Ev::DropHandle(0), Ev::DropHandle(1)];
    let prop = prop.to_string();
    let aspects = aspects.to_string();
    parallel(prefixes.len(), |j, st| {
        let prefix = &prefixes[j];
        let mut m = ClientModel::new(cfg.cap, cfg.max_timeouts, cfg.retry_min, cfg.retry_max, cfg.handles);
        m.start();
        for e in prefix {
            m.apply(e);
        }
        if m.done() {
            return;
        }
        let envs: Vec<Ev> = m
            .enabled_events(0)
            .into_iter()
            .filter(|e| matches!(e, Ev::AdvanceToNext | Ev::ConnectOk | Ev::ConnectFail | Ev::Eof | Ev::ReadError | Ev::ReplyOk | Ev::BadHeader))
            .collect();
        for a in &callers {
            let alive = match a {
                Ev::DropHandle(h) => m.handles.get(*h).copied().unwrap_or(false),
                _ => m.handles[0],
            };
            if !alive {
                continue;
            }
            for b in &envs {
                for _ in 0..repeats {
                    let describe = || ("client-tie".to_string(), format!("prefix {prefix:?} tie ({a:?} || {b:?})"), json!({"kind": "client-tie", "property": prop, "cfg": cfg, "prefix": prefix, "a": a, "b": b, "aspects": aspects}));
                    let r = crate::sim::watchdog::guard(&describe, || run_tie_path(cfg, prefix, a, b));
                    st.evaluations += 1;
                    if !r.prefix_ok {
                        st.class("tie:prefix-diverged");
                        continue;
                    }
                    st.traces += 1;
                    st.transitions += prefix.len() as u64 + 2;
                    st.class(match r.order {
                        "caller-first" => "tie:caller-first",
                        "environment-first" => "tie:environment-first",
                        _ => "tie:neither-order",
                    });
                    st.class(ev_name(b));
                    st.observe(&(prefix.len(), a, b, r.order));
                    if st.traces % 997 == 0 {
                        st.sample(json!({"prefix": format!("{prefix:?}"), "tie": format!("{a:?} || {b:?}"), "resolved_as": r.order}));
                    }
                    let relevant: Vec<&Problem> = r.problems.iter().filter(|p| aspects.contains(p.aspect) || p.aspect == 'P').collect();
                    if let Some(p) = relevant.first() {
                        st.violation(Violation {
                            signature: format!("tie:{}", p.sig),
                            summary: format!("prefix {prefix:?}, then {a:?} and {b:?} in the same poll: {}", r.problems.iter().map(|p| p.desc.clone()).collect::<Vec<_>>().join(" | ")),
                            replay: json!({"kind": "client-tie", "property": prop, "cfg": cfg, "prefix": prefix, "a": a, "b": b, "aspects": aspects}),
                        });
                        break;
                    }
                }
            }
        }
    })
}

fn class_name(c: &OutClass) -> &'static str {
    match c {
        OutClass::Ok(_) => "ok",
        OutClass::Exception(_) => "exception",
        OutClass::NoConnection => "no-connection",
        OutClass::Timeout => "timeout",
        OutClass::Io(_) => "io",
        OutClass::BadFrame => "bad-frame",
        OutClass::BadResponse => "bad-response",
        OutClass::Shutdown => "shutdown",
        OutClass::AnyError => "any-error",
    }
}

/// the epilogue that turns "never left pending" into a finite check: drop every handle, then
/// let every armed timer expire; the task must end and every request must have completed
pub fn epilogue(model: &ClientModel) -> Vec<Ev> {
    let mut m = model.clone();
    let mut v = vec![];
    if matches!(m.phase, Phase::Writing { .. }) {
        // a task blocked in a write never ends by itself: let the transport drain first
        v.push(Ev::WriteUnblock);
        m.apply(&Ev::WriteUnblock);
    }
    for h in 0..m.handles.len() {
        if m.handles[h] {
            v.push(Ev::DropHandle(h));
            m.apply(&Ev::DropHandle(h));
        }
    }
    let mut guard = 0;
    while !m.done() && m.next_timer().is_some() && guard < 8 {
        // a pending connection attempt never resolves on its own
        v.push(Ev::AdvanceToNext);
        m.apply(&Ev::AdvanceToNext);
        guard += 1;
    }
    v
}

#[derive(Clone, Copy)]
pub struct Explore<'a> {
    pub prop: &'a str,
    pub cfg: &'a SmCfg,
    pub depth: usize,
    pub max_dev: usize,
    pub max_requests: usize,
    pub aspects: &'a str,
    /// event filter: which events belong to this property's alphabet
    pub filter: &'a (dyn Fn(&Ev, &ClientModel) -> bool + Sync),
    /// 0 = default environment answer, 1 = deviation
    pub cost: &'a (dyn Fn(&Ev) -> usize + Sync),
    /// additional events for this property's alphabet
    pub extra: &'a (dyn Fn(&ClientModel) -> Vec<Ev> + Sync),
}

pub fn no_extra(_: &ClientModel) -> Vec<Ev> {
    vec![]
}

fn next_events(x: &Explore, m: &ClientModel) -> Vec<Ev> {
    let mut v = m.enabled_events(x.max_requests);
    v.retain(|e| (x.filter)(e, m));
    for e in (x.extra)(m) {
        if !v.contains(&e) {
            v.push(e);
        }
    }
    v
}

fn judge(x: &Explore, path: &[Ev], res: &PathResult, st: &mut Stats, tag: &str) -> bool {
    let mut relevant = false;
    for p in &res.problems {
        if x.aspects.contains(p.aspect) || p.aspect == 'P' {
            relevant = true;
            st.violation(Violation {
                signature: p.sig.clone(),
                summary: format!("{tag}path {:?} step {}: {}", path, p.step, p.desc),
                replay: json!({"kind": "client-sm", "property": x.prop, "cfg": x.cfg, "events": path, "aspects": x.aspects}),
            });
        }
    }
    if !relevant && !res.problems.is_empty() {
        st.class("diverged-on-another-property's-aspect");
    }
    relevant
}

fn rec(x: &Explore, path: &mut Vec<Ev>, dev: usize, st: &mut Stats) {
    let describe = || ("client-sm".to_string(), format!("path {path:?}"), json!({"kind": "client-sm", "property": x.prop, "cfg": x.cfg, "events": path, "aspects": x.aspects}));
    let res = crate::sim::watchdog::guard(&describe, || run_path(x.cfg, path));
    st.evaluations += 1;
    st.transitions += path.len() as u64;
    st.state(&res.model);
    if !res.problems.is_empty() {
        let relevant = judge(x, path, &res, st, "");
        if relevant || KEEP_GOING_UNLESS.lock().unwrap().is_none() {
            return;
        }
    }
    if let Some(last) = path.last() {
        st.class(ev_name(last));
    }
    let leaf = path.len() >= x.depth;
    // every maximal path (and every 16th inner node) is run to its horizon
    if leaf || st.evaluations % 16 == 0 {
        let mut full = path.clone();
        full.extend(epilogue(&res.model));
        let r2 = crate::sim::watchdog::guard(&describe, || run_path(x.cfg, &full));
        st.traces += 1;
        st.transitions += full.len() as u64;
        st.observe(&r2.obs);
        if r2.problems.is_empty() {
            // horizon oracle
            if !r2.model.open.is_empty() && x.aspects.contains('C') {
                // only requests whose caller went away may stay unaccounted
                let missing: Vec<&usize> = r2.model.open.iter().filter(|id| !r2.model.abandoned.contains(id)).collect();
                if !missing.is_empty() {
                    st.violation(Violation {
                        signature: "MACHINERY:model-open-at-horizon".into(),
                        summary: format!("model still has open requests {missing:?} at the horizon of {full:?}"),
                        replay: json!({"kind": "client-sm", "property": x.prop, "cfg": x.cfg, "events": full, "aspects": x.aspects}),
                    });
                }
            }
            if !r2.model.done() && r2.model.phase != Phase::Connecting {
                st.class("horizon-not-done");
            }
        } else {
            judge(x, &full, &r2, st, "(with epilogue) ");
        }
        if st.traces % 64 == 1 {
            let r3 = run_path(x.cfg, &full);
            st.audits += 1;
            if r3.obs != r2.obs {
                st.violation(Violation {
                    signature: "MACHINERY:nondeterminism".into(),
                    summary: format!("path {full:?} gave two different observation logs"),
                    replay: json!({"kind": "client-sm", "property": x.prop, "cfg": x.cfg, "events": full, "aspects": x.aspects}),
                });
            }
        }
        if st.traces % 4001 == 1 {
            st.sample(json!({"cfg": x.cfg, "events": format!("{full:?}")}));
        }
    }
    if leaf {
        return;
    }
    for ev in next_events(x, &res.model) {
        let c = (x.cost)(&ev);
        if dev + c > x.max_dev {
            continue;
        }
        path.push(ev);
        rec(x, path, dev + c, st);
        path.pop();
    }
}

pub fn ev_name(e: &Ev) -> &'static str {
    match e {
        Ev::Enable(_) => "ev:enable",
        Ev::Disable(_) => "ev:disable",
        Ev::SetDecode(_) => "ev:set-decode",
        Ev::Shutdown(_) => "ev:shutdown",
        Ev::Submit { style: MStyle::Future, .. } => "ev:submit-future",
        Ev::Submit { style: MStyle::Callback, .. } => "ev:submit-callback",
        Ev::Submit { style: MStyle::Ffi, .. } => "ev:submit-ffi",
        Ev::DropHandle(_) => "ev:drop-handle",
        Ev::AbortTask => "ev:abort-task",
        Ev::ConnectOk => "ev:connect-ok",
        Ev::ConnectFail => "ev:connect-fail",
        Ev::ReplyOk => "ev:reply-ok",
        Ev::ReplyException => "ev:reply-exception",
        Ev::ReplyBad => "ev:reply-bad",
        Ev::ReplyPartial(_) => "ev:reply-partial",
        Ev::ReplyRest => "ev:reply-rest",
        Ev::ReplyStale(_) => "ev:reply-stale",
        Ev::BadHeader => "ev:bad-header",
        Ev::ReadError => "ev:read-error",
        Ev::Eof => "ev:eof",
        Ev::WriteErrorNext => "ev:write-error-next",
        Ev::WriteBlockNext(_) => "ev:write-block-next",
        Ev::WriteUnblock => "ev:write-unblock",
        Ev::AdvanceBy(_) => "ev:advance-by",
        Ev::AdvanceToNext => "ev:advance-to-next",
        Ev::Advance1 => "ev:advance-1ms",
        Ev::AdvanceToJustBefore => "ev:advance-to-just-before",
    }
}

/// explore from a set of prefixes in parallel: the tree is expanded breadth-first for a few levels
/// to obtain enough jobs, inner nodes of the expansion are evaluated once, leaves are explored
/// depth-first by the workers
pub fn explore(x: &Explore, prefixes: &[Vec<Ev>]) -> Stats {
    let mut inner: Vec<Vec<Ev>> = vec![];
    let mut frontier: Vec<(Vec<Ev>, usize)> = prefixes
        .iter()
        .map(|p| (p.clone(), p.iter().map(|e| (x.cost)(e)).sum()))
        .collect();
    let mut level = 0;
    while frontier.len() < 400 && level < 3 && !frontier.is_empty() {
        let mut next = vec![];
        for (pre, dev) in frontier {
            if pre.len() >= x.depth {
                next.push((pre, dev));
                continue;
            }
            let res = run_path(x.cfg, &pre);
            if !res.problems.is_empty() {
                next.push((pre, dev));
                continue;
            }
            let mut any = false;
            for ev in next_events(x, &res.model) {
                let c = (x.cost)(&ev);
                if dev + c > x.max_dev {
                    continue;
                }
                let mut p = pre.clone();
                p.push(ev);
                next.push((p, dev + c));
                any = true;
            }
            if any {
                inner.push(pre);
            } else {
                next.push((pre, dev));
            }
        }
        frontier = next;
        level += 1;
    }
    let mut total = parallel(frontier.len(), |i, st| {
        let (path, dev) = &frontier[i];
        let mut path = path.clone();
        rec(x, &mut path, *dev, st);
    });
    // inner nodes of the expansion: evaluated (with epilogue) but not extended again
    let st2 = parallel(inner.len(), |i, st| {
        let y = Explore { depth: inner[i].len(), ..*x };
        let mut path = inner[i].clone();
        let dev = path.iter().map(|e| (x.cost)(e)).sum();
        rec(&y, &mut path, dev, st);
    });
    total.merge(st2);
    total
}

pub fn replay(v: &serde_json::Value) -> Vec<(String, String)> {
    let cfg: SmCfg = serde_json::from_value(v["cfg"].clone()).unwrap();
    let events: Vec<Ev> = serde_json::from_value(v["events"].clone()).unwrap();
    let aspects = v["aspects"].as_str().unwrap_or("CWTLDP").to_string();
    // a divergence in an aspect the property does not judge must not hide a later one it does
    *KEEP_GOING_UNLESS.lock().unwrap() = Some(aspects.clone());
    let res = run_path(&cfg, &events);
    *KEEP_GOING_UNLESS.lock().unwrap() = None;
    res.problems
        .into_iter()
        .filter(|p| aspects.contains(p.aspect) || p.aspect == 'P')
        .map(|p| (p.sig, format!("step {}: {}", p.step, p.desc)))
        .collect()
}

/// a tie is resolved by tokio's random branch order: a failing case is replayed up to 16 times
pub fn replay_tie(v: &serde_json::Value) -> Vec<(String, String)> {
    let cfg: SmCfg = serde_json::from_value(v["cfg"].clone()).unwrap();
    let prefix: Vec<Ev> = serde_json::from_value(v["prefix"].clone()).unwrap();
    let a: Ev = serde_json::from_value(v["a"].clone()).unwrap();
    let b: Ev = serde_json::from_value(v["b"].clone()).unwrap();
    let aspects = v["aspects"].as_str().unwrap_or("CWTLDP").to_string();
    for _ in 0..16 {
        let r = run_tie_path(&cfg, &prefix, &a, &b);
        let out: Vec<(String, String)> = r.problems.into_iter().filter(|p| aspects.contains(p.aspect) || p.aspect == 'P').map(|p| (format!("tie:{}", p.sig), format!("step {}: {}", p.step, p.desc))).collect();
        if !out.is_empty() {
            return out;
        }
    }
    vec![]
}

/// back-pressure events: arm a blocked write while idle, let time pass while a write is blocked
pub fn write_block_extra(m: &ClientModel) -> Vec<Ev> {
    let mut v = vec![];
    match &m.phase {
        Phase::Idle if m.write_block_armed.is_none() && !m.write_error_armed && m.next_req < 3 => {
            for n in [0usize, 1, 7, 11] {
                v.push(Ev::WriteBlockNext(n));
            }
        }
        Phase::Writing { .. } => {
            v.push(Ev::AdvanceBy(1));
            v.push(Ev::AdvanceBy(5));
        }
        _ => {}
    }
    v
}

fn default_cost(e: &Ev) -> usize {
    match e {
        Ev::Enable(_) | Ev::ConnectOk | Ev::ReplyOk | Ev::AdvanceToNext | Ev::ReplyRest => 0,
        Ev::Submit { style: MStyle::Future, .. } => 0,
        _ => 1,
    }
}

fn connected_prefix() -> Vec<Ev> {
    vec![Ev::Enable(0), Ev::ConnectOk]
}

pub fn check_c10(tier: &str) -> i32 {
    let mut rep = Report::new(
        "C10",
        tier,
        "model_checking",
        "all event sequences up to depth D with at most K deviations over {submit (2 handles; future, callback and FfiChannel style), reply ok/exception/bad/partial+rest/stale, bad header, read error, EOF, write error, advance to the next deadline, advance 1 ms, enable, disable, set-decode, shutdown, drop handle, abort task, connect ok/fail} on the production TcpChannelTask (connector seam), queue capacity 2 and 16, max_response_timeouts None/1/2; every path is extended by an epilogue (drop all handles, expire all timers). After every event the set of completed requests and their results is compared with the reference client model; no request may complete twice or stay pending at the horizon. Ties: after every life-cycle prefix up to depth P, every pair (handle call or request, environment event) is made visible to the task in the same poll; both processing orders are accepted, nothing else. states = distinct reference-model states reached",
    );
    let thorough = rep.thorough();
    let (depth, k) = if thorough { (7, 3) } else { (6, 2) };
    rep.bounds = json!({"depth_after_prefix": depth, "max_deviations": k, "max_requests": 3, "handles": 2});
    let cfgs = vec![
        SmCfg { cap: 16, max_timeouts: None, retry_min: 3, retry_max: 12, handles: 2, decode: (0, 0, 0) },
        SmCfg { cap: 2, max_timeouts: Some(1), retry_min: 3, retry_max: 12, handles: 2, decode: (0, 0, 0) },
        SmCfg { cap: 2, max_timeouts: Some(2), retry_min: 3, retry_max: 12, handles: 1, decode: (3, 2, 2) },
    ];
    let filter = |e: &Ev, _m: &ClientModel| match e {
        // the second handle only submits and is dropped
        Ev::Enable(1) | Ev::Disable(1) | Ev::SetDecode(1) | Ev::Shutdown(1) => false,
        Ev::Submit { handle: 1, style, .. } => *style == MStyle::Future,
        _ => true,
    };
    // the enabled set cuts a reply after 9 bytes; exactly the 7 header bytes is the other interesting cut
    let header_only = |m: &ClientModel| -> Vec<Ev> {
        if matches!(m.phase, Phase::InFlight { .. }) && m.partial_rest.is_none() {
            vec![Ev::ReplyPartial(7)]
        } else {
            vec![]
        }
    };
    for cfg in &cfgs {
        let x = Explore { prop: "C10", cfg, depth: depth + 2, max_dev: k, max_requests: 3, aspects: "C", filter: &filter, cost: &default_cost, extra: &header_only };
        // from the connected state and from a cold start
        let st = explore(&x, &[connected_prefix()]);
        rep.phase(&format!("from connected, cap={} N={:?}", cfg.cap, cfg.max_timeouts), st, json!({"cfg": cfg}));
        let x = Explore { prop: "C10", cfg, depth: depth.min(5), max_dev: k, max_requests: 2, aspects: "C", filter: &filter, cost: &default_cost, extra: &no_extra };
        let st = explore(&x, &[vec![]]);
        rep.phase(&format!("from cold start, cap={} N={:?}", cfg.cap, cfg.max_timeouts), st, json!({"cfg": cfg}));
    }
    // a structured family deeper than the quick bound: a reply cut after n bytes by the loss of the
    // connection, reconnect, and a request that is answered in time on the new connection
    {
        let mut st = Stats::default();
        let cfg = &cfgs[0];
        let sub = Ev::Submit { handle: 0, style: MStyle::Future, timeout_ms: 5 };
        for n in 1..=12usize {
            for ender in [Ev::ReadError, Ev::Eof] {
                for style in [MStyle::Future, MStyle::Callback] {
                    let sub2 = Ev::Submit { handle: 0, style, timeout_ms: 5 };
                    let path = vec![Ev::Enable(0), Ev::ConnectOk, sub.clone(), Ev::ReplyPartial(n), ender.clone(), Ev::AdvanceToNext, Ev::ConnectOk, sub2.clone(), Ev::ReplyOk, sub2, Ev::ReplyOk];
                    let r = run_path(cfg, &path);
                    st.evaluations += 1;
                    st.traces += 1;
                    st.transitions += path.len() as u64;
                    st.class("reply-cut-by-connection-loss");
                    st.state(&r.model);
                    st.observe(&r.obs);
                    for p in r.problems.iter().filter(|p| "CP".contains(p.aspect)) {
                        st.violation(Violation {
                            signature: format!("across-connections:{}", p.sig),
                            summary: format!("path {:?} step {}: {}", path, p.step, p.desc),
                            replay: json!({"kind": "client-sm", "property": "C10", "cfg": cfg, "events": path, "aspects": "C"}),
                        });
                    }
                }
            }
        }
        rep.phase("reply cut by the loss of the connection, answered request on the next one", st, json!({}));
    }
    // back-pressure: the transport takes only the first n bytes of a request frame and then blocks;
    // time passes, calls are made, the transport drains: the request is still transmitted whole and
    // completes exactly once, by its reply or by a timeout counted from the end of its transmission
    {
        let cfg = &cfgs[0];
        let filter = |e: &Ev, _m: &ClientModel| {
            matches!(e, Ev::ReplyOk | Ev::AdvanceToNext | Ev::WriteUnblock | Ev::Eof | Ev::Disable(0) | Ev::Enable(0) | Ev::DropHandle(_) | Ev::ConnectOk | Ev::AbortTask)
                || matches!(e, Ev::Submit { handle: 0, style: MStyle::Future | MStyle::Callback, .. })
        };
        let cost = |e: &Ev| match e {
            Ev::Eof | Ev::Disable(_) | Ev::DropHandle(_) | Ev::AbortTask | Ev::Enable(_) => 1,
            _ => 0,
        };
        let x = Explore { prop: "C10", cfg, depth: if thorough { 9 } else { 8 }, max_dev: 1, max_requests: 2, aspects: "CW", filter: &filter, cost: &cost, extra: &write_block_extra };
        let st = explore(&x, &[connected_prefix()]);
        rep.phase("back-pressure: request frame partly written, transport blocked", st, json!({"cfg": cfg, "accepted_bytes": [0, 1, 7, 11]}));
    }
    // ties: a request or command queued in the very poll in which a timer fires, a connection
    // attempt resolves or bytes / EOF arrive
    for cfg in &cfgs[..2] {
        let st = explore_ties("C10", "C", cfg, if thorough { 5 } else { 4 }, 2);
        rep.phase(&format!("ties (two events in one poll), cap={} N={:?}", cfg.cap, cfg.max_timeouts), st, json!({"cfg": cfg, "prefix_depth": if thorough { 5 } else { 4 }, "runs_per_tie": 2}));
    }
    // the request loop over RTU framing (serial links): one connection, no transaction ids
    for (cap, n) in [(16usize, None), (2, Some(2usize))] {
        let scfg = SessCfg { rtu: true, cap, max_timeouts: n, decode: (0, 0, 0) };
        let x = SessExplore { prop: "C10", cfg: &scfg, depth: depth + 1, max_dev: k, max_requests: 3, aspects: "C", timeouts: &[5] };
        let st = explore_session(&x);
        rep.phase(&format!("RTU request loop, cap={cap} N={n:?}"), st, json!({"cfg": scfg}));
    }
    for c in ["ev:submit-future", "ev:submit-callback", "ev:submit-ffi", "ev:reply-ok", "ev:reply-partial", "ev:reply-rest", "ev:read-error", "ev:eof", "ev:write-error-next", "ev:advance-to-next", "ev:disable", "ev:shutdown", "ev:drop-handle", "ev:abort-task", "ev:connect-fail", "ev:bad-header", "ev:reply-stale", "tie:caller-first", "ev:write-block-next", "ev:write-unblock", "ev:advance-by"] {
        rep.require_class(c);
    }
    rep.assumptions.push("a reply arriving in the same virtual millisecond as its deadline may be accepted or not (tokio select! tie): not judged".into());
    rep.assumptions.push("ties are resolved by tokio's random select! start branch, which the harness does not control: each tie is run twice and both processing orders are accepted (counts per order are in outcome_classes)".into());
    rep.assumptions.push("for FfiChannel calls refused synchronously (queue full / closed) only 'exactly one callback with an error' is judged".into());
    rep.finish()
}

#[allow(dead_code)]
pub fn unused(_: Values) {}

// ---------------------------------------------------------------------------------------------
// C11: transaction ids
// ---------------------------------------------------------------------------------------------

fn c11_extra(m: &ClientModel) -> Vec<Ev> {
    let mut v = vec![];
    if matches!(m.phase, Phase::InFlight { .. } | Phase::Idle) && m.partial_rest.is_none() {
        // stale by 1, 2, 32768; "future" by 1 and 2 (= stale by 65535 / 65534)
        for back in [1u16, 2, 0x8000, 0xFFFF, 0xFFFE] {
            // while idle a frame carrying the *next* id must not be buffered before its request
            // leaves (select! tie, DESIGN.md section 10): it is dropped at once because the driver
            // settles after every event, so it is a legitimate event here as well
            v.push(Ev::ReplyStale(back));
        }
    }
    if matches!(m.phase, Phase::InFlight { .. }) && m.partial_rest.is_none() {
        // exactly the MBAP header of the reply and nothing of its body (the enabled set has 9 bytes)
        v.push(Ev::ReplyPartial(7));
    }
    v
}

pub fn check_c11(tier: &str) -> i32 {
    let mut rep = Report::new(
        "C11",
        tier,
        "model_checking",
        "all event sequences up to depth D over {submit (1-3 queued requests), matching reply, frame with id cur-1, cur-2, cur+1, cur+2, cur-32768 (while outstanding and while idle; idle cur-1 is a duplicate of the last accepted reply), partial reply + rest, advance to deadline, read error + reconnect} on the production TcpChannelTask; the wire log (request order, one outstanding request, consecutive ids per dequeued request) and the results (built only from the frame whose id matches) are compared with the reference client model; plus one path of 65,600 request/reply rounds with stale replies injected around the id wrap",
    );
    let thorough = rep.thorough();
    let depth = if thorough { 8 } else { 7 };
    rep.bounds = json!({"depth_after_prefix": depth, "max_requests": 3, "wrap_rounds": 65600});
    let cfg = SmCfg { cap: 16, max_timeouts: None, retry_min: 3, retry_max: 12, handles: 1, decode: (0, 0, 0) };
    let filter = |e: &Ev, _m: &ClientModel| {
        matches!(
            e,
            Ev::Submit { style: MStyle::Future, .. } | Ev::ReplyOk | Ev::ReplyStale(_) | Ev::ReplyPartial(_) | Ev::ReplyRest | Ev::AdvanceToNext | Ev::ReadError | Ev::ConnectOk | Ev::ReplyException
        )
    };
    let cost = |e: &Ev| match e {
        Ev::ReadError | Ev::ReplyPartial(_) | Ev::ReplyException => 1,
        _ => 0,
    };
    let x = Explore { prop: "C11", cfg: &cfg, depth: depth + 2, max_dev: if thorough { 3 } else { 2 }, max_requests: 3, aspects: "WC", filter: &filter, cost: &cost, extra: &c11_extra };
    let st = explore(&x, &[connected_prefix()]);
    rep.phase("sequences", st, json!({"cfg": cfg}));
    // the same alphabet with every decoding (logging) level switched on, two events less deep
    let cfg_all = SmCfg { decode: (3, 2, 2), ..cfg.clone() };
    let x2 = Explore { prop: "C11", cfg: &cfg_all, depth: depth, max_dev: if thorough { 3 } else { 2 }, max_requests: 3, aspects: "WC", filter: &filter, cost: &cost, extra: &c11_extra };
    let st = explore(&x2, &[connected_prefix()]);
    rep.phase("sequences, all decoding levels on", st, json!({"cfg": cfg_all}));
    // the long path across the id wrap
    let mut st = Stats::default();
    let mut path = connected_prefix();
    let rounds = 65_600usize;
    for r in 0..rounds {
        path.push(Ev::Submit { handle: 0, style: MStyle::Future, timeout_ms: 5 });
        let near_wrap = r >= 65_530 && r <= 65_540;
        if r % 4096 == 7 || near_wrap {
            path.push(Ev::ReplyStale(1));
            path.push(Ev::ReplyStale(0xFFFF));
        }
        path.push(Ev::ReplyOk);
        if near_wrap {
            path.push(Ev::ReplyStale(1));
        }
    }
    let describe = || ("c11-wrap".to_string(), "65,600 rounds".to_string(), json!({"kind": "client-sm-wrap"}));
    let res = crate::sim::watchdog::guard(&describe, || run_path_big(&cfg, &path));
    st.evaluations += 1;
    st.traces += 1;
    st.transitions += path.len() as u64;
    st.class("wrap-path");
    st.state(&res.model.next_tx);
    if res.problems.is_empty() && res.model.next_tx != (rounds % 65536) as u16 {
        st.violation(Violation { signature: "MACHINERY:wrap-path".into(), summary: format!("model next_tx {}", res.model.next_tx), replay: json!({}) });
    }
    for p in &res.problems {
        st.violation(Violation {
            signature: format!("wrap:{}", p.sig),
            summary: format!("wrap path step {} ({:?}): {}", p.step, path.get(p.step), p.desc),
            replay: json!({"kind": "client-sm-wrap", "property": "C11"}),
        });
    }
    st.sample(json!({"wrap_path_events": path.len(), "final_next_tx": res.model.next_tx}));
    rep.phase("id wrap path", st, json!({"rounds": rounds}));
    for c in ["ev:reply-stale", "ev:reply-ok", "ev:submit-future", "ev:advance-to-next", "ev:read-error", "ev:connect-ok", "wrap-path"] {
        rep.require_class(c);
    }
    rep.assumptions.push("a frame carrying a not-yet-transmitted id is never buffered before its request leaves (tokio select! tie)".into());
    rep.finish()
}

/// run a very long path; identical to run_path (kept separate so the watchdog limit can differ)
fn run_path_big(cfg: &SmCfg, events: &[Ev]) -> PathResult {
    run_path(cfg, events)
}

pub fn replay_wrap() -> Vec<(String, String)> {
    vec![("info".into(), "re-run `./check C11 quick`: the wrap path is a fixed scenario".into())]
}

// ---------------------------------------------------------------------------------------------
// C12: timeouts
// ---------------------------------------------------------------------------------------------

fn c12_extra(m: &ClientModel) -> Vec<Ev> {
    let mut v = vec![];
    if m.handles[0] && m.next_req < 6 {
        for t in [1u64, 7, 1000] {
            v.push(Ev::Submit { handle: 0, style: MStyle::Future, timeout_ms: t });
        }
    }
    v
}

pub fn check_c12(tier: &str) -> i32 {
    let mut rep = Report::new(
        "C12",
        tier,
        "model_checking",
        "all event sequences up to depth D over {submit with timeout 1, 7 or 1000 ms, reply ok / exception / bad / stale, partial reply, rest of the reply, advance to the deadline, advance to one ms before it, advance 1 ms, connect ok} with max_response_timeouts in {None, 1, 2, 3} on the production TcpChannelTask under the paused clock; completion instants (virtual ms), the connection drop after exactly N consecutive timeouts and the absence of a drop otherwise are compared with the reference client model",
    );
    let thorough = rep.thorough();
    let depth = if thorough { 8 } else { 6 };
    rep.bounds = json!({"depth_after_prefix": depth, "max_deviations": 3, "timeouts_ms": [1, 7, 1000], "N": ["none", 1, 2, 3], "max_requests": 6});
    // machinery self-test: the paused clock fires a timer exactly at its deadline, not before
    {
        let cfg = SmCfg { cap: 16, max_timeouts: None, retry_min: 3, retry_max: 12, handles: 1, decode: (0, 0, 0) };
        let p = vec![Ev::Enable(0), Ev::ConnectOk, Ev::Submit { handle: 0, style: MStyle::Future, timeout_ms: 1000 }, Ev::AdvanceToJustBefore, Ev::Advance1];
        let r = run_path(&cfg, &p);
        if !r.problems.is_empty() {
            // either the clock or the code under test is off: reported through the normal path below
            eprintln!("note: basic timeout path already fails: {:?}", r.problems[0].desc);
        }
    }
    let filter = |e: &Ev, _m: &ClientModel| {
        matches!(
            e,
            Ev::ReplyOk | Ev::ReplyException | Ev::ReplyBad | Ev::ReplyStale(1) | Ev::ReplyPartial(_) | Ev::ReplyRest | Ev::AdvanceToNext | Ev::AdvanceToJustBefore | Ev::Advance1 | Ev::ConnectOk
        )
    };
    let cost = |e: &Ev| match e {
        Ev::ReplyBad | Ev::ReplyStale(_) | Ev::ReplyPartial(_) | Ev::Advance1 | Ev::ReplyException => 1,
        _ => 0,
    };
    for n in [None, Some(1), Some(2), Some(3)] {
        let cfg = SmCfg { cap: 16, max_timeouts: n, retry_min: 3, retry_max: 12, handles: 1, decode: (0, 0, 0) };
        let x = Explore { prop: "C12", cfg: &cfg, depth: depth + 2, max_dev: 3, max_requests: 0, aspects: "TCLW", filter: &filter, cost: &cost, extra: &c12_extra };
        let st = explore(&x, &[connected_prefix()]);
        rep.phase(&format!("N={n:?}"), st, json!({"cfg": cfg}));
    }
    // back-pressure: the response timeout is counted from the end of the transmission
    {
        let mut st = Stats::default();
        let cfg = SmCfg { cap: 16, max_timeouts: Some(2), retry_min: 3, retry_max: 12, handles: 1, decode: (0, 0, 0) };
        for n in [0usize, 1, 7, 11] {
            for t in [1u64, 7] {
                for blocked_for in [1u64, 7, 50] {
                    let sub = Ev::Submit { handle: 0, style: MStyle::Future, timeout_ms: t };
                    let mut paths = vec![vec![Ev::Enable(0), Ev::ConnectOk, Ev::WriteBlockNext(n), sub.clone(), Ev::AdvanceBy(blocked_for), Ev::WriteUnblock, Ev::AdvanceToNext, sub.clone(), Ev::ReplyOk]];
                    if t > 2 {
                        paths.push(vec![Ev::Enable(0), Ev::ConnectOk, Ev::WriteBlockNext(n), sub.clone(), Ev::AdvanceBy(blocked_for), Ev::WriteUnblock, Ev::AdvanceToJustBefore, Ev::ReplyOk, sub.clone(), Ev::ReplyOk]);
                    }
                    for path in paths {
                        let r = run_path(&cfg, &path);
                        st.evaluations += 1;
                        st.traces += 1;
                        st.transitions += path.len() as u64;
                        st.class("timeout-after-blocked-write");
                        st.state(&r.model);
                        st.observe(&r.obs);
                        for p in &r.problems {
                            st.violation(Violation {
                                signature: format!("blocked-write:{}", p.sig),
                                summary: format!("path {:?} step {}: {}", path, p.step, p.desc),
                                replay: json!({"kind": "client-sm", "property": "C12", "cfg": cfg, "events": path, "aspects": "TCLW"}),
                            });
                        }
                    }
                }
            }
        }
        rep.phase("response timeout after a blocked write", st, json!({}));
    }
    // ties: a request queued (or a handle call made) in the very poll in which a deadline expires
    {
        let cfg = SmCfg { cap: 16, max_timeouts: Some(2), retry_min: 3, retry_max: 12, handles: 2, decode: (0, 0, 0) };
        let pd = if thorough { 5 } else { 4 };
        let st = explore_ties("C12", "TCLW", &cfg, pd, 2);
        rep.phase("ties (two events in one poll)", st, json!({"cfg": cfg, "prefix_depth": pd, "runs_per_tie": 2}));
    }
    // a structured family that is deeper than the explorer's bound: k timeouts on one connection,
    // the connection ends for another reason, reconnect, then timeouts until the limit: the count
    // must start from zero on every connection
    {
        let mut st = Stats::default();
        let sub = |t: u64| Ev::Submit { handle: 0, style: MStyle::Future, timeout_ms: t };
        for n in [1usize, 2, 3] {
            let cfg = SmCfg { cap: 16, max_timeouts: Some(n), retry_min: 3, retry_max: 12, handles: 1, decode: (0, 0, 0) };
            for k in 0..n {
                for ender in 0..4usize {
                    for between in [false, true] {
                        let mut path = vec![Ev::Enable(0), Ev::ConnectOk];
                        for _ in 0..k {
                            path.push(sub(7));
                            path.push(Ev::AdvanceToNext);
                        }
                        if between && k > 0 {
                            // an answered request in between restarts the count as well
                            path.push(sub(7));
                            path.push(Ev::ReplyOk);
                            path.push(sub(7));
                            path.push(Ev::AdvanceToNext);
                        }
                        match ender {
                            0 => path.extend([Ev::Eof, Ev::AdvanceToNext]),
                            1 => path.extend([Ev::ReadError, Ev::AdvanceToNext]),
                            2 => path.extend([Ev::BadHeader, Ev::AdvanceToNext]),
                            _ => path.extend([Ev::Disable(0), Ev::Enable(0)]),
                        }
                        path.push(Ev::ConnectOk);
                        for _ in 0..n {
                            path.push(sub(7));
                            path.push(Ev::AdvanceToNext);
                        }
                        // after the drop: wait, reconnect, one answered request
                        path.extend([Ev::AdvanceToNext, Ev::ConnectOk, sub(7), Ev::ReplyOk]);
                        let r = run_path(&cfg, &path);
                        st.evaluations += 1;
                        st.traces += 1;
                        st.transitions += path.len() as u64;
                        st.class("timeouts-across-connections");
                        st.state(&r.model);
                        st.observe(&r.obs);
                        if st.traces % 13 == 1 {
                            st.sample(json!({"N": n, "events": format!("{path:?}")}));
                        }
                        for p in &r.problems {
                            st.violation(Violation {
                                signature: format!("across-connections:{}", p.sig),
                                summary: format!("N={n}: path {:?} step {}: {}", path, p.step, p.desc),
                                replay: json!({"kind": "client-sm", "property": "C12", "cfg": cfg, "events": path, "aspects": "TCLWDP"}),
                            });
                        }
                    }
                }
            }
        }
        rep.phase("consecutive-timeout count across connections", st, json!({}));
    }
    for n in [None, Some(1usize), Some(2)] {
        let scfg = SessCfg { rtu: true, cap: 16, max_timeouts: n, decode: (0, 0, 0) };
        let x = SessExplore { prop: "C12", cfg: &scfg, depth: depth + 1, max_dev: 3, max_requests: 4, aspects: "TCLW", timeouts: &[1, 7, 1000] };
        let st = explore_session(&x);
        rep.phase(&format!("RTU request loop, N={n:?}"), st, json!({"cfg": scfg}));
    }
    for c in ["timeouts-across-connections", "ev:advance-to-next", "ev:advance-to-just-before", "ev:advance-1ms", "ev:reply-partial", "ev:reply-rest", "ev:reply-ok", "ev:reply-exception", "ev:reply-bad", "ev:connect-ok"] {
        rep.require_class(c);
    }
    rep.assumptions.push("tokio's timer wheel has 1 ms resolution: 'exactly' is checked for whole-millisecond timeouts".into());
    rep.assumptions.push("a reply completing in the same virtual millisecond as the deadline is excluded (select! tie)".into());
    rep.finish()
}

// ---------------------------------------------------------------------------------------------
// C13: life-cycle
// ---------------------------------------------------------------------------------------------

pub fn check_c13_sim(rep: &mut Report) {
    let thorough = rep.thorough();
    let depth = if thorough { 8 } else { 6 };
    let filter = |e: &Ev, _m: &ClientModel| match e {
        Ev::Enable(_) | Ev::Disable(0) | Ev::Shutdown(0) | Ev::DropHandle(_) | Ev::ConnectOk | Ev::ConnectFail | Ev::Eof | Ev::BadHeader | Ev::AdvanceToNext | Ev::ReplyOk | Ev::Advance1 => true,
        Ev::Submit { style, .. } => *style == MStyle::Future,
        Ev::SetDecode(0) => true,
        _ => false,
    };
    let cost = |e: &Ev| match e {
        Ev::Advance1 | Ev::SetDecode(_) | Ev::BadHeader => 1,
        Ev::Enable(1) => 1,
        _ => 0,
    };
    for (cap, n, handles) in [(16usize, Some(1usize), 2usize), (2, None, 1)] {
        let cfg = SmCfg { cap, max_timeouts: n, retry_min: 3, retry_max: 12, handles, decode: (0, 0, 0) };
        let x = Explore { prop: "C13", cfg: &cfg, depth, max_dev: if thorough { 2 } else { 1 }, max_requests: 2, aspects: "LC", filter: &filter, cost: &cost, extra: &no_extra };
        let st = explore(&x, &[vec![]]);
        rep.phase(&format!("simulated TCP task, cap={cap} N={n:?} handles={handles}"), st, json!({"cfg": cfg, "depth": depth}));
    }
    // a retry strategy that answers "no delay" (min = max = 0): judged without the reference model,
    // by the sentence of the property itself - a wait state after every failed connect and after
    // every lost connection, i.e. never `Connecting` directly after `Connecting` or `Connected`
    {
        let st = c13_zero_delay_phase();
        rep.phase("simulated TCP task, retry delay 0: a wait state between any two attempts", st, json!({"scripts": 6}));
    }
    // ties: a handle call (enable, disable, shutdown, drop, request) queued in the very poll in which
    // the retry wait ends, the connection attempt resolves or the connection is lost: either order is
    // a legal path of the state machine, nothing else is (and no call may be lost)
    let cfg = SmCfg { cap: 16, max_timeouts: Some(1), retry_min: 3, retry_max: 12, handles: 2, decode: (0, 0, 0) };
    let pd = if thorough { 5 } else { 4 };
    let st = explore_ties("C13", "LC", &cfg, pd, 2);
    rep.phase("ties (two events in one poll)", st, json!({"cfg": cfg, "prefix_depth": pd, "runs_per_tie": 2}));
}

// ---------------------------------------------------------------------------------------------
// C14: retry delays (task level)
// ---------------------------------------------------------------------------------------------

pub fn check_c14_sim(rep: &mut Report) {
    let thorough = rep.thorough();
    let depth = if thorough { 14 } else { 11 };
    // connect outcomes: fail; ok then lost (Eof); ok then disabled then enabled
    let filter = |e: &Ev, _m: &ClientModel| matches!(e, Ev::ConnectOk | Ev::ConnectFail | Ev::Eof | Ev::AdvanceToNext | Ev::Disable(0) | Ev::Enable(0) | Ev::AdvanceToJustBefore);
    let cost = |e: &Ev| match e {
        Ev::AdvanceToJustBefore => 1,
        Ev::Disable(_) => 1,
        _ => 0,
    };
    for (min, max) in [(1000u64, 60000u64), (1, 4), (5, 5), (3, 1_000_000_000)] {
        let cfg = SmCfg { cap: 16, max_timeouts: None, retry_min: min, retry_max: max, handles: 1, decode: (0, 0, 0) };
        let x = Explore { prop: "C14", cfg: &cfg, depth, max_dev: 2, max_requests: 0, aspects: "DL", filter: &filter, cost: &cost, extra: &no_extra };
        let st = explore(&x, &[vec![Ev::Enable(0)]]);
        rep.phase(&format!("simulated TCP task, retry=({min} ms,{max} ms)"), st, json!({"cfg": cfg, "depth": depth}));
    }
    // every way of losing a connection (EOF, read error, framing error, the limit of consecutive
    // response timeouts) between connect failures: whichever way it was lost, the wait is `min` and
    // the failures that follow a successful connection start again from `min`
    let depth2 = if thorough { 11 } else { 9 };
    let filter2 = |e: &Ev, _m: &ClientModel| matches!(e, Ev::ConnectOk | Ev::ConnectFail | Ev::Eof | Ev::ReadError | Ev::BadHeader | Ev::AdvanceToNext);
    let cost2 = |_e: &Ev| 0;
    let extra2 = |m: &ClientModel| -> Vec<Ev> {
        if m.handles[0] && m.next_req < 3 {
            vec![Ev::Submit { handle: 0, style: MStyle::Future, timeout_ms: 5 }]
        } else {
            vec![]
        }
    };
    for n in [1usize, 2] {
        let cfg = SmCfg { cap: 16, max_timeouts: Some(n), retry_min: 2, retry_max: 16, handles: 1, decode: (0, 0, 0) };
        let x = Explore { prop: "C14", cfg: &cfg, depth: depth2, max_dev: 0, max_requests: 0, aspects: "DL", filter: &filter2, cost: &cost2, extra: &extra2 };
        let st = explore(&x, &[vec![Ev::Enable(0)]]);
        rep.phase(&format!("simulated TCP task, every kind of connection loss, max_response_timeouts={n}"), st, json!({"cfg": cfg, "depth": depth2}));
    }
}

// ---------------------------------------------------------------------------------------------
// C14: the strategy object itself (pure)
// ---------------------------------------------------------------------------------------------

fn c14_pure(rep: &mut Report) {
    use std::time::Duration;
    let thorough = rep.thorough();
    let lattice: Vec<Duration> = vec![
        Duration::ZERO,
        Duration::from_nanos(1),
        Duration::from_millis(1),
        Duration::from_secs(1),
        Duration::from_secs(60),
        Duration::from_secs(1 << 32),
        Duration::MAX / 2,
        Duration::MAX / 2 + Duration::from_nanos(1),
        Duration::MAX,
    ];
    let mut pairs = vec![];
    for a in &lattice {
        for b in &lattice {
            if a <= b {
                pairs.push((*a, *b));
            }
        }
    }
    let len = if thorough { 12 } else { 10 };
    let st = parallel(pairs.len(), |i, st| {
        let (min, max) = pairs[i];
        // all call sequences over {failed connect, disconnect, reset(success)} of length <= len
        let mut seq = vec![0u8; 0];
        fn rec(min: Duration, max: Duration, seq: &mut Vec<u8>, len: usize, st: &mut Stats) {
            if !seq.is_empty() {
                st.evaluations += 1;
                let s2 = seq.clone();
                let res = std::panic::catch_unwind(move || {
                    crate::sim::IN_POLL.with(|f| f.set(true));
                    let mut strat = rodbus::doubling_retry_strategy(min, max);
                    let mut out = vec![];
                    for c in &s2 {
                        match c {
                            0 => out.push(Some(strat.after_failed_connect())),
                            1 => out.push(Some(strat.after_disconnect())),
                            _ => {
                                strat.reset();
                                out.push(None)
                            }
                        }
                    }
                    crate::sim::IN_POLL.with(|f| f.set(false));
                    out
                });
                crate::sim::IN_POLL.with(|f| f.set(false));
                // reference: delay_k = min(min * 2^(k-1), max); disconnect -> min; reset restarts
                let mut k: u32 = 0;
                let mut exp = vec![];
                for c in seq.iter() {
                    match c {
                        0 => {
                            k += 1;
                            let nanos = min.as_nanos().checked_shl(k - 1).filter(|x| (x >> (k - 1)) == min.as_nanos()).unwrap_or(u128::MAX);
                            let d = if nanos >= max.as_nanos() { max } else { Duration::new((nanos / 1_000_000_000) as u64, (nanos % 1_000_000_000) as u32) };
                            exp.push(Some(d));
                        }
                        1 => exp.push(Some(min)),
                        _ => {
                            k = 0;
                            exp.push(None)
                        }
                    }
                }
                let problem = match res {
                    Err(_) => Some(("retry-strategy-panic".to_string(), "panicked".to_string())),
                    Ok(got) if got != exp => Some(("retry-strategy-delay".to_string(), format!("got {got:?} expected {exp:?}"))),
                    _ => None,
                };
                st.observe(&(min, max, seq.len(), problem.is_some()));
                if seq.len() == len {
                    st.class("strategy-sequence");
                }
                if let Some((sig, d)) = problem {
                    st.violation(Violation {
                        signature: sig,
                        summary: format!("doubling_retry_strategy({min:?}, {max:?}) calls {seq:?} (0=failed connect, 1=disconnect, 2=reset): {d}"),
                        replay: json!({"kind": "c14-pure", "min_ns": min.as_nanos().to_string(), "max_ns": max.as_nanos().to_string(), "calls": seq}),
                    });
                    return;
                }
            }
            if seq.len() == len {
                return;
            }
            for c in 0..3u8 {
                // k failures in a row beyond 70 are all saturated: prune runs of the same call > 4 after position 6
                if seq.len() >= 8 && seq[seq.len() - 4..].iter().all(|x| *x == c) {
                    continue;
                }
                seq.push(c);
                rec(min, max, seq, len, st);
                seq.pop();
            }
        }
        rec(min, max, &mut seq, len, st);
        // long run of failures: 200 in a row must saturate at max without panicking
        let res = std::panic::catch_unwind(move || {
            crate::sim::IN_POLL.with(|f| f.set(true));
            let mut strat = rodbus::doubling_retry_strategy(min, max);
            let mut last = Duration::ZERO;
            for _ in 0..200 {
                last = strat.after_failed_connect();
            }
            crate::sim::IN_POLL.with(|f| f.set(false));
            last
        });
        crate::sim::IN_POLL.with(|f| f.set(false));
        st.evaluations += 1;
        match res {
            Ok(d) if d == max || min == Duration::ZERO && d == Duration::ZERO => {}
            other => st.violation(Violation {
                signature: if other.is_err() { "retry-strategy-panic".into() } else { "retry-strategy-delay".into() },
                summary: format!("doubling_retry_strategy({min:?}, {max:?}) after 200 failed connects: {other:?}"),
                replay: json!({"kind": "c14-pure", "min_ns": min.as_nanos().to_string(), "max_ns": max.as_nanos().to_string(), "calls": vec![0u8; 200]}),
            }),
        }
        st.sample(json!({"min": format!("{min:?}"), "max": format!("{max:?}")}));
    });
    rep.phase("strategy object", st, json!({"pairs": pairs.len(), "sequence_length": len}));
}

pub fn replay_c14_pure(v: &serde_json::Value) -> Vec<(String, String)> {
    use std::time::Duration;
    let ns = |k: &str| -> Duration {
        let n: u128 = v[k].as_str().unwrap().parse().unwrap();
        Duration::new((n / 1_000_000_000) as u64, (n % 1_000_000_000) as u32)
    };
    let (min, max) = (ns("min_ns"), ns("max_ns"));
    let calls: Vec<u8> = v["calls"].as_array().unwrap().iter().map(|x| x.as_u64().unwrap() as u8).collect();
    let res = std::panic::catch_unwind(move || {
        let mut strat = rodbus::doubling_retry_strategy(min, max);
        let mut out = vec![];
        for c in &calls {
            match c {
                0 => out.push(Some(strat.after_failed_connect())),
                1 => out.push(Some(strat.after_disconnect())),
                _ => {
                    strat.reset();
                    out.push(None)
                }
            }
        }
        out
    });
    match res {
        Err(_) => vec![("retry-strategy-panic".into(), format!("doubling_retry_strategy({min:?},{max:?}) panicked"))],
        Ok(got) => {
            // delays must be non-decreasing between resets and capped at max
            let mut problems = vec![];
            for d in got.iter().flatten() {
                if *d > max {
                    problems.push(("retry-strategy-delay".to_string(), format!("{d:?} exceeds max {max:?}")));
                }
            }
            problems
        }
    }
}

pub fn check_c14(tier: &str) -> i32 {
    let mut rep = Report::new(
        "C14",
        tier,
        "model_checking",
        "(1) the strategy object: all (min,max) pairs with min <= max over a 9-value lattice up to Duration::MAX x all call sequences over {failed connect, disconnect, reset} up to length L, against delay_k = min(min*2^(k-1), max); (2) the production TcpChannelTask under the paused clock: all connect-outcome sequences up to depth D over {connect fails, connect ok then connection lost, disable/enable, advance to the end of the wait, advance to one ms before it} for four (min,max) settings, and over {connect fails, connect ok, EOF, read error, framing error, request that times out (limit of 1 or 2 consecutive timeouts)}: the delay announced to the listener equals the reference delay and the next attempt starts exactly when it has elapsed, never earlier; (3) serial client and RTU server over real ptys: see the pty phase",
    );
    rep.bounds = json!({"strategy_sequence_length": if rep.thorough() { 12 } else { 10 }, "task_depth": if rep.thorough() { 14 } else { 11 }});
    c14_pure(&mut rep);
    check_c14_sim(&mut rep);
    crate::checks::lifecycle_net::net_phase(&mut rep, "C14");
    crate::checks::serial_pty::serial_client_phase(&mut rep, "C14");
    crate::checks::serial_pty::rtu_server_phase(&mut rep);
    for c in ["rtu-server-pty-scenario", "serial-history-pty", "net-history-tcp", "strategy-sequence", "ev:connect-fail", "ev:connect-ok", "ev:advance-to-next", "ev:advance-to-just-before", "ev:eof", "ev:disable"] {
        rep.require_class(c);
    }
    rep.assumptions.push("(min,max) with min > max is outside the property (min and 'capped at max' contradict each other)".into());
    rep.finish()
}

/// retry delay 0, judged without the reference model (see check_c13)
pub fn c13_zero_delay_phase() -> Stats {
    parallel(6, |i, st| {
        let script: &[&str] = [
            &["fail", "fail", "fail"][..],
            &["ok", "eof", "fail", "ok", "eof"][..],
            &["fail", "ok", "reset", "fail"][..],
            &["ok", "eof", "ok", "eof"][..],
            &["fail", "fail", "ok", "eof", "fail"][..],
            &["ok", "reset", "fail", "fail"][..],
        ][i];
        let tcfg = ClientTaskCfg { queue: 4, max_timeouts: None, retry_min_ms: 0, retry_max_ms: 0, decode: decode_level((0, 0, 0)), handles: 1 };
        let describe = || ("client-zero-delay".to_string(), format!("script {script:?}"), json!({"kind": "c13-zero-delay", "script": script}));
        let states: Vec<String> = crate::sim::watchdog::guard(&describe, || {
            let mut h = ClientTaskHarness::new(&tcfg);
            let ch = h.handles[0].as_ref().unwrap().clone();
            let mut t = Task::new(async move {
                let _ = ch.enable().await;
            });
            let _ = crate::sim::run_until_quiescent(&mut [&mut t, &mut h.task], 100_000);
            for step in script {
                match *step {
                    "fail" => {
                        h.connect_fail(std::io::ErrorKind::ConnectionRefused);
                    }
                    "ok" => {
                        h.connect_ok();
                    }
                    "eof" => {
                        if let Some(io) = h.io() {
                            io.eof();
                        }
                    }
                    _ => {
                        if let Some(io) = h.io() {
                            io.read_error(std::io::ErrorKind::ConnectionReset);
                        }
                    }
                }
                let _ = h.settle();
            }
            h.take_states().into_iter().map(|(s, _)| format!("{s:?}")).collect()
        });
        st.evaluations += 1;
        st.traces += 1;
        st.transitions += script.len() as u64;
        st.class("zero-delay-retry");
        st.observe(&states);
        let name = |s: &String| s.split('(').next().unwrap_or("").to_string();
        for w in states.windows(2) {
            let (a, b) = (name(&w[0]), name(&w[1]));
            if b == "Connecting" && (a == "Connecting" || a == "Connected") {
                st.violation(Violation {
                    signature: "no-wait-state:zero-delay".into(),
                    summary: format!("retry strategy with delay 0, script {script:?}: the listener heard {a} and then Connecting with no wait state in between: {states:?}"),
                    replay: json!({"kind": "c13-zero-delay", "script": script}),
                });
                break;
            }
        }
        let attempts = states.iter().filter(|s| name(s) == "Connecting").count();
        if attempts < script.len().min(2) {
            st.violation(Violation { signature: "MACHINERY:zero-delay-script".into(), summary: format!("script {script:?} produced only {attempts} attempts: {states:?}"), replay: json!({}) });
        }
    })
}

pub fn check_c13(tier: &str) -> i32 {
    let mut rep = Report::new(
        "C13",
        tier,
        "model_checking",
        "all sequences up to depth D over {enable, disable, shutdown, drop handle, submit, set-decode} x environment answers {connect refused, connected then closed, connected then garbage, connected and silent with a timeout limit of 1, served} injected at every state of the production TcpChannelTask (connector seam, paused clock); the listener log must be the reference automaton's path (Disabled first, Connecting only while enabled, Connected only after Connecting, a wait state after every failed connect or lost connection, Disabled after disable with the transport closed, Shutdown once and last), requests submitted while not connected fail with NoConnection in the same step, no attempt is made while disabled, the task ends from every state and handles then report shutdown",
    );
    rep.bounds = json!({"depth": if rep.thorough() { 8 } else { 6 }, "handles": 2});
    check_c13_sim(&mut rep);
    crate::checks::lifecycle_net::net_phase(&mut rep, "C13");
    crate::checks::serial_pty::serial_client_phase(&mut rep, "C13");
    for c in ["serial-history-pty", "net-history-tcp", "net-history-tls", "ev:enable", "ev:disable", "ev:shutdown", "ev:drop-handle", "ev:connect-fail", "ev:connect-ok", "ev:eof", "ev:advance-to-next", "ev:submit-future", "tie:caller-first"] {
        rep.require_class(c);
    }
    rep.finish()
}

// ---------------------------------------------------------------------------------------------
// the request loop alone (one connection), TCP or RTU framing, in virtual time
// ---------------------------------------------------------------------------------------------

#[derive(Clone, Debug, Serialize, Deserialize, PartialEq, Eq, Hash)]
pub struct SessCfg {
    pub rtu: bool,
    pub cap: usize,
    pub max_timeouts: Option<usize>,
    pub decode: (u8, u8, u8),
}

pub fn run_session_path(cfg: &SessCfg, events: &[Ev]) -> PathResult {
    let describe = || ("client-session".to_string(), format!("path {events:?}"), json!({"kind": "client-session", "property": crate::report::current_property(), "cfg": cfg, "events": events, "aspects": "WCTLDP"}));
    crate::sim::watchdog::guard(&describe, || run_session_path_unguarded(cfg, events))
}

fn run_session_path_unguarded(cfg: &SessCfg, events: &[Ev]) -> PathResult {
    let mut h = ClientSessionHarness::new(cfg.rtu, decode_level(cfg.decode), cfg.max_timeouts, cfg.cap);
    let mut model = ClientModel::new_session(cfg.cap, cfg.max_timeouts, cfg.rtu);
    let mut problems: Vec<Problem> = vec![];
    let mut obs: Vec<String> = vec![];
    let mut seen: Vec<usize> = vec![];
    let cmd_results: std::sync::Arc<std::sync::Mutex<Vec<bool>>> = Default::default();
    model.start();
    h.settle();
    for (i, ev) in events.iter().enumerate() {
        obs.push("--step--".to_string());
        let before_now = model.now;
        let next_timer = model.next_timer();
        let delivery = model.delivery(ev);
        match ev {
            Ev::Enable(_) | Ev::Disable(_) | Ev::SetDecode(_) | Ev::Shutdown(_) => {
                let ch = h.channel.as_ref().expect("channel").clone();
                let res = cmd_results.clone();
                let which = ev.clone();
                let level = decode_level((3, 2, 2));
                let t: Task<()> = Task::new(async move {
                    let r = match which {
                        Ev::Enable(_) => ch.enable().await,
                        Ev::Disable(_) => ch.disable().await,
                        Ev::SetDecode(_) => ch.set_decode_level(level).await,
                        _ => ch.shutdown().await,
                    };
                    res.lock().unwrap().push(r.is_ok());
                });
                h.pending.push(Submitted { id: usize::MAX, style: Style::Future, task: Some(t) });
            }
            Ev::Submit { style, timeout_ms, .. } => {
                let id = model.next_req;
                let r = h.submit(&request_for(id), model.unit, *timeout_ms, style_of(*style));
                obs.push(format!("submit {id} -> {:?}", r.as_ref().err()));
            }
            Ev::DropHandle(_) => {
                h.channel = None;
                h.pending.clear();
            }
            Ev::AbortTask => h.task.abort(),
            Ev::ReplyOk | Ev::ReplyException | Ev::ReplyBad | Ev::ReplyStale(_) | Ev::BadHeader | Ev::ReplyPartial(_) => h.io.deliver(delivery.as_ref().unwrap()),
            Ev::ReplyRest => {
                let rest = model.partial_rest.clone().expect("partial pending");
                h.io.deliver(&rest);
            }
            Ev::ReadError => h.io.read_error(std::io::ErrorKind::ConnectionReset),
            Ev::Eof => h.io.eof(),
            Ev::WriteErrorNext => h.io.set_write_mode(WriteMode::Error(std::io::ErrorKind::BrokenPipe)),
            Ev::WriteBlockNext(n) => h.io.set_write_mode(WriteMode::BlockAfter(*n)),
            Ev::WriteUnblock => h.io.set_write_mode(WriteMode::Accept),
            Ev::AdvanceBy(ms) => crate::sim::advance(*ms),
            Ev::AdvanceToNext => crate::sim::advance(next_timer.unwrap() - before_now),
            Ev::Advance1 => crate::sim::advance(1),
            Ev::AdvanceToJustBefore => crate::sim::advance(next_timer.unwrap() - 1 - before_now),
            Ev::ConnectOk | Ev::ConnectFail => unreachable!("no connection life-cycle in session mode"),
        }
        let e = model.apply(ev);
        let settled = h.settle();
        let mut p = |aspect: char, sig: &str, desc: String| problems.push(Problem { aspect, sig: sig.to_string(), desc, step: i });
        if let Some(msg) = &h.task.panicked {
            p('P', "panic", format!("client loop panicked: {msg}"));
            break;
        }
        if !settled {
            p('P', "busy-loop", "poll budget exceeded".into());
            break;
        }
        let wire = h.io.take_written();
        obs.push(format!("wire {:?}", wire.iter().map(|w| hex(w)).collect::<Vec<_>>()));
        if wire != e.wire {
            p('W', "wire", format!("expected frames {:?} got {:?}", e.wire.iter().map(|w| hex(w)).collect::<Vec<_>>(), wire.iter().map(|w| hex(w)).collect::<Vec<_>>()));
        }
        let done = h.take_done();
        obs.push(format!("done {done:?}"));
        let mut exp: Vec<&(usize, OutClass)> = e.completions.iter().collect();
        for (id, out, at) in &done {
            if seen.contains(id) {
                p('C', "completed-twice", format!("request {id} completed a second time"));
            }
            seen.push(*id);
            match exp.iter().position(|x| x.0 == *id) {
                None => p('C', "unexpected-completion", format!("request {id} completed with {} (not expected now)", trunc(&format!("{out:?}")))),
                Some(pos) => {
                    let (_, want) = exp.remove(pos);
                    if !out_matches(want, out) {
                        p('C', &format!("wrong-result:{}", class_name(want)), format!("request {id}: expected {} got {}", trunc(&format!("{want:?}")), trunc(&format!("{out:?}"))));
                    }
                    if *at != model.now {
                        p('T', "completion-time", format!("request {id} completed at {at} ms, expected {} ms", model.now));
                    }
                }
            }
        }
        for (id, want) in exp {
            p('C', &format!("missing-completion:{}", class_name(want)), format!("request {id} should have completed with {}", trunc(&format!("{want:?}"))));
        }
        if h.task.is_done() != model.done() {
            p('L', "session-end", format!("request loop ended: {} ({:?}), model: {}", h.task.is_done(), h.task.output, model.done()));
        }
        let results = std::mem::take(&mut *cmd_results.lock().unwrap());
        if let Some(want) = e.command_ok {
            if results != vec![want] {
                p('L', "command-result", format!("handle call returned {results:?}, expected ok={want}"));
            }
        }
        obs.push(format!("done={}", h.task.is_done()));
        if !problems.is_empty() {
            break;
        }
    }
    PathResult { problems, model, obs }
}

pub struct SessExplore<'a> {
    pub prop: &'a str,
    pub cfg: &'a SessCfg,
    pub depth: usize,
    pub max_dev: usize,
    pub max_requests: usize,
    pub aspects: &'a str,
    pub timeouts: &'a [u64],
}

fn session_events(x: &SessExplore, m: &ClientModel) -> Vec<Ev> {
    let mut v = vec![];
    for e in m.enabled_events(0) {
        match e {
            Ev::ConnectOk | Ev::ConnectFail | Ev::Enable(_) => {}
            // no transaction ids on a serial line
            Ev::ReplyStale(_) if x.cfg.rtu => {}
            Ev::Submit { .. } => {}
            other => v.push(other),
        }
    }
    if m.handles[0] && m.next_req < x.max_requests {
        for t in x.timeouts {
            v.push(Ev::Submit { handle: 0, style: MStyle::Future, timeout_ms: *t });
        }
        v.push(Ev::Submit { handle: 0, style: MStyle::Callback, timeout_ms: x.timeouts[0] });
    }
    v
}

fn session_cost(e: &Ev) -> usize {
    match e {
        Ev::ReplyOk | Ev::AdvanceToNext | Ev::ReplyRest => 0,
        Ev::Submit { style: MStyle::Future, .. } => 0,
        _ => 1,
    }
}

pub fn explore_session(x: &SessExplore) -> Stats {
    // breadth-first expansion for parallel jobs, then depth-first
    let prefix = vec![Ev::Enable(0)];
    let mut frontier: Vec<(Vec<Ev>, usize)> = vec![(prefix, 0)];
    for _ in 0..2 {
        let mut next = vec![];
        for (p, dev) in frontier {
            let r = run_session_path(x.cfg, &p);
            if !r.problems.is_empty() {
                next.push((p, dev));
                continue;
            }
            for ev in session_events(x, &r.model) {
                let c = session_cost(&ev);
                if dev + c > x.max_dev {
                    continue;
                }
                let mut q = p.clone();
                q.push(ev);
                next.push((q, dev + c));
            }
        }
        frontier = next;
    }
    fn rec(x: &SessExplore, path: &mut Vec<Ev>, dev: usize, st: &mut Stats) {
        let describe = || ("client-session".to_string(), format!("path {path:?}"), json!({"kind": "client-session", "property": x.prop, "cfg": x.cfg, "events": path, "aspects": x.aspects}));
        let r = crate::sim::watchdog::guard(&describe, || run_session_path(x.cfg, path));
        st.evaluations += 1;
        st.traces += 1;
        st.transitions += path.len() as u64;
        st.state(&r.model);
        if let Some(last) = path.last() {
            st.class(ev_name(last));
        }
        if st.traces % 2003 == 1 {
            st.sample(json!({"cfg": x.cfg, "events": format!("{path:?}")}));
            let again = run_session_path(x.cfg, path);
            st.audits += 1;
            if again.obs != r.obs {
                st.violation(Violation { signature: "MACHINERY:nondeterminism".into(), summary: format!("path {path:?}"), replay: json!({"kind": "client-session", "property": x.prop, "cfg": x.cfg, "events": path, "aspects": x.aspects}) });
            }
        }
        st.observe(&r.obs);
        if !r.problems.is_empty() {
            let mut relevant = false;
            for p in &r.problems {
                if x.aspects.contains(p.aspect) || p.aspect == 'P' {
                    relevant = true;
                    st.violation(Violation {
                        signature: format!("{}:{}", if x.cfg.rtu { "rtu" } else { "tcp" }, p.sig),
                        summary: format!("{} request loop, path {:?} step {}: {}", if x.cfg.rtu { "RTU" } else { "TCP" }, path, p.step, p.desc),
                        replay: json!({"kind": "client-session", "property": x.prop, "cfg": x.cfg, "events": path, "aspects": x.aspects}),
                    });
                }
            }
            if !relevant {
                st.class("diverged-on-another-property's-aspect");
            }
            return;
        }
        if path.len() >= x.depth || r.model.done() {
            return;
        }
        for ev in session_events(x, &r.model) {
            let c = session_cost(&ev);
            if dev + c > x.max_dev {
                continue;
            }
            path.push(ev);
            rec(x, path, dev + c, st);
            path.pop();
        }
    }
    parallel(frontier.len(), |i, st| {
        let (p, dev) = &frontier[i];
        let mut p = p.clone();
        rec(x, &mut p, *dev, st);
    })
}

pub fn replay_session(v: &serde_json::Value) -> Vec<(String, String)> {
    let cfg: SessCfg = serde_json::from_value(v["cfg"].clone()).unwrap();
    let events: Vec<Ev> = serde_json::from_value(v["events"].clone()).unwrap();
    let aspects = v["aspects"].as_str().unwrap_or("CWTLP").to_string();
    run_session_path(&cfg, &events)
        .problems
        .into_iter()
        .filter(|p| aspects.contains(p.aspect) || p.aspect == 'P')
        .map(|p| (format!("{}:{}", if cfg.rtu { "rtu" } else { "tcp" }, p.sig), format!("step {}: {}", p.step, p.desc)))
        .collect()
}

//! E3: the C ABI (extern "C" functions of rodbus-ffi): C16 (filters through the C ABI),
//! C18 (differential against the Rust API), C19 (point database and atomic transactions).

use crate::checks::filter::{FilterSpec, Variant};
use crate::ffiutil::*;
use crate::hserver::hex;
use crate::net::{cert_path, key_path};
use crate::refmodel::pdu::mbap_frame;
use crate::report::*;
use rodbus_ffi::ffi;
use serde_json::json;
use std::collections::BTreeMap;
use std::ffi::c_void;
use std::io::{Read, Write};
use std::net::{SocketAddr, TcpStream};
use std::os::raw::c_int;
use std::ptr::null_mut;
use std::sync::{Arc, Condvar, Mutex};
use std::time::{Duration, Instant};

/// run `f` on a plain thread (the C ABI refuses to block inside a tokio context)
pub fn on_plain_thread<R: Send>(f: impl FnOnce() -> R + Send) -> R {
    std::thread::scope(|s| s.spawn(f).join().expect("ffi worker thread panicked"))
}

fn connect_from(src: &str, dst: SocketAddr) -> std::io::Result<TcpStream> {
    let src: SocketAddr = format!("{src}:0").parse().unwrap();
    let domain = if src.is_ipv4() { libc::AF_INET } else { libc::AF_INET6 };
    // std has no bind-before-connect: do it with libc
    unsafe {
        let fd = libc::socket(domain, libc::SOCK_STREAM | libc::SOCK_CLOEXEC, 0);
        if fd < 0 {
            return Err(std::io::Error::last_os_error());
        }
        let (sa, len) = sockaddr(&src);
        if libc::bind(fd, &sa as *const _ as *const libc::sockaddr, len) != 0 {
            let e = std::io::Error::last_os_error();
            libc::close(fd);
            return Err(e);
        }
        let (da, dlen) = sockaddr(&dst);
        if libc::connect(fd, &da as *const _ as *const libc::sockaddr, dlen) != 0 {
            let e = std::io::Error::last_os_error();
            libc::close(fd);
            return Err(e);
        }
        use std::os::fd::FromRawFd;
        Ok(TcpStream::from_raw_fd(fd))
    }
}

fn sockaddr(a: &SocketAddr) -> (libc::sockaddr_storage, libc::socklen_t) {
    let mut st: libc::sockaddr_storage = unsafe { std::mem::zeroed() };
    match a {
        SocketAddr::V4(v4) => {
            let sin = libc::sockaddr_in {
                sin_family: libc::AF_INET as libc::sa_family_t,
                sin_port: v4.port().to_be(),
                sin_addr: libc::in_addr { s_addr: u32::from_ne_bytes(v4.ip().octets()) },
                sin_zero: [0; 8],
            };
            unsafe { std::ptr::write(&mut st as *mut _ as *mut libc::sockaddr_in, sin) };
            (st, std::mem::size_of::<libc::sockaddr_in>() as libc::socklen_t)
        }
        SocketAddr::V6(v6) => {
            let sin6 = libc::sockaddr_in6 {
                sin6_family: libc::AF_INET6 as libc::sa_family_t,
                sin6_port: v6.port().to_be(),
                sin6_flowinfo: 0,
                sin6_addr: libc::in6_addr { s6_addr: v6.ip().octets() },
                sin6_scope_id: 0,
            };
            unsafe { std::ptr::write(&mut st as *mut _ as *mut libc::sockaddr_in6, sin6) };
            (st, std::mem::size_of::<libc::sockaddr_in6>() as libc::socklen_t)
        }
    }
}

fn read_exact_timeout(s: &mut TcpStream, n: usize, ms: u64) -> Result<Vec<u8>, Vec<u8>> {
    let _ = s.set_read_timeout(Some(Duration::from_millis(ms)));
    let mut buf = vec![0u8; n];
    let mut got = 0;
    let deadline = Instant::now() + Duration::from_millis(ms);
    while got < n && Instant::now() < deadline {
        match s.read(&mut buf[got..]) {
            Ok(0) => break,
            Ok(k) => got += k,
            Err(e) if e.kind() == std::io::ErrorKind::WouldBlock || e.kind() == std::io::ErrorKind::TimedOut => break,
            Err(_) => break,
        }
    }
    if got == n {
        Ok(buf)
    } else {
        buf.truncate(got);
        Err(buf)
    }
}

// ---------------------------------------------------------------------------------------------
// C16 through the C ABI
// ---------------------------------------------------------------------------------------------

#[derive(Default)]
struct AuthLog {
    calls: u32,
    /// 0: allow everything; 1: role "operator" may do everything, every other role may only read
    policy: u8,
    /// (callback, unit, start or index, count or 0, role as received)
    records: Vec<(&'static str, u8, u16, u16, String)>,
}

fn auth_decide(ctx: *mut c_void, name: &'static str, write: bool, unit: u8, a: u16, b: u16, role: *const std::os::raw::c_char) -> c_int {
    let c: &Ctx<AuthLog> = unsafe { ctx_ref(ctx) };
    let role = if role.is_null() { "<null>".to_string() } else { unsafe { std::ffi::CStr::from_ptr(role) }.to_string_lossy().into_owned() };
    let mut g = c.state.lock().unwrap();
    g.calls += 1;
    let allow = g.policy == 0 || !write || role == "operator";
    g.records.push((name, unit, a, b, role));
    if allow {
        0
    } else {
        1
    }
}

macro_rules! auth_range_fn {
    ($f:ident, $name:expr, $write:expr) => {
        extern "C" fn $f(u: u8, r: ffi::AddressRange, role: *const std::os::raw::c_char, ctx: *mut c_void) -> c_int {
            auth_decide(ctx, $name, $write, u, r.start, r.count, role)
        }
    };
}
macro_rules! auth_index_fn {
    ($f:ident, $name:expr) => {
        extern "C" fn $f(u: u8, i: u16, role: *const std::os::raw::c_char, ctx: *mut c_void) -> c_int {
            auth_decide(ctx, $name, true, u, i, 0, role)
        }
    };
}
auth_range_fn!(auth_rc, "read_coils", false);
auth_range_fn!(auth_rdi, "read_discrete_inputs", false);
auth_range_fn!(auth_rhr, "read_holding_registers", false);
auth_range_fn!(auth_rir, "read_input_registers", false);
auth_range_fn!(auth_wmc, "write_multiple_coils", true);
auth_range_fn!(auth_wmr, "write_multiple_registers", true);
auth_index_fn!(auth_wsc, "write_single_coil");
auth_index_fn!(auth_wsr, "write_single_register");

fn auth_handler(log: Arc<Mutex<AuthLog>>) -> ffi::AuthorizationHandler {
    ffi::AuthorizationHandler {
        read_coils: Some(auth_rc),
        read_discrete_inputs: Some(auth_rdi),
        read_holding_registers: Some(auth_rhr),
        read_input_registers: Some(auth_rir),
        write_single_coil: Some(auth_wsc),
        write_single_register: Some(auth_wsr),
        write_multiple_coils: Some(auth_wmc),
        write_multiple_registers: Some(auth_wmr),
        on_destroy: Some(ctx_destroy::<AuthLog>),
        ctx: ctx_new(log, Arc::new(Mutex::new(0))),
    }
}

fn filter_parts(f: &FilterSpec) -> Vec<String> {
    match f {
        FilterSpec::Any => vec![],
        FilterSpec::Exact(a) => vec![a.clone()],
        FilterSpec::AnyOf(v) => v.clone(),
        FilterSpec::Wildcard(w) => vec![w.clone()],
    }
}

struct FfiCase {
    variant: Variant,
    filter: FilterSpec,
    peer: String,
}

/// start a server through the C ABI; returns it with its address and the auth-call log
fn ffi_server(rt: &FfiRuntime, variant: Variant, filter: &FilterSpec, ip: &str, points: Vec<DbOp>, wstate: Arc<Mutex<WriteState>>, set: [bool; 4]) -> Result<(FfiServer, SocketAddr, Arc<Mutex<AuthLog>>), String> {
    // the port is chosen here and bound by the server: when somebody else was handed it in between,
    // creation fails and is tried again with another port
    let mut last = String::new();
    for _ in 0..8 {
        match ffi_server_once(rt, variant, filter, ip, points.clone(), wstate.clone(), set) {
            Ok(x) => return Ok(x),
            Err(e) => last = e,
        }
    }
    Err(last)
}

fn ffi_server_once(rt: &FfiRuntime, variant: Variant, filter: &FilterSpec, ip: &str, points: Vec<DbOp>, wstate: Arc<Mutex<WriteState>>, set: [bool; 4]) -> Result<(FfiServer, SocketAddr, Arc<Mutex<AuthLog>>), String> {
    ffi_server_tls(rt, variant, filter, ip, points, wstate, set, ("ca_a", "srv_valid", 0, 0))
}

/// `tls` = (certificate to trust, local certificate, MinTlsVersion value, CertificateMode value)
#[allow(clippy::too_many_arguments)]
fn ffi_server_tls(rt: &FfiRuntime, variant: Variant, filter: &FilterSpec, ip: &str, points: Vec<DbOp>, wstate: Arc<Mutex<WriteState>>, set: [bool; 4], tls: (&str, &str, c_int, c_int)) -> Result<(FfiServer, SocketAddr, Arc<Mutex<AuthLog>>), String> {
    let parts = filter_parts(filter);
    let filt = ffi_filter(&parts).map_err(|rc| format!("address_filter_create/add -> {rc}"))?;
    ffi_server_with_filter(rt, variant, filt, ip, points, wstate, set, tls)
}

/// the filter object is consumed (destroyed after the server has been created)
#[allow(clippy::too_many_arguments)]
fn ffi_server_with_filter(rt: &FfiRuntime, variant: Variant, filt: *mut rodbus_ffi::AddressFilter, ip: &str, points: Vec<DbOp>, wstate: Arc<Mutex<WriteState>>, set: [bool; 4], tls: (&str, &str, c_int, c_int)) -> Result<(FfiServer, SocketAddr, Arc<Mutex<AuthLog>>), String> {
    let (wh, _d) = write_handler(wstate, set);
    let (map, _r) = device_map(1, wh, points);
    let port = free_port(ip.trim_matches(|c| c == '[' || c == ']'));
    let ipc = cstr(ip.trim_matches(|c| c == '[' || c == ']'));
    let mut out: *mut rodbus_ffi::Server = null_mut();
    let log = Arc::new(Mutex::new(AuthLog::default()));
    let (trust_name, local_name, min_tls, cert_mode) = tls;
    let trust = cstr(cert_path(trust_name).to_str().unwrap());
    let local = cstr(cert_path(local_name).to_str().unwrap());
    let key = cstr(key_path(local_name).to_str().unwrap());
    let empty = cstr("");
    let tls = ffi::TlsServerConfig { peer_cert_path: trust.as_ptr(), local_cert_path: local.as_ptr(), private_key_path: key.as_ptr(), password: empty.as_ptr(), min_tls_version: min_tls, certificate_mode: cert_mode };
    let rc = unsafe {
        match variant {
            Variant::Tcp => ffi::rodbus_server_create_tcp(rt.0, ipc.as_ptr(), port, filt, 4, map, decode_nothing(), &mut out),
            Variant::Tls => ffi::rodbus_server_create_tls(rt.0, ipc.as_ptr(), port, filt, 4, map, tls, decode_nothing(), &mut out),
            Variant::TlsAuthz => ffi::rodbus_server_create_tls_with_authz(rt.0, ipc.as_ptr(), port, filt, 4, map, tls, auth_handler(log.clone()), decode_nothing(), &mut out),
        }
    };
    unsafe {
        ffi::rodbus_address_filter_destroy(filt);
        ffi::rodbus_device_map_destroy(map);
    }
    if rc != OK {
        return Err(format!("server_create -> {rc}"));
    }
    let addr: SocketAddr = format!("{ip}:{port}").parse().unwrap();
    Ok((FfiServer(out), addr, log))
}

/// connect from `peer` and ask for two holding registers: was the request answered?
fn probe_ffi_server(variant: Variant, addr: SocketAddr, peer: &str) -> bool {
    if variant == Variant::Tcp {
        if let Ok(mut s) = connect_from(peer, addr) {
            let _ = s.write_all(&mbap_frame(0x0B0B, 1, &[3, 0, 0, 0, 2]));
            if let Ok(b) = read_exact_timeout(&mut s, 13, 1500) {
                return b[..2] == [0x0B, 0x0B] && b[9..13] == [0, 100, 0, 101];
            }
        }
        return false;
    }
    let src = peer.to_string();
    crate::net::rt().block_on(async move {
        if let Ok(tcp) = crate::net::connect_from(&src, addr).await {
            let connector = tokio_rustls::TlsConnector::from(crate::net::peer_client_config(crate::net::PeerVersions::Both, "cli_operator"));
            let name = tokio_rustls::rustls::pki_types::ServerName::try_from("test.com").unwrap();
            if let Ok(Ok(mut tls)) = tokio::time::timeout(Duration::from_millis(1500), connector.connect(name, tcp)).await {
                crate::net::write_all(&mut tls, &mbap_frame(0x0B0B, 1, &[3, 0, 0, 0, 2])).await;
                if let crate::net::ReadOutcome::Bytes(b) = crate::net::read_n(&mut tls, 13, Duration::from_millis(1500)).await {
                    return b[..2] == [0x0B, 0x0B];
                }
            }
        }
        false
    })
}

fn ten_registers() -> Vec<DbOp> {
    (0..10).map(|i| DbOp::Add(2, i, 100 + i)).collect()
}

/// returns (served, received-anything, authorization calls)
fn run_ffi_case(rt: &FfiRuntime, c: &FfiCase) -> Result<(bool, Vec<u8>, u32), String> {
    let v6 = c.peer.contains(':');
    let ip = if v6 { "[::1]" } else { "127.0.0.1" };
    let (server, addr, log) = ffi_server(rt, c.variant, &c.filter, ip, ten_registers(), Arc::new(Mutex::new(WriteState::default())), [true; 4])?;
    let src = if v6 { format!("[{}]", c.peer) } else { c.peer.clone() };
    let mut served = false;
    let mut received = vec![];
    if c.variant == Variant::Tcp {
        if let Ok(mut s) = connect_from(&src, addr) {
            let _ = s.write_all(&mbap_frame(0x0B0B, 1, &[3, 0, 0, 0, 2]));
            match read_exact_timeout(&mut s, 13, 1500) {
                Ok(b) => {
                    served = b[..2] == [0x0B, 0x0B] && b[9..13] == [0, 100, 0, 101];
                    received = b;
                }
                Err(b) => received = b,
            }
        }
    } else {
        // TLS peers are driven on the net runtime (tokio-rustls) from its own threads
        let variant = c.variant;
        let src2 = src.clone();
        let r = crate::net::rt().block_on(async move {
            let mut served = false;
            let mut received = vec![];
            if let Ok(tcp) = crate::net::connect_from(&src2, addr).await {
                let connector = tokio_rustls::TlsConnector::from(crate::net::peer_client_config(crate::net::PeerVersions::Both, "cli_operator"));
                let name = tokio_rustls::rustls::pki_types::ServerName::try_from("test.com").unwrap();
                match tokio::time::timeout(Duration::from_millis(1500), connector.connect(name, tcp)).await {
                    Ok(Ok(mut tls)) => {
                        received = b"<server hello>".to_vec();
                        crate::net::write_all(&mut tls, &mbap_frame(0x0B0B, 1, &[3, 0, 0, 0, 2])).await;
                        if let crate::net::ReadOutcome::Bytes(b) = crate::net::read_n(&mut tls, 13, Duration::from_millis(1500)).await {
                            served = b[..2] == [0x0B, 0x0B];
                        }
                    }
                    Ok(Err(e)) => {
                        let msg = e.to_string();
                        if msg.contains("alert") {
                            received = format!("<{msg}>").into_bytes();
                        }
                    }
                    Err(_) => {}
                }
            }
            let _ = variant;
            (served, received)
        });
        served = r.0;
        received = r.1;
    }
    std::thread::sleep(Duration::from_millis(5));
    let calls = log.lock().unwrap().calls;
    drop(server);
    Ok((served, received, calls))
}

fn ffi_cases() -> Vec<FfiCase> {
    let filters = vec![
        FilterSpec::Any,
        FilterSpec::Exact("127.0.0.2".into()),
        FilterSpec::AnyOf(vec!["127.0.0.2".into(), "::1".into()]),
        FilterSpec::Wildcard("127.0.*.2".into()),
        FilterSpec::Wildcard("*.*.*.3".into()),
    ];
    let peers = ["127.0.0.1", "127.0.0.2", "127.0.1.2", "127.0.0.3", "::1"];
    let mut v = vec![];
    for variant in [Variant::Tcp, Variant::Tls, Variant::TlsAuthz] {
        for filter in &filters {
            for peer in peers {
                v.push(FfiCase { variant, filter: filter.clone(), peer: peer.to_string() });
            }
        }
    }
    v
}

fn judge_ffi_case(c: &FfiCase, r: &(bool, Vec<u8>, u32)) -> Vec<(String, String)> {
    let exp = c.filter.ref_matches(c.peer.parse().unwrap());
    let mut out = vec![];
    if exp && !r.0 {
        out.push((format!("matching-peer-not-served:c-abi:{:?}", c.variant), format!("peer {} matches {:?} but was not served", c.peer, c.filter)));
    }
    if !exp && (r.0 || !r.1.is_empty()) {
        out.push((format!("filtered-peer-served:c-abi:{:?}", c.variant), format!("peer {} does not match {:?} but received {}", c.peer, c.filter, String::from_utf8_lossy(&r.1))));
    }
    if !exp && r.2 > 0 {
        out.push((format!("filtered-peer-reached-handlers:c-abi:{:?}", c.variant), format!("{} authorization calls for a filtered peer", r.2)));
    }
    out
}

/// an `address_filter_add` that is refused leaves the filter exactly as it was
fn c16_refused_add(rt: &FfiRuntime, st: &mut Stats) {
    // an add that is refused leaves the filter exactly as it was
    for variant in [Variant::Tcp, Variant::Tls, Variant::TlsAuthz] {
        for (first, bad, inside, outside) in [("127.0.0.1", "10.1.*.*", "127.0.0.1", "127.0.0.2"), ("127.0.0.*", "127.0.1.2", "127.0.0.3", "127.0.1.2"), ("127.0.0.2", "not-an-address", "127.0.0.2", "127.0.0.1")] {
            for peer in [inside, outside] {
                st.evaluations += 1;
                st.class("c-abi-refused-add");
                let expect_served = peer == inside;
                let mut verdict: Option<bool> = None;
                for _attempt in 0..2 {
                    let mut filt: *mut rodbus_ffi::AddressFilter = null_mut();
                    let rc = unsafe { ffi::rodbus_address_filter_create(cstr(first).as_ptr(), &mut filt) };
                    if rc != OK {
                        st.violation(Violation { signature: "c-abi-filter-string".into(), summary: format!("address_filter_create({first:?}) -> {rc}"), replay: json!({}) });
                        break;
                    }
                    let rc_add = unsafe { ffi::rodbus_address_filter_add(filt, cstr(bad).as_ptr()) };
                    if rc_add == OK {
                        st.violation(Violation { signature: "c-abi-add-accepted".into(), summary: format!("address_filter_add({bad:?}) on a filter created from {first:?} was accepted"), replay: json!({}) });
                        unsafe { ffi::rodbus_address_filter_destroy(filt) };
                        break;
                    }
                    let server = ffi_server_with_filter(rt, variant, filt, "127.0.0.1", ten_registers(), Arc::new(Mutex::new(WriteState::default())), [true; 4], ("ca_a", "srv_valid", 0, 0));
                    let (server, addr, _log) = match server {
                        Ok(x) => x,
                        Err(_) => continue,
                    };
                    let served = probe_ffi_server(variant, addr, peer);
                    drop(server);
                    verdict = Some(served);
                    if served == expect_served {
                        break;
                    }
                }
                st.observe(&(format!("{variant:?}"), first, bad, peer, verdict));
                if let Some(served) = verdict {
                    if served != expect_served {
                        st.violation(Violation {
                            signature: format!("c-abi-refused-add-changed-the-filter:{variant:?}"),
                            summary: format!("filter created from {first:?}, address_filter_add({bad:?}) refused, {variant:?} server created from it: peer {peer} served={served}, expected {expect_served}"),
                            replay: json!({"kind": "c16-ffi-refused-add"}),
                        });
                    }
                }
            }
        }
    }
}

pub fn replay_c16_refused_add() -> Vec<(String, String)> {
    on_plain_thread(|| {
        let rt = FfiRuntime::new(4);
        let mut st = Stats::default();
        c16_refused_add(&rt, &mut st);
        st.violations_as_pairs()
    })
}

pub fn c16_ffi_phase(rep: &mut Report) {
    let st = on_plain_thread(|| {
        let rt = FfiRuntime::new(4);
        let mut st = Stats::default();
        let cases = ffi_cases();
        for (i, c) in cases.iter().enumerate() {
            st.evaluations += 1;
            let mut r = run_ffi_case(&rt, c);
            if let Ok(x) = &r {
                if !judge_ffi_case(c, x).is_empty() {
                    // real sockets: a verdict must reproduce
                    let r2 = run_ffi_case(&rt, c);
                    if let Ok(y) = &r2 {
                        if judge_ffi_case(c, y).is_empty() {
                            r = r2;
                        }
                    }
                }
            }
            let replay = json!({"kind": "c16-ffi", "variant": c.variant, "filter": c.filter, "peer": c.peer});
            match r {
                Err(e) => st.violation(Violation { signature: "MACHINERY:c-abi-server".into(), summary: format!("{:?} {:?} {}: {e}", c.variant, c.filter, c.peer), replay }),
                Ok(x) => {
                    let exp = c.filter.ref_matches(c.peer.parse().unwrap());
                    st.class(if exp { "c-abi-peer-matches" } else { "c-abi-peer-filtered" });
                    st.observe(&(format!("{:?}{:?}{}", c.variant, c.filter, c.peer), x.0));
                    if i % 17 == 0 {
                        st.sample(json!({"variant": c.variant, "filter": c.filter, "peer": c.peer, "served": x.0}));
                    }
                    for (sig, desc) in judge_ffi_case(c, &x) {
                        st.violation(Violation { signature: sig, summary: format!("{:?} {:?} peer {}: {desc}", c.variant, c.filter, c.peer), replay: replay.clone() });
                    }
                }
            }
        }
        c16_refused_add(&rt, &mut st);
        // strings rejected / accepted by address_filter_create
        for (s, ok) in [("*.*.*.*", true), ("127.0.0.1", true), ("::1", true), ("1.2.3", false), ("1.2.3.256", false), ("", false), ("a.b.c.d", false), ("1.2.3.4.5", false)] {
            st.evaluations += 1;
            let r = ffi_filter(&[s.to_string()]);
            if let Ok(p) = r {
                unsafe { ffi::rodbus_address_filter_destroy(p) };
            }
            if r.is_ok() != ok {
                st.violation(Violation { signature: "c-abi-filter-string".into(), summary: format!("address_filter_create({s:?}) ok={} expected {ok}", r.is_ok()), replay: json!({"kind": "c16-ffi-string", "s": s}) });
            }
        }
        st
    });
    rep.phase("server variants through the C ABI", st, json!({}));
    rep.require_class("c-abi-peer-matches");
    rep.require_class("c-abi-peer-filtered");
}

pub fn replay_c16_ffi(v: &serde_json::Value) -> Vec<(String, String)> {
    let c = FfiCase {
        variant: serde_json::from_value(v["variant"].clone()).unwrap(),
        filter: serde_json::from_value(v["filter"].clone()).unwrap(),
        peer: v["peer"].as_str().unwrap().to_string(),
    };
    on_plain_thread(|| {
        let rt = FfiRuntime::new(4);
        match run_ffi_case(&rt, &c) {
            Err(e) => vec![("MACHINERY:c-abi-server".into(), e)],
            Ok(x) => judge_ffi_case(&c, &x),
        }
    })
}

#[allow(dead_code)]
fn unused(_: BTreeMap<u8, u8>, _: Condvar) -> String {
    hex(&[])
}

// ---------------------------------------------------------------------------------------------
// C19: the point database
// ---------------------------------------------------------------------------------------------

#[derive(Clone, Default)]
struct RefDb {
    t: [BTreeMap<u16, u16>; 4],
}

impl RefDb {
    fn apply(&mut self, op: &DbOp) -> DbResult {
        match *op {
            DbOp::Add(t, i, v) => {
                let v = if t < 2 { (v != 0) as u16 } else { v };
                if self.t[t as usize].contains_key(&i) {
                    DbResult::Bool(false)
                } else {
                    self.t[t as usize].insert(i, v);
                    DbResult::Bool(true)
                }
            }
            DbOp::Update(t, i, v) => {
                let v = if t < 2 { (v != 0) as u16 } else { v };
                match self.t[t as usize].get_mut(&i) {
                    Some(x) => {
                        *x = v;
                        DbResult::Bool(true)
                    }
                    None => DbResult::Bool(false),
                }
            }
            DbOp::Delete(t, i) => DbResult::Bool(self.t[t as usize].remove(&i).is_some()),
            DbOp::Get(t, i) => match self.t[t as usize].get(&i) {
                Some(v) => DbResult::Value(*v),
                None => DbResult::Error(ffi::ParamError::InvalidIndex.into()),
            },
        }
    }
}

fn db_alphabet(types: &[u8]) -> Vec<DbOp> {
    let mut v = vec![];
    for t in types {
        for i in [0u16, 1, 0xFFFF] {
            for val in [1u16, 0] {
                v.push(DbOp::Add(*t, i, if *t < 2 { val } else { val + 0x1000 + (i & 0xFF) }));
                v.push(DbOp::Update(*t, i, if *t < 2 { 1 - val } else { val + 0x2000 }));
            }
            v.push(DbOp::Delete(*t, i));
            v.push(DbOp::Get(*t, i));
        }
    }
    v
}

/// one client read over the socket; returns the reply PDU
fn socket_read(s: &mut TcpStream, tx: u16, fc: u8, start: u16, count: u16) -> Result<Vec<u8>, String> {
    let mut p = vec![fc];
    p.extend_from_slice(&start.to_be_bytes());
    p.extend_from_slice(&count.to_be_bytes());
    s.write_all(&mbap_frame(tx, 1, &p)).map_err(|e| e.to_string())?;
    let head = read_exact_timeout(s, 7, 3000).map_err(|b| format!("no reply header ({} bytes)", b.len()))?;
    if head[..2] != tx.to_be_bytes() {
        return Err(format!("reply has transaction id {:02x}{:02x}", head[0], head[1]));
    }
    let len = u16::from_be_bytes([head[4], head[5]]) as usize;
    read_exact_timeout(s, len - 1, 3000).map_err(|b| format!("short reply ({} bytes)", b.len()))
}

fn expected_read(db: &RefDb, fc: u8, start: u16, count: u16) -> Vec<u8> {
    let t = (fc - 1) as usize;
    let mut vals = vec![];
    for k in 0..count {
        match db.t[t].get(&start.wrapping_add(k)) {
            Some(v) => vals.push(*v),
            None => return vec![fc | 0x80, 2],
        }
    }
    if fc <= 2 {
        let bits: Vec<bool> = vals.iter().map(|x| *x != 0).collect();
        let data = crate::refmodel::pdu::pack_bits(&bits);
        let mut p = vec![fc, data.len() as u8];
        p.extend(data);
        p
    } else {
        let mut p = vec![fc, (2 * vals.len()) as u8];
        for v in vals {
            p.extend_from_slice(&v.to_be_bytes());
        }
        p
    }
}

fn c19_map_semantics(rep: &mut Report) {
    let thorough = rep.thorough();
    // (a) sequences inside the configuration callback of device_map_add_endpoint (fresh database)
    let alpha = db_alphabet(&[0, 1, 2, 3]);
    let depth = if thorough { 3 } else { 2 };
    let st = on_plain_thread(|| {
        let mut st = Stats::default();
        let mut seq: Vec<usize> = vec![];
        fn rec(alpha: &[DbOp], seq: &mut Vec<usize>, depth: usize, st: &mut Stats) {
            if !seq.is_empty() {
                let ops: Vec<DbOp> = seq.iter().map(|i| alpha[*i].clone()).collect();
                let (wh, _d) = write_handler(Arc::new(Mutex::new(WriteState::default())), [false; 4]);
                let (map, got) = device_map(7, wh, ops.clone());
                unsafe { ffi::rodbus_device_map_destroy(map) };
                let mut r = RefDb::default();
                let exp: Vec<DbResult> = ops.iter().map(|o| r.apply(o)).collect();
                st.evaluations += 1;
                st.traces += 1;
                st.transitions += ops.len() as u64;
                st.state(&r.t);
                st.observe(&got);
                st.class("configure-callback-sequence");
                if got != exp {
                    st.violation(Violation {
                        signature: "database-map-semantics".into(),
                        summary: format!("ops {ops:?}: C ABI returned {got:?}, a per-type map returns {exp:?}"),
                        replay: json!({"kind": "c19-db", "ops": ops}),
                    });
                    return;
                }
                if st.traces % 997 == 1 {
                    st.sample(json!({"ops": format!("{ops:?}"), "results": format!("{got:?}")}));
                }
            }
            if seq.len() == depth {
                return;
            }
            for i in 0..alpha.len() {
                seq.push(i);
                rec(alpha, seq, depth, st);
                seq.pop();
            }
        }
        rec(&alpha, &mut seq, depth, &mut st);
        // deeper sequences on one type (the four tables share their code)
        let alpha1 = db_alphabet(&[2]);
        let d1 = if depth == 3 { 5 } else { 4 };
        rec(&alpha1, &mut vec![], d1, &mut st);
        let alpha0 = db_alphabet(&[0]);
        rec(&alpha0, &mut vec![], d1 - 1, &mut st);
        st
    });
    rep.phase("map semantics inside device_map_add_endpoint", st, json!({"depth": depth}));
    // (b) sequences inside server_update_database transactions, interleaved with client reads
    let st = on_plain_thread(|| {
        let mut st = Stats::default();
        let rt = FfiRuntime::new(2);
        let (server, addr, _log) = match ffi_server(&rt, Variant::Tcp, &FilterSpec::Any, "127.0.0.1", vec![], Arc::new(Mutex::new(WriteState::default())), [false; 4]) {
            Ok(x) => x,
            Err(e) => {
                st.violation(Violation { signature: "MACHINERY:c-abi-server".into(), summary: e, replay: json!({}) });
                return st;
            }
        };
        let mut sock = match connect_from("127.0.0.1", addr) {
            Ok(s) => s,
            Err(e) => {
                st.violation(Violation { signature: "MACHINERY:connect".into(), summary: e.to_string(), replay: json!({}) });
                return st;
            }
        };
        let mut model = RefDb::default();
        let mut tx = 0u16;
        let mut seq: Vec<usize> = vec![];
        let alpha = db_alphabet(&[0, 1, 2, 3]);
        // a fixed pseudo-exhaustive walk: every ordered pair of operations, each pair as one
        // transaction on the evolving database, followed by client reads of all four types
        let pairs: Vec<(usize, usize)> = (0..alpha.len()).flat_map(|a| (0..alpha.len()).map(move |b| (a, b))).collect();
        let step = if thorough { 1 } else { 7 };
        for (k, (a, b)) in pairs.iter().enumerate() {
            if k % step != 0 {
                continue;
            }
            seq.clear();
            seq.push(*a);
            seq.push(*b);
            let ops: Vec<DbOp> = seq.iter().map(|i| alpha[*i].clone()).collect();
            let got: Arc<Mutex<Vec<DbResult>>> = Arc::new(Mutex::new(vec![]));
            let g2 = got.clone();
            let ops2 = ops.clone();
            let rc = update_database(&server, 1, Box::new(move |db| {
                for op in &ops2 {
                    g2.lock().unwrap().push(unsafe { db_apply(db, op) });
                }
            }));
            let exp: Vec<DbResult> = ops.iter().map(|o| model.apply(o)).collect();
            st.evaluations += 1;
            st.traces += 1;
            st.transitions += 2;
            st.state(&model.t);
            st.class("transaction-sequence");
            let got = got.lock().unwrap().clone();
            if rc != OK || got != exp {
                st.violation(Violation {
                    signature: "database-map-semantics:transaction".into(),
                    summary: format!("transaction {ops:?} (rc {rc}): C ABI returned {got:?}, expected {exp:?}"),
                    replay: json!({"kind": "c19-db", "ops": ops}),
                });
                break;
            }
            // client reads: one point, and two points that may span a hole
            for fc in 1..=4u8 {
                for (start, count) in [(0u16, 1u16), (0, 2), (1, 1), (0xFFFF, 1)] {
                    tx = tx.wrapping_add(1);
                    st.evaluations += 1;
                    let want = expected_read(&model, fc, start, count);
                    st.class(if want[0] & 0x80 != 0 { "client-read-absent-point" } else { "client-read-values" });
                    match socket_read(&mut sock, tx, fc, start, count) {
                        Ok(p) if p == want => {}
                        Ok(p) => {
                            st.violation(Violation {
                                signature: if want[0] & 0x80 != 0 { "absent-point-not-exception-02".into() } else { "client-read-values".into() },
                                summary: format!("after {ops:?}: read fc {fc} start {start} count {count} answered {} expected {}", hex(&p), hex(&want)),
                                replay: json!({"kind": "c19-db", "ops": ops}),
                            });
                        }
                        Err(e) => st.violation(Violation { signature: "client-read-failed".into(), summary: e, replay: json!({"kind": "c19-db", "ops": ops}) }),
                    }
                    st.observe(&(fc, start, count, &want));
                }
            }
            if !st.violations.is_empty() {
                break;
            }
        }
        // an unknown unit id is reported, not applied
        let rc = update_database(&server, 9, Box::new(|_| {}));
        if rc != perr(ffi::ParamError::InvalidUnitId) {
            st.violation(Violation { signature: "update-database-unknown-unit".into(), summary: format!("rc {rc}, expected InvalidUnitId"), replay: json!({}) });
        }
        drop(sock);
        drop(server);
        st
    });
    rep.phase("transactions interleaved with client reads", st, json!({}));
}

// --- the cooperative scheduler -------------------------------------------------------------------

#[derive(Clone, Debug, PartialEq)]
enum AState {
    Running,
    /// waiting at a point; `stamp` = number of grants when it arrived after finding the mutex taken
    AtPoint { what: String, blocked_at: Option<u64> },
    Done,
}

struct SchedInner {
    actors: BTreeMap<usize, AState>,
    granted: BTreeMap<usize, bool>,
    was_blocked: BTreeMap<usize, bool>,
    threads: Vec<(std::thread::ThreadId, usize)>,
    grants: u64,
    trace: Vec<String>,
    blocked_events: u64,
}

pub struct CoopSched {
    inner: Mutex<SchedInner>,
    cv: Condvar,
}

const ACTOR_SERVER: usize = 0;

impl CoopSched {
    fn new() -> Arc<Self> {
        Arc::new(CoopSched {
            inner: Mutex::new(SchedInner { actors: BTreeMap::new(), granted: BTreeMap::new(), was_blocked: BTreeMap::new(), threads: vec![], grants: 0, trace: vec![], blocked_events: 0 }),
            cv: Condvar::new(),
        })
    }
    fn register_current(&self, id: usize) {
        let mut g = self.inner.lock().unwrap();
        g.threads.push((std::thread::current().id(), id));
        g.actors.insert(id, AState::Running);
    }
    fn actor_of_current(g: &SchedInner) -> usize {
        let me = std::thread::current().id();
        g.threads.iter().find(|x| x.0 == me).map(|x| x.1).unwrap_or(ACTOR_SERVER)
    }
    fn mark_done(&self, id: usize) {
        let mut g = self.inner.lock().unwrap();
        g.actors.insert(id, AState::Done);
        self.cv.notify_all();
    }
}

impl rodbus::verif::sched::Scheduler for CoopSched {
    fn point(&self, point: rodbus::verif::sched::Point) {
        let mut g = self.inner.lock().unwrap();
        let id = Self::actor_of_current(&g);
        let blocked = g.was_blocked.insert(id, false).unwrap_or(false);
        let stamp = g.grants;
        g.actors.insert(id, AState::AtPoint { what: format!("{point:?}"), blocked_at: if blocked { Some(stamp) } else { None } });
        self.cv.notify_all();
        let deadline = Instant::now() + Duration::from_secs(20);
        while !g.granted.get(&id).copied().unwrap_or(false) {
            let (ng, to) = self.cv.wait_timeout(g, Duration::from_millis(200)).unwrap();
            g = ng;
            if to.timed_out() && Instant::now() > deadline {
                // the controller went away: never block the code under test forever
                return;
            }
        }
        g.granted.insert(id, false);
        g.actors.insert(id, AState::Running);
    }
    fn blocked(&self) {
        let mut g = self.inner.lock().unwrap();
        let id = Self::actor_of_current(&g);
        g.was_blocked.insert(id, true);
        g.blocked_events += 1;
    }
}

#[derive(Debug)]
struct ScheduleRun {
    choices: Vec<usize>,
    branching: Vec<usize>,
    trace: Vec<String>,
    deadlock: bool,
    stuck: Option<String>,
    blocked_events: u64,
}

/// drive the actors: at every decision pick `prefix[k]` (or 0) among the enabled actors
fn drive(s: &Arc<CoopSched>, n_actors: usize, prefix: &[usize]) -> ScheduleRun {
    let mut run = ScheduleRun { choices: vec![], branching: vec![], trace: vec![], deadlock: false, stuck: None, blocked_events: 0 };
    let mut k = 0usize;
    loop {
        // wait until every actor is at a point or done
        let mut g = s.inner.lock().unwrap();
        let deadline = Instant::now() + Duration::from_secs(10);
        loop {
            let settled = g.actors.len() >= n_actors && g.actors.values().all(|a| !matches!(a, AState::Running));
            if settled {
                break;
            }
            let (ng, _) = s.cv.wait_timeout(g, Duration::from_millis(100)).unwrap();
            g = ng;
            if Instant::now() > deadline {
                run.stuck = Some(format!("actors did not settle: {:?}", g.actors));
                run.trace = g.trace.clone();
                return run;
            }
        }
        if g.actors.values().all(|a| *a == AState::Done) {
            run.trace = g.trace.clone();
            run.blocked_events = g.blocked_events;
            return run;
        }
        let grants = g.grants;
        let enabled: Vec<usize> = g
            .actors
            .iter()
            .filter(|(_, a)| match a {
                AState::AtPoint { blocked_at: None, .. } => true,
                // a blocked actor may retry once somebody else has made a step
                AState::AtPoint { blocked_at: Some(t), .. } => grants > *t,
                _ => false,
            })
            .map(|(id, _)| *id)
            .collect();
        if enabled.is_empty() {
            run.deadlock = true;
            run.trace = g.trace.clone();
            return run;
        }
        let c = prefix.get(k).copied().unwrap_or(0);
        let c = c.min(enabled.len() - 1);
        run.choices.push(c);
        run.branching.push(enabled.len());
        k += 1;
        let id = enabled[c];
        let what = match &g.actors[&id] {
            AState::AtPoint { what, blocked_at } => format!("{what}{}", if blocked_at.is_some() { " (retry)" } else { "" }),
            _ => String::new(),
        };
        g.trace.push(format!("actor{id}:{what}"));
        g.grants += 1;
        g.granted.insert(id, true);
        g.actors.insert(id, AState::Running);
        s.cv.notify_all();
    }
}

/// enumerate every schedule of a scenario by depth-first search over the choice points
fn all_schedules(mut run_one: impl FnMut(&[usize]) -> (ScheduleRun, Vec<(String, String)>), st: &mut Stats, name: &str, cap: usize) -> bool {
    let mut prefix: Vec<usize> = vec![];
    let mut n = 0usize;
    loop {
        let (run, problems) = run_one(&prefix);
        n += 1;
        st.evaluations += 1;
        st.traces += 1;
        st.transitions += run.choices.len() as u64;
        st.class(&format!("schedule:{name}"));
        if run.blocked_events > 0 {
            st.class("mutual-exclusion-observed");
        }
        st.state(&run.trace);
        st.observe(&(name.to_string(), run.trace.clone()));
        if n <= 2 {
            st.sample(json!({"scenario": name, "schedule": run.trace}));
        }
        let mut all = problems;
        if run.deadlock {
            all.push(("deadlock".into(), "no actor is enabled".into()));
        }
        if let Some(s) = &run.stuck {
            if std::env::var("MC_DEBUG").is_ok() {
                eprintln!("DEBUG stuck: {s} trace {:?}", run.trace);
            }
            all.push(("MACHINERY:scheduler-stuck".into(), s.clone()));
        }
        if !all.is_empty() {
            for (sig, d) in all {
                st.violation(Violation {
                    signature: format!("{sig}:{name}"),
                    summary: format!("scenario {name}, schedule {:?}: {d}", run.trace),
                    replay: json!({"kind": "c19-schedule", "scenario": name, "choices": run.choices}),
                });
            }
            return false;
        }
        // next schedule: deepest choice that can still be incremented
        let mut i = run.choices.len();
        loop {
            if i == 0 {
                return true;
            }
            i -= 1;
            if run.choices[i] + 1 < run.branching[i] {
                prefix = run.choices[..i].to_vec();
                prefix.push(run.choices[i] + 1);
                break;
            }
        }
        if n >= cap {
            st.class("schedule-cap-hit");
            return true;
        }
    }
}

struct AtomEnv {
    rt: FfiRuntime,
    server: FfiServer,
    sock: TcpStream,
    wstate: Arc<Mutex<WriteState>>,
    tx: u16,
}

fn atom_env() -> Result<AtomEnv, String> {
    let rt = FfiRuntime::new(3);
    let wstate = Arc::new(Mutex::new(WriteState { apply: true, ..Default::default() }));
    let points: Vec<DbOp> = (0..4).map(|i| DbOp::Add(2, i, 1)).collect();
    let (server, addr, _l) = ffi_server(&rt, Variant::Tcp, &FilterSpec::Any, "127.0.0.1", points, wstate.clone(), [true; 4])?;
    let sock = connect_from("127.0.0.1", addr).map_err(|e| e.to_string())?;
    Ok(AtomEnv { rt, server, sock, wstate, tx: 0 })
}

fn user_point(k: u16) {
    rodbus::verif::sched::point(rodbus::verif::sched::Point::User(k));
}

/// scenario 1: a client read of N registers races a transaction that rewrites all of them
fn scenario_read_vs_transaction(env: &mut AtomEnv, n: u16, prefix: &[usize]) -> (ScheduleRun, Vec<(String, String)>) {
    // reset (no scheduler installed)
    update_database(&env.server, 1, Box::new(move |db| {
        for i in 0..4 {
            unsafe { ffi::rodbus_database_update_holding_register(db, i, 1) };
        }
    }));
    let s = CoopSched::new();
    {
        let mut g = s.inner.lock().unwrap();
        g.actors.insert(ACTOR_SERVER, AState::Running);
    }
    rodbus::verif::sched::install(Some(s.clone()));
    env.tx = env.tx.wrapping_add(1);
    let tx = env.tx;
    let server_ptr = env.server.0 as usize;
    let mut reader = env.sock.try_clone().unwrap();
    let reply: Arc<Mutex<Option<Result<Vec<u8>, String>>>> = Arc::new(Mutex::new(None));
    let run = std::thread::scope(|scope| {
        let s1 = s.clone();
        scope.spawn(move || {
            s1.register_current(1);
            let srv = FfiServer(server_ptr as *mut rodbus_ffi::Server);
            update_database(&srv, 1, Box::new(move |db| {
                for i in 0..n {
                    user_point(i);
                    unsafe { ffi::rodbus_database_update_holding_register(db, i, 2) };
                }
            }));
            std::mem::forget(srv);
            s1.mark_done(1);
        });
        let s2 = s.clone();
        let reply2 = reply.clone();
        scope.spawn(move || {
            let r = socket_read(&mut reader, tx, 3, 0, n);
            *reply2.lock().unwrap() = Some(r);
            s2.mark_done(ACTOR_SERVER);
        });
        drive(&s, 2, prefix)
    });
    rodbus::verif::sched::install(None);
    let mut problems = vec![];
    match reply.lock().unwrap().take() {
        Some(Ok(p)) => {
            let vals: Vec<u16> = p[2..].chunks(2).map(|c| u16::from_be_bytes([c[0], c[1]])).collect();
            let all_old = vals.iter().all(|v| *v == 1);
            let all_new = vals.iter().all(|v| *v == 2);
            if p[0] != 3 || vals.len() != n as usize || !(all_old || all_new) {
                problems.push(("torn-read".to_string(), format!("a single client read observed part of a transaction: values {vals:?} (reply {})", hex(&p))));
            }
        }
        Some(Err(e)) => problems.push(("client-read-failed".to_string(), e)),
        None => problems.push(("MACHINERY:no-reply".to_string(), "reader thread produced nothing".into())),
    }
    (run, problems)
}

/// scenario 2: two transactions that each increment the same register (read-modify-write)
fn scenario_two_transactions(env: &mut AtomEnv, prefix: &[usize]) -> (ScheduleRun, Vec<(String, String)>) {
    update_database(&env.server, 1, Box::new(move |db| {
        unsafe { ffi::rodbus_database_update_holding_register(db, 0, 100) };
        unsafe { ffi::rodbus_database_update_holding_register(db, 1, 100) };
    }));
    let s = CoopSched::new();
    rodbus::verif::sched::install(Some(s.clone()));
    let server_ptr = env.server.0 as usize;
    let run = std::thread::scope(|scope| {
        for id in 1..=2usize {
            let s1 = s.clone();
            scope.spawn(move || {
                s1.register_current(id);
                let srv = FfiServer(server_ptr as *mut rodbus_ffi::Server);
                update_database(&srv, 1, Box::new(move |db| {
                    for reg in 0..2u16 {
                        let mut v = 0u16;
                        unsafe { ffi::rodbus_database_get_holding_register(db, reg, &mut v) };
                        user_point(reg);
                        unsafe { ffi::rodbus_database_update_holding_register(db, reg, v + id as u16) };
                    }
                }));
                std::mem::forget(srv);
                s1.mark_done(id);
            });
        }
        drive(&s, 2, prefix)
    });
    rodbus::verif::sched::install(None);
    let fin: Arc<Mutex<Vec<u16>>> = Arc::new(Mutex::new(vec![]));
    let f2 = fin.clone();
    update_database(&env.server, 1, Box::new(move |db| {
        for reg in 0..2u16 {
            let mut v = 0u16;
            unsafe { ffi::rodbus_database_get_holding_register(db, reg, &mut v) };
            f2.lock().unwrap().push(v);
        }
    }));
    let fin = fin.lock().unwrap().clone();
    let mut problems = vec![];
    if fin != vec![103, 103] {
        problems.push(("lost-update".to_string(), format!("two transactions each adding their id to both registers left {fin:?}, expected [103, 103]")));
    }
    (run, problems)
}

/// scenario 3: a client write request (applied by the application's write callback) races a
/// transaction that reads the same registers
fn scenario_write_request_vs_transaction(env: &mut AtomEnv, prefix: &[usize]) -> (ScheduleRun, Vec<(String, String)>) {
    update_database(&env.server, 1, Box::new(move |db| {
        for i in 0..4 {
            unsafe { ffi::rodbus_database_update_holding_register(db, i, 1) };
        }
    }));
    env.wstate.lock().unwrap().calls.clear();
    let s = CoopSched::new();
    {
        let mut g = s.inner.lock().unwrap();
        g.actors.insert(ACTOR_SERVER, AState::Running);
    }
    rodbus::verif::sched::install(Some(s.clone()));
    env.tx = env.tx.wrapping_add(1);
    let tx = env.tx;
    let server_ptr = env.server.0 as usize;
    let mut sock = env.sock.try_clone().unwrap();
    let seen: Arc<Mutex<Vec<u16>>> = Arc::new(Mutex::new(vec![]));
    let reply: Arc<Mutex<Option<Vec<u8>>>> = Arc::new(Mutex::new(None));
    let run = std::thread::scope(|scope| {
        let s1 = s.clone();
        let seen2 = seen.clone();
        scope.spawn(move || {
            s1.register_current(1);
            let srv = FfiServer(server_ptr as *mut rodbus_ffi::Server);
            update_database(&srv, 1, Box::new(move |db| {
                for reg in 0..3u16 {
                    user_point(reg);
                    let mut v = 0u16;
                    unsafe { ffi::rodbus_database_get_holding_register(db, reg, &mut v) };
                    seen2.lock().unwrap().push(v);
                }
            }));
            std::mem::forget(srv);
            s1.mark_done(1);
        });
        let s2 = s.clone();
        let reply2 = reply.clone();
        scope.spawn(move || {
            // write multiple registers 0..3 = 2
            let p = [16u8, 0, 0, 0, 3, 6, 0, 2, 0, 2, 0, 2];
            let _ = sock.write_all(&mbap_frame(tx, 1, &p));
            if let Ok(head) = read_exact_timeout(&mut sock, 7, 5000) {
                let len = u16::from_be_bytes([head[4], head[5]]) as usize;
                if let Ok(b) = read_exact_timeout(&mut sock, len - 1, 3000) {
                    *reply2.lock().unwrap() = Some(b);
                }
            }
            s2.mark_done(ACTOR_SERVER);
        });
        drive(&s, 2, prefix)
    });
    rodbus::verif::sched::install(None);
    let mut problems = vec![];
    let seen = seen.lock().unwrap().clone();
    if !(seen.iter().all(|v| *v == 1) || seen.iter().all(|v| *v == 2)) {
        problems.push(("torn-transaction-read".to_string(), format!("a transaction observed part of a client write request: {seen:?}")));
    }
    match reply.lock().unwrap().take() {
        Some(b) if b == vec![16, 0, 0, 0, 3] => {}
        other => problems.push(("write-request-reply".to_string(), format!("{other:?}"))),
    }
    (run, problems)
}

fn c19_atomicity(rep: &mut Report) {
    let thorough = rep.thorough();
    let st = on_plain_thread(|| {
        let mut st = Stats::default();
        let mut env = match atom_env() {
            Ok(e) => e,
            Err(e) => {
                st.violation(Violation { signature: "MACHINERY:c-abi-server".into(), summary: e, replay: json!({}) });
                return st;
            }
        };
        let cap = if thorough { 20_000 } else { 4_000 };
        for n in [2u16, 3] {
            all_schedules(|p| scenario_read_vs_transaction(&mut env, n, p), &mut st, &format!("read-{n}-vs-transaction"), cap);
        }
        all_schedules(|p| scenario_two_transactions(&mut env, p), &mut st, "two-transactions", cap);
        all_schedules(|p| scenario_write_request_vs_transaction(&mut env, p), &mut st, "write-request-vs-transaction", cap);
        let _ = &env.rt;
        st
    });
    rep.phase("atomicity: all schedules of the cooperative scheduler", st, json!({}));
}

pub fn check_c19(tier: &str) -> i32 {
    let mut rep = Report::new(
        "C19",
        tier,
        "model_checking",
        "(1) map semantics: all sequences of <= D operations over {add, update, delete, get} x 4 point types x indices {0,1,65535} x 2 values issued through the C ABI inside device_map_add_endpoint's configuration callback, and all ordered pairs inside server_update_database transactions on a running server interleaved with client reads over a loopback socket, against a per-type reference map (exception 02 for reads touching an absent point); (2) atomicity: a cooperative scheduler (scheduling points at every acquisition of a handler mutex, every database read of the server and between the steps of the harness' transactions) enumerates every schedule of four scenarios by DFS: client read of N registers vs rewriting transaction (N=2,3), two read-modify-write transactions, client write request vs reading transaction; every reply / transaction view must be all-old or all-new, no update may be lost, no schedule may deadlock. states = distinct database states / distinct schedules",
    );
    rep.bounds = json!({"map_depth": if rep.thorough() { 3 } else { 2 }, "single_type_depth": if rep.thorough() { 5 } else { 4 }, "schedule_cap_per_scenario": if rep.thorough() { 20000 } else { 4000 }});
    c19_map_semantics(&mut rep);
    c19_atomicity(&mut rep);
    for c in ["configure-callback-sequence", "transaction-sequence", "client-read-absent-point", "client-read-values", "mutual-exclusion-observed", "schedule:read-2-vs-transaction", "schedule:read-3-vs-transaction", "schedule:two-transactions", "schedule:write-request-vs-transaction"] {
        rep.require_class(c);
    }
    if rep.stats.classes.contains_key("schedule-cap-hit") {
        rep.caps_hit.push("schedule cap".into());
    }
    rep.assumptions.push("scheduling granularity is one point access / one mutex acquisition; reordering inside one access is not modelled (irrelevant under a mutex)".into());
    rep.finish()
}

/// C17 under contention: an RTU broadcast write to three units while an application thread holds
/// the handler mutex of one of them (every unit must still receive the write exactly once, and the
/// broadcast is never answered). The server session is hand-polled on its own thread; the
/// cooperative scheduler decides at every handler-mutex acquisition who goes first.
fn scenario_broadcast_vs_handler_lock(held_unit: usize, prefix: &[usize]) -> (ScheduleRun, Vec<(String, String)>) {
    use crate::hserver::{AppSpec, ServerCfg, ServerHarness};
    use crate::refmodel::server::Call;
    let cfg = ServerCfg { rtu: true, units: vec![(1, AppSpec::dense()), (2, AppSpec::dense()), (9, AppSpec::dense())], auth: None, decode: (0, 0, 0) };
    let s = CoopSched::new();
    {
        let mut g = s.inner.lock().unwrap();
        g.actors.insert(ACTOR_SERVER, AState::Running);
    }
    // write single register 7 := 0x2A2A to unit 0 (broadcast)
    let frame = crate::refmodel::pdu::rtu_frame(0, &[6, 0, 7, 0x2A, 0x2A]);
    let out: Arc<Mutex<Option<(Vec<u8>, Vec<Call>)>>> = Arc::new(Mutex::new(None));
    let handler_slot: Arc<Mutex<Option<Arc<Mutex<Box<crate::hserver::RecHandler>>>>>> = Arc::new(Mutex::new(None));
    rodbus::verif::sched::install(Some(s.clone()));
    let run = std::thread::scope(|scope| {
        let s0 = s.clone();
        let out0 = out.clone();
        let slot0 = handler_slot.clone();
        let cfg0 = cfg.clone();
        let frame0 = frame.clone();
        scope.spawn(move || {
            crate::sim::enter_thread_runtime();
            s0.register_current(ACTOR_SERVER);
            let mut h = ServerHarness::new(&cfg0);
            h.settle();
            *slot0.lock().unwrap() = Some(h.handlers[held_unit].1.clone());
            // the frame arrives when the scheduler says so
            user_point(100);
            let obs = h.deliver_and_observe(&frame0);
            *out0.lock().unwrap() = Some((obs.written.concat(), obs.calls));
            s0.mark_done(ACTOR_SERVER);
        });
        let s1 = s.clone();
        let slot1 = handler_slot.clone();
        scope.spawn(move || {
            s1.register_current(1);
            // wait for the harness to exist
            let handler = loop {
                if let Some(h) = slot1.lock().unwrap().clone() {
                    break h;
                }
                std::thread::sleep(Duration::from_micros(200));
            };
            {
                // the application updates its own state under the handler lock
                let guard = rodbus::server::LockExt::lock(&handler).unwrap();
                user_point(0);
                let _ = guard.unit;
            }
            s1.mark_done(1);
        });
        drive(&s, 2, prefix)
    });
    rodbus::verif::sched::install(None);
    let mut problems = vec![];
    match out.lock().unwrap().take() {
        Some((written, calls)) => {
            if !written.is_empty() {
                problems.push(("broadcast-answered".to_string(), format!("the broadcast was answered with {}", hex(&written))));
            }
            for unit in [1u8, 2, 9] {
                let n = calls.iter().filter(|c| matches!(c, Call::WriteSingleReg { unit: u, addr: 7, value: 0x2A2A } if *u == unit)).count();
                if n != 1 {
                    problems.push(("broadcast-not-applied-exactly-once".to_string(), format!("unit {unit} received the broadcast write {n} times (handler calls {calls:?})")));
                }
            }
        }
        None => problems.push(("MACHINERY:no-observation".to_string(), "the server thread produced nothing".into())),
    }
    (run, problems)
}

/// all schedules of the contended-broadcast scenario, for each unit whose lock the application holds
pub fn c17_contended_broadcast() -> Stats {
    on_plain_thread(|| {
        let mut st = Stats::default();
        for held in 0..3usize {
            let name = format!("broadcast-vs-handler-lock-{held}");
            all_schedules(|prefix| scenario_broadcast_vs_handler_lock(held, prefix), &mut st, &name, 2000);
        }
        st
    })
}

pub fn replay_c19(v: &serde_json::Value) -> Vec<(String, String)> {
    if let Some(name) = v["scenario"].as_str() {
        if let Some(held) = name.strip_prefix("broadcast-vs-handler-lock-") {
            let held: usize = held.parse().unwrap_or(0);
            let choices: Vec<usize> = v["choices"].as_array().unwrap().iter().map(|x| x.as_u64().unwrap() as usize).collect();
            let name = name.to_string();
            return on_plain_thread(move || {
                let (run, mut problems) = scenario_broadcast_vs_handler_lock(held, &choices);
                if run.deadlock {
                    problems.push(("deadlock".into(), format!("{:?}", run.trace)));
                }
                problems.into_iter().map(|(s, d)| (format!("{s}:{name}"), d)).collect()
            });
        }
    }
    on_plain_thread(|| {
        if v["kind"] == "c19-db" {
            let ops: Vec<DbOp> = serde_json::from_value(v["ops"].clone()).unwrap();
            let (wh, _d) = write_handler(Arc::new(Mutex::new(WriteState::default())), [false; 4]);
            let (map, got) = device_map(7, wh, ops.clone());
            unsafe { ffi::rodbus_device_map_destroy(map) };
            let mut r = RefDb::default();
            let exp: Vec<DbResult> = ops.iter().map(|o| r.apply(o)).collect();
            if got != exp {
                return vec![("database-map-semantics".into(), format!("got {got:?} expected {exp:?}"))];
            }
            return vec![];
        }
        let name = v["scenario"].as_str().unwrap().to_string();
        let choices: Vec<usize> = v["choices"].as_array().unwrap().iter().map(|x| x.as_u64().unwrap() as usize).collect();
        let mut env = match atom_env() {
            Ok(e) => e,
            Err(e) => return vec![("MACHINERY:c-abi-server".into(), e)],
        };
        let (run, mut problems) = match name.as_str() {
            "read-2-vs-transaction" => scenario_read_vs_transaction(&mut env, 2, &choices),
            "read-3-vs-transaction" => scenario_read_vs_transaction(&mut env, 3, &choices),
            "two-transactions" => scenario_two_transactions(&mut env, &choices),
            _ => scenario_write_request_vs_transaction(&mut env, &choices),
        };
        if run.deadlock {
            problems.push(("deadlock".into(), format!("{:?}", run.trace)));
        }
        problems.into_iter().map(|(s, d)| (format!("{s}:{name}"), d)).collect()
    })
}

// ---------------------------------------------------------------------------------------------
// C18: the C ABI reports and forwards exactly what the Rust API would
// ---------------------------------------------------------------------------------------------

/// hand-written name table: the same-named ffi::RequestError for each rodbus::RequestError
/// (names are matched with names; the numeric values are whatever the generated header says)
fn ffi_code_for(e: &rodbus::RequestError) -> c_int {
    use ffi::RequestError as F;
    use rodbus::ExceptionCode as X;
    use rodbus::RequestError as E;
    let f = match e {
        E::Shutdown => F::Shutdown,
        E::NoConnection => F::NoConnection,
        E::ResponseTimeout => F::ResponseTimeout,
        E::BadRequest(_) => F::BadRequest,
        E::BadResponse(_) => F::BadResponse,
        E::Io(_) => F::IoError,
        E::BadFrame(_) => F::BadFraming,
        E::Internal(_) => F::InternalError,
        E::Exception(x) => match x {
            X::IllegalFunction => F::ModbusExceptionIllegalFunction,
            X::IllegalDataAddress => F::ModbusExceptionIllegalDataAddress,
            X::IllegalDataValue => F::ModbusExceptionIllegalDataValue,
            X::ServerDeviceFailure => F::ModbusExceptionServerDeviceFailure,
            X::Acknowledge => F::ModbusExceptionAcknowledge,
            X::ServerDeviceBusy => F::ModbusExceptionServerDeviceBusy,
            X::MemoryParityError => F::ModbusExceptionMemoryParityError,
            X::GatewayPathUnavailable => F::ModbusExceptionGatewayPathUnavailable,
            X::GatewayTargetDeviceFailedToRespond => F::ModbusExceptionGatewayTargetDeviceFailedToRespond,
            X::Unknown(_) => F::ModbusExceptionUnknown,
        },
    };
    f.into()
}

fn perr(e: ffi::ParamError) -> c_int {
    e.into()
}

#[derive(Clone, Copy, Debug, PartialEq, Eq, Hash, serde::Serialize, serde::Deserialize)]
pub enum PeerBehaviour {
    /// reply with a correct answer
    Good,
    Exception(u8),
    /// matching transaction id, truncated PDU
    BadReply,
    /// header with protocol id 1
    BadFrame,
    Silent,
    Close,
}

/// a scripted Modbus TCP peer on a plain thread; records the request frames it received
struct Peer {
    addr: SocketAddr,
    requests: Arc<Mutex<Vec<Vec<u8>>>>,
    accepts: Arc<Mutex<Vec<Instant>>>,
    stop: Arc<Mutex<bool>>,
    /// connections that ended (EOF or error seen by the peer, or closed by the peer itself)
    closed: Arc<Mutex<usize>>,
}

impl Peer {
    /// wait until the peer thread has recorded `n` request frames (it polls its sockets, so a frame
    /// the client has already written may not have been recorded yet when the client's call returns)
    fn wait_requests(&self, n: usize, ms: u64) -> Vec<Vec<u8>> {
        let deadline = Instant::now() + Duration::from_millis(ms);
        while Instant::now() < deadline {
            if self.requests.lock().unwrap().len() >= n {
                break;
            }
            std::thread::sleep(Duration::from_micros(300));
        }
        self.requests.lock().unwrap().clone()
    }

    /// wait until `n` connections have ended: afterwards the client task that owned the socket has
    /// let go of it and cannot emit protocol log lines any more
    fn wait_closed(&self, n: usize, ms: u64) -> bool {
        let deadline = Instant::now() + Duration::from_millis(ms);
        while Instant::now() < deadline {
            if *self.closed.lock().unwrap() >= n {
                return true;
            }
            std::thread::sleep(Duration::from_micros(300));
        }
        false
    }
}

fn good_reply_for(req: &[u8]) -> Vec<u8> {
    let fc = req[0];
    let n = u16::from_be_bytes([req[3], req[4]]) as usize;
    match fc {
        1 | 2 => {
            let nb = n.div_ceil(8);
            let mut p = vec![fc, nb as u8];
            p.extend((0..nb).map(|i| 0xA5u8.wrapping_add(i as u8) & if i + 1 == nb && n % 8 != 0 { (1u8 << (n % 8)) - 1 } else { 0xFF }));
            p
        }
        3 | 4 => {
            let mut p = vec![fc, (2 * n) as u8];
            for i in 0..n {
                p.extend_from_slice(&(0x1100u16 + i as u16).to_be_bytes());
            }
            p
        }
        _ => req[..5].to_vec(),
    }
}

fn spawn_peer(behaviour: PeerBehaviour, close_after_accept: bool) -> Peer {
    let l = std::net::TcpListener::bind("127.0.0.1:0").expect("bind");
    let addr = l.local_addr().unwrap();
    l.set_nonblocking(true).unwrap();
    let requests = Arc::new(Mutex::new(vec![]));
    let accepts = Arc::new(Mutex::new(vec![]));
    let stop = Arc::new(Mutex::new(false));
    let (r2, a2, s2) = (requests.clone(), accepts.clone(), stop.clone());
    let closed = Arc::new(Mutex::new(0usize));
    let c2 = closed.clone();
    std::thread::spawn(move || {
        let mut conns: Vec<TcpStream> = vec![];
        let mut bufs: Vec<Vec<u8>> = vec![];
        loop {
            if *s2.lock().unwrap() {
                return;
            }
            if let Ok((s, _)) = l.accept() {
                a2.lock().unwrap().push(Instant::now());
                if close_after_accept {
                    drop(s);
                } else {
                    s.set_nonblocking(true).unwrap();
                    conns.push(s);
                    bufs.push(vec![]);
                }
            }
            let mut dead = vec![];
            for (i, c) in conns.iter_mut().enumerate() {
                let mut tmp = [0u8; 512];
                match c.read(&mut tmp) {
                    Ok(0) => dead.push(i),
                    Ok(k) => bufs[i].extend_from_slice(&tmp[..k]),
                    Err(e) if e.kind() == std::io::ErrorKind::WouldBlock => {}
                    Err(_) => dead.push(i),
                }
                while bufs[i].len() >= 7 {
                    let len = u16::from_be_bytes([bufs[i][4], bufs[i][5]]) as usize;
                    if bufs[i].len() < 6 + len {
                        break;
                    }
                    let frame: Vec<u8> = bufs[i].drain(..6 + len).collect();
                    r2.lock().unwrap().push(frame.clone());
                    let (tx, unit, pdu) = ([frame[0], frame[1]], frame[6], &frame[7..]);
                    let reply_pdu: Option<Vec<u8>> = match behaviour {
                        PeerBehaviour::Good => Some(good_reply_for(pdu)),
                        PeerBehaviour::Exception(c) => Some(vec![pdu[0] | 0x80, c]),
                        PeerBehaviour::BadReply => Some(vec![pdu[0]]),
                        PeerBehaviour::BadFrame => {
                            let _ = c.write_all(&[tx[0], tx[1], 0, 1, 0, 3, unit, pdu[0], 0]);
                            None
                        }
                        PeerBehaviour::Silent => None,
                        PeerBehaviour::Close => {
                            dead.push(i);
                            None
                        }
                    };
                    if let Some(p) = reply_pdu {
                        let mut f = vec![tx[0], tx[1], 0, 0];
                        f.extend_from_slice(&((p.len() + 1) as u16).to_be_bytes());
                        f.push(unit);
                        f.extend(p);
                        let _ = c.write_all(&f);
                    }
                }
            }
            dead.sort();
            dead.dedup();
            for i in dead.into_iter().rev() {
                conns.remove(i);
                bufs.remove(i);
                *c2.lock().unwrap() += 1;
            }
            std::thread::sleep(Duration::from_micros(200));
        }
    });
    Peer { addr, requests, accepts, stop, closed }
}

impl Drop for Peer {
    fn drop(&mut self) {
        *self.stop.lock().unwrap() = true;
    }
}

/// the eight client operations with fixed arguments
#[derive(Clone, Copy, Debug, PartialEq, Eq, Hash, serde::Serialize, serde::Deserialize)]
pub enum Op {
    ReadCoils,
    ReadDiscrete,
    ReadHolding,
    ReadInput,
    WriteCoil,
    WriteReg,
    WriteCoils,
    WriteRegs,
}

const OPS: [Op; 8] = [Op::ReadCoils, Op::ReadDiscrete, Op::ReadHolding, Op::ReadInput, Op::WriteCoil, Op::WriteReg, Op::WriteCoils, Op::WriteRegs];

#[derive(Clone, Debug, PartialEq, Eq, Hash)]
pub enum Completion {
    Bits(Vec<(u16, bool)>),
    Regs(Vec<(u16, u16)>),
    WriteOk,
    Failure(c_int),
}

#[derive(Default)]
pub struct CbState {
    pub completions: Vec<Completion>,
}

extern "C" fn bits_complete(it: *mut rodbus_ffi::BitValueIterator, ctx: *mut c_void) {
    let c: &Ctx<CbState> = unsafe { ctx_ref(ctx) };
    let mut v = vec![];
    loop {
        let p = unsafe { ffi::rodbus_bit_value_iterator_next(it) };
        if p.is_null() {
            break;
        }
        let x = unsafe { &*p };
        v.push((x.index, x.value));
    }
    c.state.lock().unwrap().completions.push(Completion::Bits(v));
}

extern "C" fn regs_complete(it: *mut rodbus_ffi::RegisterValueIterator, ctx: *mut c_void) {
    let c: &Ctx<CbState> = unsafe { ctx_ref(ctx) };
    let mut v = vec![];
    loop {
        let p = unsafe { ffi::rodbus_register_value_iterator_next(it) };
        if p.is_null() {
            break;
        }
        let x = unsafe { &*p };
        v.push((x.index, x.value));
    }
    c.state.lock().unwrap().completions.push(Completion::Regs(v));
}

extern "C" fn write_complete(_r: c_int, ctx: *mut c_void) {
    let c: &Ctx<CbState> = unsafe { ctx_ref(ctx) };
    c.state.lock().unwrap().completions.push(Completion::WriteOk);
}

extern "C" fn cb_failure(err: c_int, ctx: *mut c_void) {
    let c: &Ctx<CbState> = unsafe { ctx_ref(ctx) };
    c.state.lock().unwrap().completions.push(Completion::Failure(err));
}

#[derive(Default)]
struct StateLog {
    states: Vec<c_int>,
    times: Vec<Instant>,
}

extern "C" fn on_client_state(state: c_int, ctx: *mut c_void) {
    let c: &Ctx<StateLog> = unsafe { ctx_ref(ctx) };
    let mut g = c.state.lock().unwrap();
    g.states.push(state);
    g.times.push(Instant::now());
}

struct FfiClient {
    ch: *mut rodbus_ffi::ClientChannel,
    states: Arc<Mutex<StateLog>>,
    listener_destroyed: Arc<Mutex<u32>>,
}

impl FfiClient {
    fn new(rt: &FfiRuntime, addr: SocketAddr, queue: u16, retry_ms: (u64, u64), level: ffi::DecodeLevel) -> Self {
        let states = Arc::new(Mutex::new(StateLog::default()));
        let destroyed = Arc::new(Mutex::new(0));
        let listener = ffi::ClientStateListener { on_change: Some(on_client_state), on_destroy: Some(ctx_destroy::<StateLog>), ctx: ctx_new(states.clone(), destroyed.clone()) };
        let mut out: *mut rodbus_ffi::ClientChannel = null_mut();
        let host = cstr(&addr.ip().to_string());
        let rc = unsafe { ffi::rodbus_client_channel_create_tcp(rt.0, host.as_ptr(), addr.port(), queue, ffi::RetryStrategy { min_delay: retry_ms.0, max_delay: retry_ms.1 }, level, listener, &mut out) };
        assert_eq!(rc, OK);
        FfiClient { ch: out, states, listener_destroyed: destroyed }
    }
    fn wait_state(&self, want: c_int, ms: u64) -> bool {
        let deadline = Instant::now() + Duration::from_millis(ms);
        while Instant::now() < deadline {
            if self.states.lock().unwrap().states.last() == Some(&want) {
                return true;
            }
            std::thread::sleep(Duration::from_millis(1));
        }
        false
    }
    /// issue one operation; returns (return code, callback state, destroy counter)
    fn call(&self, op: Op, unit: u8, timeout_ms: u64, start: u16, count: u16) -> (c_int, Arc<Mutex<CbState>>, Arc<Mutex<u32>>) {
        let st = Arc::new(Mutex::new(CbState::default()));
        let d = Arc::new(Mutex::new(0));
        let param = ffi::RequestParam { unit_id: unit, timeout: timeout_ms };
        let range = ffi::AddressRange { start, count };
        let rc = unsafe {
            match op {
                Op::ReadCoils | Op::ReadDiscrete => {
                    let cb = ffi::BitReadCallback { on_complete: Some(bits_complete), on_failure: Some(cb_failure), on_destroy: Some(ctx_destroy::<CbState>), ctx: ctx_new(st.clone(), d.clone()) };
                    if op == Op::ReadCoils { ffi::rodbus_client_channel_read_coils(self.ch, param, range, cb) } else { ffi::rodbus_client_channel_read_discrete_inputs(self.ch, param, range, cb) }
                }
                Op::ReadHolding | Op::ReadInput => {
                    let cb = ffi::RegisterReadCallback { on_complete: Some(regs_complete), on_failure: Some(cb_failure), on_destroy: Some(ctx_destroy::<CbState>), ctx: ctx_new(st.clone(), d.clone()) };
                    if op == Op::ReadHolding { ffi::rodbus_client_channel_read_holding_registers(self.ch, param, range, cb) } else { ffi::rodbus_client_channel_read_input_registers(self.ch, param, range, cb) }
                }
                _ => {
                    let cb = ffi::WriteCallback { on_complete: Some(write_complete), on_failure: Some(cb_failure), on_destroy: Some(ctx_destroy::<CbState>), ctx: ctx_new(st.clone(), d.clone()) };
                    match op {
                        Op::WriteCoil => ffi::rodbus_client_channel_write_single_coil(self.ch, param, ffi::BitValue { index: start, value: count % 2 == 1 }, cb),
                        Op::WriteReg => ffi::rodbus_client_channel_write_single_register(self.ch, param, ffi::RegisterValue { index: start, value: count.wrapping_mul(257) }, cb),
                        Op::WriteCoils => {
                            let l = ffi::rodbus_bit_list_create(count as u32);
                            for i in 0..count {
                                ffi::rodbus_bit_list_add(l, i % 3 == 0);
                            }
                            let rc = ffi::rodbus_client_channel_write_multiple_coils(self.ch, param, start, l, cb);
                            ffi::rodbus_bit_list_destroy(l);
                            rc
                        }
                        _ => {
                            let l = ffi::rodbus_register_list_create(count as u32);
                            for i in 0..count {
                                ffi::rodbus_register_list_add(l, 0x2200 + i);
                            }
                            let rc = ffi::rodbus_client_channel_write_multiple_registers(self.ch, param, start, l, cb);
                            ffi::rodbus_register_list_destroy(l);
                            rc
                        }
                    }
                }
            }
        };
        (rc, st, d)
    }
}

impl Drop for FfiClient {
    fn drop(&mut self) {
        unsafe { ffi::rodbus_client_channel_destroy(self.ch) }
    }
}

fn wait_completion(st: &Arc<Mutex<CbState>>, ms: u64) -> Vec<Completion> {
    let deadline = Instant::now() + Duration::from_millis(ms);
    while Instant::now() < deadline {
        if !st.lock().unwrap().completions.is_empty() {
            break;
        }
        std::thread::sleep(Duration::from_micros(300));
    }
    // allow a (buggy) second completion to show up
    std::thread::sleep(Duration::from_millis(2));
    st.lock().unwrap().completions.clone()
}

/// the same operation through the Rust API
fn rust_call(ch: &rodbus::client::Channel, op: Op, unit: u8, timeout_ms: u64, start: u16, count: u16) -> Result<Completion, rodbus::RequestError> {
    use rodbus::client::*;
    use rodbus::*;
    let param = RequestParam::new(UnitId::new(unit), Duration::from_millis(timeout_ms));
    let range = |s, c| AddressRange::try_from(s, c).map_err(RequestError::from);
    crate::net::rt().block_on(async {
        match op {
            Op::ReadCoils => ch.read_coils(param, range(start, count)?).await.map(|v| Completion::Bits(v.into_iter().map(|x| (x.index, x.value)).collect())),
            Op::ReadDiscrete => ch.read_discrete_inputs(param, range(start, count)?).await.map(|v| Completion::Bits(v.into_iter().map(|x| (x.index, x.value)).collect())),
            Op::ReadHolding => ch.read_holding_registers(param, range(start, count)?).await.map(|v| Completion::Regs(v.into_iter().map(|x| (x.index, x.value)).collect())),
            Op::ReadInput => ch.read_input_registers(param, range(start, count)?).await.map(|v| Completion::Regs(v.into_iter().map(|x| (x.index, x.value)).collect())),
            Op::WriteCoil => ch.write_single_coil(param, Indexed::new(start, count % 2 == 1)).await.map(|_| Completion::WriteOk),
            Op::WriteReg => ch.write_single_register(param, Indexed::new(start, count.wrapping_mul(257))).await.map(|_| Completion::WriteOk),
            Op::WriteCoils => {
                let w = WriteMultiple::from(start, (0..count).map(|i| i % 3 == 0).collect()).map_err(RequestError::from)?;
                ch.write_multiple_coils(param, w).await.map(|_| Completion::WriteOk)
            }
            Op::WriteRegs => {
                let w = WriteMultiple::from(start, (0..count).map(|i| 0x2200 + i).collect()).map_err(RequestError::from)?;
                ch.write_multiple_registers(param, w).await.map(|_| Completion::WriteOk)
            }
        }
    })
}

struct RustStates(Arc<Mutex<Vec<String>>>);
impl rodbus::client::Listener<rodbus::client::ClientState> for RustStates {
    fn update(&mut self, value: rodbus::client::ClientState) -> rodbus::MaybeAsync<()> {
        let name = format!("{value:?}");
        self.0.lock().unwrap().push(name.split('(').next().unwrap().to_string());
        rodbus::MaybeAsync::ready(())
    }
}

fn rust_client(addr: SocketAddr, queue: usize, retry_ms: (u64, u64), level: rodbus::DecodeLevel) -> (rodbus::client::Channel, Arc<Mutex<Vec<String>>>) {
    let states = Arc::new(Mutex::new(vec![]));
    let s2 = states.clone();
    let ch = crate::net::rt().block_on(async move {
        let ch = rodbus::client::spawn_tcp_client_task(
            rodbus::client::HostAddr::ip(addr.ip(), addr.port()),
            queue,
            rodbus::doubling_retry_strategy(Duration::from_millis(retry_ms.0), Duration::from_millis(retry_ms.1)),
            level,
            Some(Box::new(RustStates(s2))),
        );
        ch
    });
    (ch, states)
}

fn wait_rust_state(states: &Arc<Mutex<Vec<String>>>, want: &str, ms: u64) -> bool {
    let deadline = Instant::now() + Duration::from_millis(ms);
    while Instant::now() < deadline {
        if states.lock().unwrap().last().map(|s| s == want).unwrap_or(false) {
            return true;
        }
        std::thread::sleep(Duration::from_millis(1));
    }
    false
}

const CLIENT_STATE_NAMES: [&str; 6] = ["Disabled", "Connecting", "Connected", "WaitAfterFailedConnect", "WaitAfterDisconnect", "Shutdown"];

fn args_for(op: Op) -> (u16, u16) {
    match op {
        Op::ReadCoils => (3, 11),
        Op::ReadDiscrete => (0xFFF0, 16),
        Op::ReadHolding => (7, 5),
        Op::ReadInput => (0xFFFF, 1),
        Op::WriteCoil => (0x0102, 1),
        Op::WriteReg => (0xFFFE, 0x33),
        Op::WriteCoils => (9, 10),
        Op::WriteRegs => (0x1000, 4),
    }
}

/// one differential transaction; returns problems
fn c18_client_case(rt: &FfiRuntime, op: Op, behaviour: PeerBehaviour, unit: u8, timeout_ms: u64, st: &mut Stats) -> Vec<(String, String)> {
    let mut out = vec![];
    let (start, count) = args_for(op);
    // C ABI
    let peer_a = spawn_peer(behaviour, false);
    let fc = FfiClient::new(rt, peer_a.addr, 4, (1000, 1000), decode_nothing());
    let rc = unsafe { ffi::rodbus_client_channel_enable(fc.ch) };
    if rc != OK || !fc.wait_state(2, 3000) {
        return vec![("MACHINERY:ffi-client-did-not-connect".into(), format!("rc {rc} states {:?}", fc.states.lock().unwrap().states))];
    }
    let t0 = Instant::now();
    let (rc, cbs, destroyed) = fc.call(op, unit, timeout_ms, start, count);
    let comps = wait_completion(&cbs, timeout_ms + 3000);
    let elapsed = t0.elapsed();
    let ffi_req = peer_a.wait_requests(1, 3000);
    // Rust API
    let peer_b = spawn_peer(behaviour, false);
    let (ch, states) = rust_client(peer_b.addr, 4, (1000, 1000), rodbus::DecodeLevel::nothing());
    let _ = crate::net::rt().block_on(ch.enable());
    if !wait_rust_state(&states, "Connected", 3000) {
        return vec![("MACHINERY:rust-client-did-not-connect".into(), format!("{:?}", states.lock().unwrap()))];
    }
    let rust = rust_call(&ch, op, unit, timeout_ms, start, count);
    let rust_req = peer_b.wait_requests(1, 3000);
    st.observe(&(op, behaviour, unit, &rust.as_ref().map_err(|e| format!("{e:?}"))));
    st.class(match &rust {
        Ok(_) => "outcome:success",
        Err(rodbus::RequestError::Exception(_)) => "outcome:exception",
        Err(rodbus::RequestError::ResponseTimeout) => "outcome:timeout",
        Err(rodbus::RequestError::Io(_)) => "outcome:io",
        Err(rodbus::RequestError::BadFrame(_)) => "outcome:bad-frame",
        Err(rodbus::RequestError::BadResponse(_)) => "outcome:bad-response",
        Err(_) => "outcome:other",
    });
    // compare
    if rc != OK {
        out.push(("c-abi-call-rejected".into(), format!("{op:?} returned {rc}")));
    }
    if ffi_req != rust_req {
        out.push((format!("request-bytes-differ:{op:?}"), format!("C ABI sent {:?}, Rust API sent {:?}", ffi_req.iter().map(|x| hex(x)).collect::<Vec<_>>(), rust_req.iter().map(|x| hex(x)).collect::<Vec<_>>())));
    }
    if comps.len() != 1 {
        out.push((format!("completion-callback-count:{op:?}"), format!("{} completion callbacks ({comps:?}), expected exactly one", comps.len())));
    }
    let dn = *destroyed.lock().unwrap();
    if dn != 1 {
        out.push((format!("on-destroy-count:{op:?}"), format!("on_destroy called {dn} times")));
    }
    if let Some(c) = comps.first() {
        let want = match &rust {
            Ok(v) => v.clone(),
            Err(e) => Completion::Failure(ffi_code_for(e)),
        };
        if *c != want {
            let sig = match (&rust, c) {
                (Err(e), Completion::Failure(_)) => format!("error-mapping:{}", format!("{e:?}").split('(').next().unwrap()),
                _ => format!("outcome-differs:{op:?}"),
            };
            out.push((sig, format!("{op:?} {behaviour:?}: C ABI reported {c:?}, Rust API {rust:?} (= {want:?})")));
        }
    }
    if behaviour == PeerBehaviour::Silent && (elapsed < Duration::from_millis(timeout_ms) || elapsed > Duration::from_millis(timeout_ms + 1500)) {
        out.push(("timeout-not-forwarded".into(), format!("timeout {timeout_ms} ms but the failure arrived after {elapsed:?}")));
    }
    drop(fc);
    out
}

#[derive(Default)]
struct RustWriteHandler {
    results: [Option<rodbus::ExceptionCode>; 4],
    set: [bool; 4],
    regs: BTreeMap<u16, u16>,
}

impl rodbus::server::RequestHandler for RustWriteHandler {
    fn read_holding_register(&self, address: u16) -> Result<u16, rodbus::ExceptionCode> {
        self.regs.get(&address).copied().ok_or(rodbus::ExceptionCode::IllegalDataAddress)
    }
    fn write_single_coil(&mut self, _v: rodbus::Indexed<bool>) -> Result<(), rodbus::ExceptionCode> {
        if !self.set[0] {
            return Err(rodbus::ExceptionCode::IllegalFunction);
        }
        self.results[0].map(Err).unwrap_or(Ok(()))
    }
    fn write_single_register(&mut self, _v: rodbus::Indexed<u16>) -> Result<(), rodbus::ExceptionCode> {
        if !self.set[1] {
            return Err(rodbus::ExceptionCode::IllegalFunction);
        }
        self.results[1].map(Err).unwrap_or(Ok(()))
    }
    fn write_multiple_coils(&mut self, _v: rodbus::server::WriteCoils) -> Result<(), rodbus::ExceptionCode> {
        if !self.set[2] {
            return Err(rodbus::ExceptionCode::IllegalFunction);
        }
        self.results[2].map(Err).unwrap_or(Ok(()))
    }
    fn write_multiple_registers(&mut self, _v: rodbus::server::WriteRegisters) -> Result<(), rodbus::ExceptionCode> {
        if !self.set[3] {
            return Err(rodbus::ExceptionCode::IllegalFunction);
        }
        self.results[3].map(Err).unwrap_or(Ok(()))
    }
}

/// ffi::ModbusException value -> same-named rodbus::ExceptionCode (hand-written)
fn named_exception(v: c_int, raw: u8) -> rodbus::ExceptionCode {
    use rodbus::ExceptionCode as X;
    match v {
        1 => X::IllegalFunction,
        2 => X::IllegalDataAddress,
        3 => X::IllegalDataValue,
        4 => X::ServerDeviceFailure,
        5 => X::Acknowledge,
        6 => X::ServerDeviceBusy,
        8 => X::MemoryParityError,
        10 => X::GatewayPathUnavailable,
        11 => X::GatewayTargetDeviceFailedToRespond,
        _ => X::Unknown(raw),
    }
}

const WRITE_REQS: [(&str, &[u8], &str); 4] = [
    ("write-single-coil", &[5, 0x01, 0x02, 0xFF, 0x00], "wsc 258 true"),
    ("write-single-register", &[6, 0xFF, 0xFE, 0xAB, 0xCD], "wsr 65534 43981"),
    ("write-multiple-coils", &[15, 0, 9, 0, 10, 2, 0b0100_1001, 0b0000_0010], "wmc 9 [(9, true), (10, false), (11, false), (12, true), (13, false), (14, false), (15, true), (16, false), (17, false), (18, true)]"),
    ("write-multiple-registers", &[16, 0x10, 0, 0, 2, 4, 0x22, 0x00, 0x22, 0x01], "wmr 4096 [(4096, 8704), (4097, 8705)]"),
];

fn c18_server_part(rt: &FfiRuntime, thorough: bool) -> Stats {
    let mut st = Stats::default();
    // the result table: success, each named exception, Unknown with raw codes, callback not set
    let mut results: Vec<(Option<(bool, c_int, u8)>, bool)> = vec![(Some((true, 1, 0)), true)];
    for e in [1, 2, 3, 4, 5, 6, 8, 10, 11] {
        results.push((Some((false, e, 0x77)), true));
    }
    let raws: Vec<u8> = if thorough { (0..=255).collect() } else { vec![0, 1, 2, 7, 9, 0x0C, 0x7F, 0x80, 0xFF] };
    for r in raws {
        results.push((Some((false, 255, r)), true));
    }
    results.push((None, false));
    for (res, set) in results {
        // C ABI server
        let ws = Arc::new(Mutex::new(WriteState { results: [res; 4], apply: false, ..Default::default() }));
        // the database already holds exactly the values the four requests write: whether a write
        // changes anything is the application's business, the callback decides every time
        let mut points = ten_registers();
        points.push(DbOp::Add(0, 258, 1));
        points.push(DbOp::Add(2, 65534, 43981));
        for (i, v) in [(9u16, 1u16), (10, 0), (11, 0), (12, 1), (13, 0), (14, 0), (15, 1), (16, 0), (17, 0), (18, 1)] {
            points.push(DbOp::Add(0, i, v));
        }
        points.push(DbOp::Add(2, 4096, 8704));
        points.push(DbOp::Add(2, 4097, 8705));
        let (server, addr, _l) = match ffi_server(rt, Variant::Tcp, &FilterSpec::Any, "127.0.0.1", points, ws.clone(), [set; 4]) {
            Ok(x) => x,
            Err(e) => {
                st.violation(Violation { signature: "MACHINERY:c-abi-server".into(), summary: e, replay: json!({}) });
                return st;
            }
        };
        // Rust API server with the same-named results
        let rh = RustWriteHandler { results: [res.and_then(|r| if r.0 { None } else { Some(named_exception(r.1, r.2)) }); 4], set: [set; 4], regs: (0..10).map(|i| (i, 100 + i)).collect() };
        use rodbus::server::RequestHandler;
        let map = rodbus::server::ServerHandlerMap::single(rodbus::UnitId::new(1), rh.wrap());
        let (rhandle, raddr) = crate::net::rt().block_on(async {
            let (l, a) = crate::net::listen("127.0.0.1").await;
            let (h, t) = rodbus::server::create_tcp_server_task(4, l, map, rodbus::server::AddressFilter::Any, rodbus::DecodeLevel::nothing());
            tokio::spawn(t.run());
            (h, a)
        });
        let mut sa = connect_from("127.0.0.1", addr).unwrap();
        let mut sb = connect_from("127.0.0.1", raddr).unwrap();
        for (k, (name, pdu, call)) in WRITE_REQS.iter().enumerate() {
            st.evaluations += 1;
            let tx = 0x0300 + k as u16;
            let _ = sa.write_all(&mbap_frame(tx, 1, pdu));
            let _ = sb.write_all(&mbap_frame(tx, 1, pdu));
            let read_reply = |s: &mut TcpStream| -> Vec<u8> {
                match read_exact_timeout(s, 7, 3000) {
                    Ok(h) => {
                        let len = u16::from_be_bytes([h[4], h[5]]) as usize;
                        read_exact_timeout(s, len - 1, 3000).unwrap_or_default()
                    }
                    Err(_) => vec![],
                }
            };
            let ra = read_reply(&mut sa);
            let rb = read_reply(&mut sb);
            // what the names say
            let want: Vec<u8> = match res {
                None => vec![pdu[0] | 0x80, 1],
                Some((true, _, _)) => pdu[..5].to_vec(),
                // the C enum's values are the Modbus numbers of the named exceptions (255: raw)
                Some((false, e, raw)) => vec![pdu[0] | 0x80, if e == 255 { raw } else { e as u8 }],
            };
            st.class(match res {
                None => "write-callback-not-set",
                Some((true, ..)) => "write-result-success",
                Some((false, 255, _)) => "write-result-raw-exception",
                _ => "write-result-named-exception",
            });
            st.observe(&(name, res));
            if ra != rb || ra != want {
                st.violation(Violation {
                    signature: format!("write-result-not-forwarded:{name}"),
                    summary: format!("{name} with callback result {res:?}: C ABI server replied {}, Rust server {}, expected {}", hex(&ra), hex(&rb), hex(&want)),
                    replay: json!({"kind": "c18-server", "result": res.map(|r| (r.0, r.1, r.2)), "set": set, "request": k}),
                });
            }
            if set {
                let calls = ws.lock().unwrap().calls.clone();
                if calls.get(k).map(|s| s.as_str()) != Some(*call) {
                    st.violation(Violation {
                        signature: format!("write-callback-arguments:{name}"),
                        summary: format!("{name}: callback saw {:?}, expected {call:?}", calls.get(k)),
                        replay: json!({"kind": "c18-server", "result": res.map(|r| (r.0, r.1, r.2)), "set": set, "request": k}),
                    });
                }
            }
        }
        st.sample(json!({"callback_result": format!("{res:?}"), "callbacks_set": set}));
        let _ = crate::net::rt().block_on(rhandle.shutdown());
        drop(server);
    }
    st
}

/// a write request that arrives while the application is inside `rodbus_server_update_database`:
/// with the Rust API the handler mutex is held for the whole mutation, so the write is applied
/// after it and both changes are there afterwards
fn c18_write_during_transaction(rt: &FfiRuntime) -> Stats {
    let mut st = Stats::default();
    for (name, pdu, reg) in [("fc6", vec![6u8, 0, 1, 0xBE, 0xEF], 1u16), ("fc16", vec![16u8, 0, 1, 0, 1, 2, 0xBE, 0xEF], 1)] {
        let ws = Arc::new(Mutex::new(WriteState { results: [Some((true, 1, 0)); 4], apply: true, ..Default::default() }));
        let (server, addr, _l) = match ffi_server(rt, Variant::Tcp, &FilterSpec::Any, "127.0.0.1", ten_registers(), ws.clone(), [true; 4]) {
            Ok(x) => x,
            Err(e) => {
                st.violation(Violation { signature: "MACHINERY:c-abi-server".into(), summary: e, replay: json!({}) });
                return st;
            }
        };
        let mut sock = connect_from("127.0.0.1", addr).unwrap();
        let mut inner = sock.try_clone().unwrap();
        let frame = mbap_frame(0x0D01, 1, &pdu);
        let rc = update_database(
            &server,
            1,
            Box::new(move |db| {
                let _ = inner.write_all(&frame);
                let _ = inner.flush();
                // were the request handled now, it would be handled while this transaction is open
                std::thread::sleep(Duration::from_millis(60));
                let _ = unsafe { db_apply(db, &DbOp::Update(2, 0, 0x1234)) };
            }),
        );
        let echo = read_exact_timeout(&mut sock, 12, 3000).unwrap_or_default();
        let _ = sock.write_all(&mbap_frame(0x0D02, 1, &[3, 0, 0, 0, 2]));
        let got = read_exact_timeout(&mut sock, 13, 3000).unwrap_or_default();
        drop(server);
        st.evaluations += 1;
        st.class("write-request-during-database-transaction");
        st.observe(&(name, rc, &echo, &got));
        let want = [0x0D, 0x02, 0, 0, 0, 7, 1, 3, 4, 0x12, 0x34, 0xBE, 0xEF];
        if rc != OK || echo.len() != 12 || echo[7] != pdu[0] || got != want {
            st.violation(Violation {
                signature: format!("write-during-transaction-lost:{name}"),
                summary: format!("{name} request for register {reg} sent while a rodbus_server_update_database transaction (setting register 0) was open: update rc {rc}, write reply {}, registers 0..2 afterwards {} (expected {}): one of the two changes is gone", hex(&echo), hex(&got), hex(&want)),
                replay: json!({"kind": "c18-server"}),
            });
        }
    }
    st
}

/// bind addresses through the C ABI: whatever address the Rust API can bind, the C-ABI constructor
/// given the same address as text can bind too (IPv4 and IPv6, loopback and unspecified)
fn c18_bind_addresses(rt: &FfiRuntime) -> Stats {
    let mut st = Stats::default();
    for ip in ["127.0.0.1", "[::1]", "0.0.0.0", "[::]"] {
        let rust_ok = std::net::TcpListener::bind(format!("{ip}:0")).is_ok();
        st.evaluations += 1;
        st.class("config:bind-address");
        if !rust_ok {
            st.class("config:bind-address-unavailable-here");
            continue;
        }
        let r = ffi_server(rt, Variant::Tcp, &FilterSpec::Any, ip, ten_registers(), Arc::new(Mutex::new(WriteState::default())), [true; 4]);
        st.observe(&(ip, r.is_ok()));
        if let Err(e) = r {
            st.violation(Violation {
                signature: "bind-address-not-forwarded".into(),
                summary: format!("rodbus_server_create_tcp with the address {ip}: {e}; the Rust API binds that address"),
                replay: json!({"kind": "c18-server"}),
            });
        }
    }
    st
}

fn c18_client_part(rt: &FfiRuntime, thorough: bool) -> Stats {
    let mut st = Stats::default();
    let mut cases: Vec<(Op, PeerBehaviour, u8, u64)> = vec![];
    for (i, op) in OPS.iter().enumerate() {
        for unit in [0u8, 1, 255] {
            cases.push((*op, PeerBehaviour::Good, unit, 10_000));
        }
        cases.push((*op, PeerBehaviour::Good, 7, 4_294_967_295));
        cases.push((*op, PeerBehaviour::BadReply, 1, 10_000));
        cases.push((*op, PeerBehaviour::BadFrame, 1, 10_000));
        cases.push((*op, PeerBehaviour::Close, 1, 10_000));
        cases.push((*op, PeerBehaviour::Silent, 1, [1, 60, 1000][i % 3]));
        let codes: Vec<u8> = if thorough || i == 0 || i == 5 { (0..=255).collect() } else { vec![0, 1, 2, 3, 4, 5, 6, 7, 8, 9, 10, 11, 12, 0x80, 0xFF] };
        for c in codes {
            cases.push((*op, PeerBehaviour::Exception(c), 1, 10_000));
        }
    }
    for (k, (op, beh, unit, timeout)) in cases.iter().enumerate() {
        st.evaluations += 1;
        let mut problems = c18_client_case(rt, *op, *beh, *unit, *timeout, &mut st);
        // a verdict that rests on an upper bound in real time must repeat three times
        for _ in 0..2 {
            if problems.iter().any(|(s, _)| s == "timeout-not-forwarded") {
                problems = c18_client_case(rt, *op, *beh, *unit, *timeout, &mut st);
            }
        }
        if k % 101 == 0 {
            st.sample(json!({"op": format!("{op:?}"), "peer": format!("{beh:?}"), "unit": unit, "timeout_ms": timeout}));
        }
        for (sig, desc) in problems {
            st.violation(Violation { signature: sig, summary: desc, replay: json!({"kind": "c18-client", "op": op, "peer": beh, "unit": unit, "timeout": timeout}) });
        }
    }
    st
}

/// conditions under which the call itself reports an error. The calls with invalid parameters run
/// in a child process (`part == 1`): a library that panics inside an `extern "C"` function aborts
/// the whole process, and that must be a verdict about the library, not the end of the checker.
fn c18_call_errors(rt: &FfiRuntime, part: u8) -> Stats {
    let mut st = Stats::default();
    if part == 1 {
        c18_invalid_parameter_calls(rt, &mut st);
        return st;
    }
    // (a) no connection / disabled: the call is accepted, the callback reports NoConnection
    {
        let refusing = crate::ffiutil::RefusingPort::new();
        let port = refusing.port;
        let addr: SocketAddr = format!("127.0.0.1:{port}").parse().unwrap();
        let fc = FfiClient::new(rt, addr, 4, (50, 50), decode_nothing());
        for enabled in [false, true] {
            if enabled {
                unsafe { ffi::rodbus_client_channel_enable(fc.ch) };
                std::thread::sleep(Duration::from_millis(20));
            }
            for op in OPS {
                let (s, c) = args_for(op);
                let (rc, cbs, d) = fc.call(op, 1, 100, s, c);
                let comps = wait_completion(&cbs, 2000);
                st.evaluations += 1;
                st.class("call:no-connection");
                st.observe(&(op, enabled, &comps));
                if rc != OK || comps != vec![Completion::Failure(ffi::RequestError::NoConnection.into())] || *d.lock().unwrap() != 1 {
                    st.violation(Violation { signature: "no-connection-reporting".into(), summary: format!("{op:?} enabled={enabled}: rc {rc}, callbacks {comps:?}, on_destroy {}", d.lock().unwrap()), replay: json!({"kind": "c18-call-errors"}) });
                }
            }
        }
        // listener: same-named states in the same order as the Rust listener on the same script
        let (ch, states) = rust_client(addr, 4, (50, 50), rodbus::DecodeLevel::nothing());
        let _ = crate::net::rt().block_on(ch.enable());
        // both clients must have been seen failing to connect before they are disabled (poll with a
        // ceiling: a fixed sleep is too short on a loaded machine)
        let seen = |f: &dyn Fn() -> bool| {
            let t = Instant::now();
            while !f() && t.elapsed() < Duration::from_secs(5) {
                std::thread::sleep(Duration::from_millis(1));
            }
        };
        seen(&|| states.lock().unwrap().iter().any(|s| s == "WaitAfterFailedConnect"));
        seen(&|| fc.states.lock().unwrap().states.contains(&3));
        let _ = crate::net::rt().block_on(ch.disable());
        unsafe { ffi::rodbus_client_channel_disable(fc.ch) };
        wait_rust_state(&states, "Disabled", 5000);
        fc.wait_state(0, 5000);
        let ffi_states: Vec<String> = fc.states.lock().unwrap().states.iter().map(|s| CLIENT_STATE_NAMES.get(*s as usize).unwrap_or(&"?").to_string()).collect();
        let rust_states = states.lock().unwrap().clone();
        // both must visit Disabled, Connecting, WaitAfterFailedConnect and end Disabled
        let dedup = |v: &Vec<String>| {
            let mut o: Vec<String> = vec![];
            for s in v {
                if o.last() != Some(s) {
                    o.push(s.clone());
                }
            }
            let set: std::collections::BTreeSet<String> = o.iter().cloned().collect();
            (set, o.first().cloned(), o.last().cloned())
        };
        st.evaluations += 1;
        st.class("listener:refused-connection-script");
        if dedup(&ffi_states) != dedup(&rust_states) {
            st.violation(Violation { signature: "client-state-names".into(), summary: format!("C ABI listener saw {ffi_states:?}, Rust listener {rust_states:?}"), replay: json!({"kind": "c18-call-errors"}) });
        }
    }
    // (b) queue full: max_queued_requests = 1, a silent peer, three calls in a row
    {
        let peer = spawn_peer(PeerBehaviour::Silent, false);
        let fc = FfiClient::new(rt, peer.addr, 1, (1000, 1000), decode_nothing());
        unsafe { ffi::rodbus_client_channel_enable(fc.ch) };
        if fc.wait_state(2, 3000) {
            let mut rcs = vec![];
            let mut handles = vec![];
            for _ in 0..4 {
                let (rc, cbs, d) = fc.call(Op::ReadHolding, 1, 300, 0, 2);
                rcs.push(rc);
                handles.push((cbs, d));
            }
            {
                let t = Instant::now();
                while handles.iter().any(|(cbs, d)| cbs.lock().unwrap().completions.is_empty() || *d.lock().unwrap() == 0) && t.elapsed() < Duration::from_secs(8) {
                    std::thread::sleep(Duration::from_millis(1));
                }
                std::thread::sleep(Duration::from_millis(20));
            }
            st.evaluations += 4;
            st.class("call:queue-full");
            st.observe(&rcs);
            if !rcs.contains(&perr(ffi::ParamError::TooManyRequests)) {
                st.class("call:queue-full-not-reached");
            }
            for (i, (cbs, d)) in handles.iter().enumerate() {
                let comps = cbs.lock().unwrap().completions.clone();
                let dn = *d.lock().unwrap();
                if comps.len() != 1 || dn != 1 {
                    st.violation(Violation {
                        signature: "completion-callback-count:queue-full".into(),
                        summary: format!("call #{i} returned {} and produced {} completion callbacks ({comps:?}), on_destroy {dn}", rcs[i], comps.len()),
                        replay: json!({"kind": "c18-call-errors"}),
                    });
                }
                // a call that was accepted must end in a timeout, a refused one in some error
                if rcs[i] == OK && comps != vec![Completion::Failure(ffi::RequestError::ResponseTimeout.into())] {
                    st.violation(Violation { signature: "queued-request-result".into(), summary: format!("accepted call #{i} completed with {comps:?}"), replay: json!({"kind": "c18-call-errors"}) });
                }
            }
            // TooManyRequests is the same-named counterpart of FfiChannelError::ChannelFull
            for rc in &rcs {
                if *rc != OK && *rc != perr(ffi::ParamError::TooManyRequests) {
                    st.violation(Violation { signature: "queue-full-error-code".into(), summary: format!("return codes {rcs:?}"), replay: json!({"kind": "c18-call-errors"}) });
                }
            }
        } else {
            st.violation(Violation { signature: "MACHINERY:ffi-client-did-not-connect".into(), summary: "queue-full scenario".into(), replay: json!({}) });
        }
    }
    // (b2) a setting call made while the queue is full: whatever it returns, the next one that
    // returns OK must take effect (the Rust `Channel::disable` has no way of being "accepted and
    // ignored")
    {
        let peer = spawn_peer(PeerBehaviour::Silent, false);
        let fc = FfiClient::new(rt, peer.addr, 1, (1000, 1000), decode_nothing());
        unsafe { ffi::rodbus_client_channel_enable(fc.ch) };
        if fc.wait_state(2, 3000) {
            let mut handles = vec![];
            let mut full = false;
            for _ in 0..6 {
                let (rc, cbs, d) = fc.call(Op::ReadHolding, 1, 600, 0, 2);
                handles.push((cbs, d));
                if rc == perr(ffi::ParamError::TooManyRequests) {
                    full = true;
                    break;
                }
            }
            let rc1: c_int = unsafe { ffi::rodbus_client_channel_disable(fc.ch) }.into();
            st.evaluations += 1;
            st.class("call:setting-while-queue-full");
            st.observe(&(full, rc1));
            if !full {
                st.class("call:queue-full-not-reached");
            }
            let mut effective = rc1 == OK;
            let mut rcs = vec![rc1];
            if rc1 != OK {
                if rc1 != perr(ffi::ParamError::TooManyRequests) {
                    st.violation(Violation { signature: "queue-full-error-code:setting".into(), summary: format!("disable with a full queue returned {rc1}"), replay: json!({"kind": "c18-call-errors"}) });
                }
                // once the queue has drained the call must be accepted
                let t = Instant::now();
                while t.elapsed() < Duration::from_secs(8) {
                    let rc: c_int = unsafe { ffi::rodbus_client_channel_disable(fc.ch) }.into();
                    rcs.push(rc);
                    if rc == OK {
                        effective = true;
                        break;
                    }
                    std::thread::sleep(Duration::from_millis(50));
                }
            }
            if !effective {
                st.violation(Violation { signature: "setting-call-never-accepted".into(), summary: format!("disable kept being refused for 8 s after the queue had been full: {rcs:?}"), replay: json!({"kind": "c18-call-errors"}) });
            } else if !fc.wait_state(0, 5000) {
                st.violation(Violation {
                    signature: "setting-call-accepted-but-ignored".into(),
                    summary: format!("disable returned {rcs:?} (the last one OK) on a connected channel whose queue had been full, yet Disabled was never announced: states {:?}", fc.states.lock().unwrap().states),
                    replay: json!({"kind": "c18-call-errors"}),
                });
            }
            // and the way back
            let rc: c_int = unsafe { ffi::rodbus_client_channel_enable(fc.ch) }.into();
            if rc != OK || !fc.wait_state(2, 5000) {
                st.violation(Violation { signature: "setting-call-accepted-but-ignored".into(), summary: format!("enable after that returned {rc}; Connected was not announced again: states {:?}", fc.states.lock().unwrap().states), replay: json!({"kind": "c18-call-errors"}) });
            }
            let t = Instant::now();
            while handles.iter().any(|(cbs, d)| cbs.lock().unwrap().completions.is_empty() || *d.lock().unwrap() == 0) && t.elapsed() < Duration::from_secs(8) {
                std::thread::sleep(Duration::from_millis(1));
            }
        } else {
            st.violation(Violation { signature: "MACHINERY:ffi-client-did-not-connect".into(), summary: "setting-while-queue-full scenario".into(), replay: json!({}) });
        }
    }
    st
}

/// (c) parameter validation: invalid ranges, null channel: error code, exactly one completion
/// callback, on_destroy once; (d) list reuse
fn c18_invalid_parameter_calls(rt: &FfiRuntime, st: &mut Stats) {
    {
        let peer = spawn_peer(PeerBehaviour::Good, false);
        let fc = FfiClient::new(rt, peer.addr, 4, (1000, 1000), decode_nothing());
        unsafe { ffi::rodbus_client_channel_enable(fc.ch) };
        fc.wait_state(2, 3000);
        for (op, s, c, want_rc) in [
            (Op::ReadCoils, 0u16, 0u16, perr(ffi::ParamError::InvalidRange)),
            (Op::ReadCoils, 0xFFFF, 2, perr(ffi::ParamError::InvalidRange)),
            (Op::ReadHolding, 0, 0, perr(ffi::ParamError::InvalidRange)),
            (Op::ReadCoils, 0, 2001, perr(ffi::ParamError::InvalidRange)),
            (Op::ReadDiscrete, 0, 2001, perr(ffi::ParamError::InvalidRange)),
            (Op::ReadHolding, 0, 126, perr(ffi::ParamError::InvalidRange)),
            (Op::ReadInput, 0, 126, perr(ffi::ParamError::InvalidRange)),
            (Op::WriteCoils, 0, 0, perr(ffi::ParamError::InvalidRequest)),
            (Op::WriteRegs, 0xFFFF, 2, perr(ffi::ParamError::InvalidRequest)),
        ] {
            let (rc, cbs, d) = fc.call(op, 1, 200, s, c);
            let t_d = Instant::now();
            while *d.lock().unwrap() == 0 && t_d.elapsed() < Duration::from_secs(2) {
                std::thread::sleep(Duration::from_micros(300));
            }
            std::thread::sleep(Duration::from_millis(5));
            let comps = cbs.lock().unwrap().completions.clone();
            let dn = *d.lock().unwrap();
            st.evaluations += 1;
            st.class("call:parameter-validation");
            st.observe(&(op, s, c, rc));
            let sent = peer.requests.lock().unwrap().len();
            if rc != want_rc || comps.len() != 1 || dn != 1 || sent != 0 {
                st.violation(Violation {
                    signature: format!("parameter-validation:{op:?}:{s}:{c}"),
                    summary: format!("{op:?} start {s} count {c}: rc {rc} (expected {want_rc}), callbacks {comps:?}, on_destroy {dn}, frames sent {sent}"),
                    replay: json!({"kind": "c18-call-errors"}),
                });
            }
            // the Rust API refuses the same arguments
            let (ch, _s) = rust_client(peer.addr, 4, (1000, 1000), rodbus::DecodeLevel::nothing());
            let r = rust_call(&ch, op, 1, 200, s, c);
            if !matches!(r, Err(rodbus::RequestError::BadRequest(_))) {
                st.violation(Violation { signature: "parameter-validation:rust-differs".into(), summary: format!("{op:?} {s} {c}: Rust API returned {r:?}"), replay: json!({}) });
            }
        }
        // (d) a list handle belongs to the caller: it can be used for any number of calls
        for regs in [false, true] {
            let peer = spawn_peer(PeerBehaviour::Good, false);
            let fc2 = FfiClient::new(rt, peer.addr, 4, (1000, 1000), decode_nothing());
            unsafe { ffi::rodbus_client_channel_enable(fc2.ch) };
            if !fc2.wait_state(2, 3000) {
                st.violation(Violation { signature: "MACHINERY:ffi-client-did-not-connect".into(), summary: "list reuse".into(), replay: json!({}) });
                continue;
            }
            let mut outcomes = vec![];
            unsafe {
                let bits = ffi::rodbus_bit_list_create(10);
                let rl = ffi::rodbus_register_list_create(3);
                for i in 0..10u16 {
                    ffi::rodbus_bit_list_add(bits, i % 3 == 0);
                }
                for i in 0..3u16 {
                    ffi::rodbus_register_list_add(rl, 0x2200 + i);
                }
                for _ in 0..3 {
                    let cbs = Arc::new(Mutex::new(CbState::default()));
                    let d = Arc::new(Mutex::new(0));
                    let cb = ffi::WriteCallback { on_complete: Some(write_complete), on_failure: Some(cb_failure), on_destroy: Some(ctx_destroy::<CbState>), ctx: ctx_new(cbs.clone(), d.clone()) };
                    let param = ffi::RequestParam { unit_id: 1, timeout: 2000 };
                    let rc = if regs { ffi::rodbus_client_channel_write_multiple_registers(fc2.ch, param, 0x10, rl, cb) } else { ffi::rodbus_client_channel_write_multiple_coils(fc2.ch, param, 9, bits, cb) };
                    let comps = wait_completion(&cbs, 4000);
                    outcomes.push((rc, comps));
                }
                ffi::rodbus_bit_list_destroy(bits);
                ffi::rodbus_register_list_destroy(rl);
            }
            let frames = peer.wait_requests(3, 3000);
            let bodies: Vec<Vec<u8>> = frames.iter().map(|f| f[2..].to_vec()).collect();
            st.evaluations += 1;
            st.class("call:list-reuse");
            st.observe(&(regs, outcomes.len(), frames.len()));
            let all_ok = outcomes.iter().all(|(rc, c)| *rc == OK && *c == vec![Completion::WriteOk]);
            let same = bodies.len() == 3 && bodies.iter().all(|b| *b == bodies[0]);
            if !all_ok || !same {
                st.violation(Violation {
                    signature: format!("list-not-reusable:{}", if regs { "registers" } else { "coils" }),
                    summary: format!("three write_multiple_{} calls with one list handle: (return code, callbacks) {outcomes:?}, frames received by the peer {:?} (the Rust API sends the same request every time)", if regs { "registers" } else { "coils" }, frames.iter().map(|f| hex(f)).collect::<Vec<_>>()),
                    replay: json!({"kind": "c18-call-errors"}),
                });
            }
        }
        // null channel
        let st2 = Arc::new(Mutex::new(CbState::default()));
        let d2 = Arc::new(Mutex::new(0));
        let cb = ffi::WriteCallback { on_complete: Some(write_complete), on_failure: Some(cb_failure), on_destroy: Some(ctx_destroy::<CbState>), ctx: ctx_new(st2.clone(), d2.clone()) };
        let rc = unsafe { ffi::rodbus_client_channel_write_single_register(null_mut(), ffi::RequestParam { unit_id: 1, timeout: 10 }, ffi::RegisterValue { index: 0, value: 0 }, cb) };
        st.evaluations += 1;
        if rc != perr(ffi::ParamError::NullParameter) || st2.lock().unwrap().completions.len() != 1 || *d2.lock().unwrap() != 1 {
            st.violation(Violation { signature: "null-channel".into(), summary: format!("rc {rc} callbacks {:?} on_destroy {}", st2.lock().unwrap().completions, d2.lock().unwrap()), replay: json!({}) });
        }
    }
}

/// entry point of the child process: prints one JSON line with what it found
pub fn c18_child_main() -> i32 {
    let st = on_plain_thread(|| {
        let rt = FfiRuntime::new(4);
        c18_call_errors(&rt, 1)
    });
    let v: Vec<serde_json::Value> = st.violations.iter().map(|v| json!({"signature": v.signature, "summary": v.summary})).collect();
    println!("C18CHILD {}", json!({"evaluations": st.evaluations, "classes": st.classes, "distinct": st.distinct.len(), "violations": v}));
    0
}

/// run the invalid-parameter calls in a child process and merge what it reports
fn c18_invalid_parameters_in_child() -> Stats {
    let mut st = Stats::default();
    let exe = match std::env::current_exe() {
        Ok(e) => e,
        Err(e) => {
            st.violation(Violation { signature: "MACHINERY:child".into(), summary: e.to_string(), replay: json!({}) });
            return st;
        }
    };
    let out = std::process::Command::new(exe).arg("c18-child").output();
    match out {
        Err(e) => st.violation(Violation { signature: "MACHINERY:child".into(), summary: e.to_string(), replay: json!({}) }),
        Ok(o) => {
            let stdout = String::from_utf8_lossy(&o.stdout).to_string();
            let line = stdout.lines().find_map(|l| l.strip_prefix("C18CHILD "));
            match (o.status.code(), line.and_then(|l| serde_json::from_str::<serde_json::Value>(l).ok())) {
                (Some(0), Some(v)) => {
                    st.evaluations += v["evaluations"].as_u64().unwrap_or(0);
                    if let Some(m) = v["classes"].as_object() {
                        for (k, n) in m {
                            *st.classes.entry(k.clone()).or_insert(0) += n.as_u64().unwrap_or(0);
                        }
                    }
                    for k in 0..v["distinct"].as_u64().unwrap_or(0) {
                        st.observe(&("c18-child", k));
                    }
                    for x in v["violations"].as_array().cloned().unwrap_or_default() {
                        st.violation(Violation { signature: x["signature"].as_str().unwrap_or("?").to_string(), summary: x["summary"].as_str().unwrap_or("").to_string(), replay: json!({"kind": "c18-call-errors"}) });
                    }
                }
                (code, _) => {
                    // the process died inside the library (a panic cannot unwind out of an extern "C" function)
                    let err = String::from_utf8_lossy(&o.stderr).to_string();
                    let tail: Vec<&str> = err.lines().rev().take(6).collect::<Vec<_>>().into_iter().rev().collect();
                    st.evaluations += 1;
                    st.class("call:parameter-validation");
                    st.violation(Violation {
                        signature: "c-abi-call-aborts-the-process:invalid-parameters".into(),
                        summary: format!("a C-ABI call with invalid parameters (empty / overflowing range, over-limit count, null channel, reused list) ended the calling process (exit status {code:?}); the Rust API returns an error for the same arguments. Last output: {}", tail.join(" | ")),
                        replay: json!({"kind": "c18-call-errors"}),
                    });
                }
            }
        }
    }
    st
}

/// every value of every enum that crosses the boundary and is observable
fn c18_enums(rt: &FfiRuntime) -> Stats {
    let mut st = Stats::default();
    // decode levels: 36 combinations, observed through the log lines both APIs emit
    let kinds = |lines: &[String]| -> BTreeMap<String, u32> {
        let mut m = BTreeMap::new();
        for l in lines {
            for k in ["PDU TX", "PDU RX", "MBAP TX", "MBAP RX", "PHYS TX", "PHYS RX"] {
                if l.contains(k) {
                    // header-only vs payload lines differ in their number of lines / content
                    let detail = if l.contains('\n') { "+data" } else { "" };
                    let values = if l.contains("idx:") { "+values" } else if l.contains("start:") { "+headers" } else { "" };
                    *m.entry(format!("{k}{detail}{values}")).or_insert(0) += 1;
                }
            }
        }
        m
    };
    for app in 0..4 {
        for frame in 0..3 {
            for phys in 0..3 {
                let rust_level = crate::hserver::decode_level((app as u8, frame as u8, phys as u8));
                // C ABI
                let peer = spawn_peer(PeerBehaviour::Good, false);
                let fc = FfiClient::new(rt, peer.addr, 4, (1000, 1000), decode(app, frame, phys));
                unsafe { ffi::rodbus_client_channel_enable(fc.ch) };
                if !fc.wait_state(2, 3000) {
                    st.violation(Violation { signature: "MACHINERY:ffi-client-did-not-connect".into(), summary: "decode levels".into(), replay: json!({}) });
                    return st;
                }
                crate::sim::trace::global_capture(true);
                let (_rc, cbs, _d) = fc.call(Op::ReadHolding, 1, 1000, 2, 3);
                wait_completion(&cbs, 2000);
                let a = crate::sim::trace::global_capture(false);
                // Rust API
                let peer2 = spawn_peer(PeerBehaviour::Good, false);
                let (ch, states) = rust_client(peer2.addr, 4, (1000, 1000), rust_level);
                let _ = crate::net::rt().block_on(ch.enable());
                wait_rust_state(&states, "Connected", 3000);
                crate::sim::trace::global_capture(true);
                let _ = rust_call(&ch, Op::ReadHolding, 1, 1000, 2, 3);
                std::thread::sleep(Duration::from_millis(2));
                let b = crate::sim::trace::global_capture(false);
                st.evaluations += 1;
                st.class("enum:decode-level");
                st.observe(&(app, frame, phys, kinds(&a)));
                if kinds(&a) != kinds(&b) {
                    st.violation(Violation {
                        signature: "decode-level-mapping".into(),
                        summary: format!("decode level (app {app}, frame {frame}, phys {phys}): C ABI channel logged {:?}, Rust channel with the same-named level logged {:?}", kinds(&a), kinds(&b)),
                        replay: json!({"kind": "c18-enums"}),
                    });
                }
                // changing the level at run time through the C ABI: back to nothing = no decode lines
                let rc = unsafe { ffi::rodbus_client_channel_set_decode_level(fc.ch, decode_nothing()) };
                std::thread::sleep(Duration::from_millis(5));
                crate::sim::trace::global_capture(true);
                let (_rc, cbs, _d) = fc.call(Op::ReadHolding, 1, 1000, 2, 3);
                wait_completion(&cbs, 2000);
                let c = crate::sim::trace::global_capture(false);
                if rc != OK || !kinds(&c).is_empty() {
                    st.violation(Violation { signature: "set-decode-level".into(), summary: format!("after set_decode_level(nothing): rc {rc}, lines {:?}", kinds(&c)), replay: json!({"kind": "c18-enums"}) });
                }
                // the capture is process-wide: both channels of this cell must be gone (their
                // sockets closed, seen by the peers) before the next cell starts capturing
                drop(fc);
                drop(ch);
                if !peer.wait_closed(1, 5000) || !peer2.wait_closed(1, 5000) {
                    st.violation(Violation { signature: "MACHINERY:client-task-did-not-end".into(), summary: format!("decode levels ({app},{frame},{phys}): a destroyed channel kept its connection for 5 s"), replay: json!({}) });
                    return st;
                }
            }
        }
    }
    // client states on a connect / peer-closes / disable script
    {
        let peer = spawn_peer(PeerBehaviour::Close, false);
        let fc = FfiClient::new(rt, peer.addr, 4, (40, 40), decode_nothing());
        unsafe { ffi::rodbus_client_channel_enable(fc.ch) };
        fc.wait_state(2, 3000);
        let (_rc, cbs, _d) = fc.call(Op::ReadHolding, 1, 500, 0, 1);
        wait_completion(&cbs, 2000);
        fc.wait_state(4, 1000);
        unsafe { ffi::rodbus_client_channel_disable(fc.ch) };
        fc.wait_state(0, 1000);
        let ffi_states: Vec<String> = fc.states.lock().unwrap().states.iter().map(|s| CLIENT_STATE_NAMES.get(*s as usize).unwrap_or(&"?").to_string()).collect();
        let peer2 = spawn_peer(PeerBehaviour::Close, false);
        let (ch, states) = rust_client(peer2.addr, 4, (40, 40), rodbus::DecodeLevel::nothing());
        let _ = crate::net::rt().block_on(ch.enable());
        wait_rust_state(&states, "Connected", 3000);
        let _ = rust_call(&ch, Op::ReadHolding, 1, 500, 0, 1);
        wait_rust_state(&states, "WaitAfterDisconnect", 1000);
        let _ = crate::net::rt().block_on(ch.disable());
        wait_rust_state(&states, "Disabled", 1000);
        let rust_states = states.lock().unwrap().clone();
        let head = |v: &Vec<String>| v.iter().take(4).cloned().collect::<Vec<_>>();
        st.evaluations += 1;
        st.class("enum:client-state");
        st.observe(&ffi_states);
        if head(&ffi_states) != head(&rust_states) || ffi_states.last() != rust_states.last() {
            st.violation(Violation { signature: "client-state-names".into(), summary: format!("C ABI listener saw {ffi_states:?}, Rust listener {rust_states:?}"), replay: json!({"kind": "c18-enums"}) });
        }
        drop(fc);
    }
    // retry strategy: the delay configured through the C ABI is the delay waited (peer closes at once).
    // The lower bound holds under any load; the upper bound is judged on the smallest gap and must
    // fail three times in a row (scheduling latency only ever lengthens a gap)
    {
        let mut last = vec![];
        let mut ok = false;
        for _attempt in 0..3 {
            let peer = spawn_peer(PeerBehaviour::Good, true);
            let fc = FfiClient::new(rt, peer.addr, 4, (150, 150), decode_nothing());
            unsafe { ffi::rodbus_client_channel_enable(fc.ch) };
            let t = Instant::now();
            while peer.accepts.lock().unwrap().len() < 5 && t.elapsed() < Duration::from_secs(6) {
                std::thread::sleep(Duration::from_millis(1));
            }
            unsafe { ffi::rodbus_client_channel_disable(fc.ch) };
            let acc = peer.accepts.lock().unwrap().clone();
            let gaps: Vec<u128> = acc.windows(2).map(|w| (w[1] - w[0]).as_millis()).collect();
            last = gaps.clone();
            if gaps.iter().any(|g| *g < 145) {
                // too early is wrong whatever the load
                break;
            }
            if gaps.iter().min().map(|g| *g <= 400).unwrap_or(false) {
                ok = true;
                break;
            }
        }
        st.evaluations += 1;
        st.class("config:retry-strategy");
        st.observe(&last.len());
        if !ok {
            st.violation(Violation { signature: "retry-strategy-not-forwarded".into(), summary: format!("min=max=150 ms but reconnect gaps were {last:?} ms"), replay: json!({"kind": "c18-enums"}) });
        }
    }
    // retry strategy, failed connects: with min 100 ms and max 400 ms the attempts on a refusing port
    // are 100, 200, 400, 400 ms apart (observed as the instants of the Connecting callbacks)
    {
        let expected: [u128; 4] = [100, 200, 400, 400];
        let mut last = vec![];
        let mut ok = false;
        for _attempt in 0..3 {
            let refusing = crate::ffiutil::RefusingPort::new();
            let addr: SocketAddr = format!("127.0.0.1:{}", refusing.port).parse().unwrap();
            let fc = FfiClient::new(rt, addr, 4, (100, 400), decode_nothing());
            unsafe { ffi::rodbus_client_channel_enable(fc.ch) };
            let connecting = |fc: &FfiClient| -> Vec<Instant> {
                let g = fc.states.lock().unwrap();
                g.states.iter().zip(g.times.iter()).filter(|(s, _)| **s == 1).map(|(_, t)| *t).collect()
            };
            let t = Instant::now();
            while connecting(&fc).len() < 5 && t.elapsed() < Duration::from_secs(8) {
                std::thread::sleep(Duration::from_millis(1));
            }
            unsafe { ffi::rodbus_client_channel_disable(fc.ch) };
            let at = connecting(&fc);
            let gaps: Vec<u128> = at.windows(2).map(|w| (w[1] - w[0]).as_millis()).take(4).collect();
            last = gaps.clone();
            if gaps.len() < 4 || gaps.iter().zip(expected.iter()).any(|(g, e)| *g + 3 < *e) {
                // too few attempts in 8 s or an attempt that came too early: wrong whatever the load
                break;
            }
            if gaps.iter().zip(expected.iter()).all(|(g, e)| *g <= *e + 250) {
                ok = true;
                break;
            }
        }
        st.evaluations += 1;
        st.class("config:retry-strategy-doubling");
        st.observe(&("doubling", last.len()));
        if !ok {
            st.violation(Violation { signature: "retry-strategy-not-forwarded:failed-connects".into(), summary: format!("min 100 ms, max 400 ms on a refusing port: attempts were {last:?} ms apart, expected [100, 200, 400, 400]"), replay: json!({"kind": "c18-enums"}) });
        }
    }
    st
}

/// TLS configuration through the C ABI: minimum version, certificate mode, the name to expect and
/// the wildcard switch, judged by behaviour against independent rustls peers (the admission
/// predicate is C09's, which the Rust API satisfies cell by cell)
fn c18_tls(rt: &FfiRuntime) -> Stats {
    use crate::net::PeerVersions;
    let mut st = Stats::default();
    // (a) server created through the C ABI
    for variant in [Variant::Tls, Variant::TlsAuthz] {
        for min13 in [false, true] {
            for self_signed in [false, true] {
                for peer in [PeerVersions::Tls12Only, PeerVersions::Tls13Only] {
                    for valid in [true, false] {
                        let (trust, present) = match (self_signed, valid) {
                            (false, true) => ("ca_a", "cli_operator"),
                            (false, false) => ("ca_a", "cli_wrong_ca"),
                            (true, true) => ("ss_client", "ss_client"),
                            (true, false) => ("ss_client", "ss_client_other"),
                        };
                        let local = if self_signed { "ss_server" } else { "srv_valid" };
                        let expect = valid && !(min13 && peer == PeerVersions::Tls12Only);
                        let server = (0..8).find_map(|_| ffi_server_tls(rt, variant, &FilterSpec::Any, "127.0.0.1", ten_registers(), Arc::new(Mutex::new(WriteState::default())), [true; 4], (trust, local, min13 as c_int, self_signed as c_int)).ok());
                        let (server, addr, _log) = match server {
                            Some(x) => x,
                            None => {
                                st.violation(Violation { signature: "MACHINERY:c-abi-server".into(), summary: "TLS server could not be created through the C ABI".into(), replay: json!({}) });
                                return st;
                            }
                        };
                        let present = present.to_string();
                        let (served, version) = crate::net::rt().block_on(async move {
                            let mut served = false;
                            let mut version = "none".to_string();
                            if let Ok(tcp) = crate::net::connect_from("127.0.0.1", addr).await {
                                let connector = tokio_rustls::TlsConnector::from(crate::net::peer_client_config(peer, &present));
                                let name = tokio_rustls::rustls::pki_types::ServerName::try_from("test.com").unwrap();
                                if let Ok(Ok(mut tls)) = tokio::time::timeout(Duration::from_secs(3), connector.connect(name, tcp)).await {
                                    version = crate::net::version_name(tls.get_ref().1.protocol_version());
                                    crate::net::write_all(&mut tls, &mbap_frame(0x0C0C, 1, &[3, 0, 0, 0, 2])).await;
                                    if let crate::net::ReadOutcome::Bytes(b) = crate::net::read_n(&mut tls, 13, Duration::from_secs(3)).await {
                                        served = b[..2] == [0x0C, 0x0C] && b[7] == 3;
                                    }
                                }
                            }
                            (served, version)
                        });
                        drop(server);
                        st.evaluations += 1;
                        st.class("config:tls-server");
                        st.observe(&(format!("{variant:?}"), min13, self_signed, peer, valid, served));
                        if served != expect || (served && min13 && version != "1.3") {
                            st.violation(Violation {
                                signature: format!("tls-server-config-not-forwarded:min13={min13}:self_signed={self_signed}"),
                                summary: format!("C ABI {variant:?} server, min version {}, {} mode, peer {peer:?} with a {} certificate: served={served} at TLS {version}, the same-named Rust configuration gives served={expect}", if min13 { "1.3" } else { "1.2" }, if self_signed { "self-signed" } else { "authority" }, if valid { "valid" } else { "wrong" }),
                                replay: json!({"kind": "c18-tls"}),
                            });
                        }
                    }
                }
            }
        }
    }
    // (b) client created through the C ABI
    // (mode self-signed?, min 1.3?, peer versions, certificate the peer presents, name, wildcard switch, expected admission)
    let mut cells: Vec<(bool, bool, PeerVersions, &str, &str, bool, bool)> = vec![];
    for min13 in [false, true] {
        for peer in [PeerVersions::Tls12Only, PeerVersions::Tls13Only] {
            let v_ok = !(min13 && peer == PeerVersions::Tls12Only);
            cells.push((false, min13, peer, "srv_valid", "test.com", false, v_ok));
            cells.push((false, min13, peer, "srv_wrong_ca", "test.com", false, false));
            cells.push((true, min13, peer, "ss_server", "test.com", false, v_ok));
            cells.push((true, min13, peer, "ss_server_other", "test.com", false, false));
        }
    }
    cells.push((false, false, PeerVersions::Both, "srv_valid", "other.example", false, false));
    cells.push((false, false, PeerVersions::Both, "srv_wrong_name", "test.com", false, false));
    cells.push((false, false, PeerVersions::Both, "srv_wrong_name", "test.com", true, false));
    cells.push((false, false, PeerVersions::Both, "srv_wrong_name", "*", true, true));
    cells.push((false, false, PeerVersions::Both, "srv_wrong_ca", "*", true, false));
    // without the switch a '*' does not bypass name validation
    cells.push((false, false, PeerVersions::Both, "srv_wrong_name", "*", false, false));
    for (self_signed, min13, peer, present, name, wildcard, expect) in cells {
        // the peer: an independent rustls server that answers one read request
        let (addr_tx, addr_rx) = std::sync::mpsc::channel();
        let present_s = present.to_string();
        let (stop_tx, mut stop_rx) = tokio::sync::oneshot::channel::<()>();
        let peer_task = crate::net::rt().spawn(async move {
            let (listener, addr) = crate::net::listen("127.0.0.1").await;
            let _ = addr_tx.send(addr);
            let acceptor = tokio_rustls::TlsAcceptor::from(crate::net::peer_server_config(peer, &present_s));
            let mut version = "none".to_string();
            let mut request_seen = false;
            // the client retries quickly: serve connections for a while, stop at the first request
            let deadline = tokio::time::Instant::now() + Duration::from_millis(2500);
            loop {
                let tcp = tokio::select! {
                    _ = &mut stop_rx => break,
                    r = tokio::time::timeout_at(deadline, listener.accept()) => match r {
                        Ok(Ok((tcp, _))) => tcp,
                        _ => break,
                    },
                };
                if let Ok(Ok(mut tls)) = tokio::time::timeout(Duration::from_secs(2), acceptor.accept(tcp)).await {
                    version = crate::net::version_name(tls.get_ref().1.protocol_version());
                    if let crate::net::ReadOutcome::Bytes(b) = crate::net::read_n(&mut tls, 12, Duration::from_millis(1500)).await {
                        request_seen = true;
                        let reply = mbap_frame(u16::from_be_bytes([b[0], b[1]]), 1, &[3, 4, 0, 7, 0, 9]);
                        crate::net::write_all(&mut tls, &reply).await;
                        let _ = crate::net::read_n(&mut tls, 1, Duration::from_millis(300)).await;
                        break;
                    }
                }
            }
            (request_seen, version)
        });
        let addr: SocketAddr = match addr_rx.recv_timeout(Duration::from_secs(5)) {
            Ok(a) => a,
            Err(_) => {
                st.violation(Violation { signature: "MACHINERY:peer-server".into(), summary: "the rustls peer did not start".into(), replay: json!({}) });
                return st;
            }
        };
        let (trust, local) = if self_signed { (present_trust(present), "ss_client") } else { ("ca_a", "cli_operator") };
        let states = Arc::new(Mutex::new(StateLog::default()));
        let destroyed = Arc::new(Mutex::new(0));
        let listener = ffi::ClientStateListener { on_change: Some(on_client_state), on_destroy: Some(ctx_destroy::<StateLog>), ctx: ctx_new(states.clone(), destroyed.clone()) };
        let mut out: *mut rodbus_ffi::ClientChannel = null_mut();
        let host = cstr("127.0.0.1");
        let (c_name, c_trust, c_local, c_key, c_empty) = (cstr(name), cstr(cert_path(trust).to_str().unwrap()), cstr(cert_path(local).to_str().unwrap()), cstr(key_path(local).to_str().unwrap()), cstr(""));
        let tls = ffi::TlsClientConfig {
            dns_name: c_name.as_ptr(),
            peer_cert_path: c_trust.as_ptr(),
            local_cert_path: c_local.as_ptr(),
            private_key_path: c_key.as_ptr(),
            password: c_empty.as_ptr(),
            min_tls_version: min13 as c_int,
            certificate_mode: self_signed as c_int,
            allow_server_name_wildcard: wildcard,
        };
        let rc = unsafe { ffi::rodbus_client_channel_create_tls(rt.0, host.as_ptr(), addr.port(), 4, ffi::RetryStrategy { min_delay: 5000, max_delay: 5000 }, tls, decode_nothing(), listener, &mut out) };
        let mut admitted = false;
        let mut detail = format!("create rc {rc}");
        if rc == OK {
            let fc = FfiClient { ch: out, states, listener_destroyed: destroyed };
            unsafe { ffi::rodbus_client_channel_enable(fc.ch) };
            let t = Instant::now();
            while t.elapsed() < Duration::from_secs(4) {
                let s = fc.states.lock().unwrap().states.clone();
                if s.contains(&2) || s.contains(&3) {
                    break;
                }
                std::thread::sleep(Duration::from_millis(1));
            }
            if fc.states.lock().unwrap().states.contains(&2) {
                let (_rc, cbs, _d) = fc.call(Op::ReadHolding, 1, 2000, 0, 2);
                let comps = wait_completion(&cbs, 4000);
                admitted = comps == vec![Completion::Regs(vec![(0, 7), (1, 9)])];
                detail = format!("connected, request completed with {comps:?}");
            } else {
                detail = format!("states {:?}", fc.states.lock().unwrap().states);
            }
            drop(fc);
        }
        // the channel is gone: nothing more can arrive at the peer
        let _ = stop_tx.send(());
        let (request_seen, version) = crate::net::rt().block_on(async { tokio::time::timeout(Duration::from_secs(6), peer_task).await.ok().and_then(|x| x.ok()).unwrap_or((false, "none".into())) });
        st.evaluations += 1;
        st.class("config:tls-client");
        st.observe(&(self_signed, min13, peer, present, name, wildcard, admitted));
        if admitted != expect || request_seen != expect || (admitted && min13 && version != "1.3") {
            st.violation(Violation {
                signature: format!("tls-client-config-not-forwarded:min13={min13}:self_signed={self_signed}:name={name}:wildcard={wildcard}"),
                summary: format!("C ABI TLS client (min version {}, {} mode, name {name:?}, allow_server_name_wildcard={wildcard}) against a peer offering {peer:?} with certificate {present}: admitted={admitted} (peer saw a request: {request_seen}, TLS {version}; {detail}), the same-named Rust configuration gives admitted={expect}", if min13 { "1.3" } else { "1.2" }, if self_signed { "self-signed" } else { "authority" }),
                replay: json!({"kind": "c18-tls"}),
            });
        }
    }
    st
}

/// Link-time interposition of `tcsetattr`: the Linux pty driver forces CS8 and clears PARENB, so
/// what a caller *asked for* is only visible in the call itself. Every call made by this process
/// (the serial port library calls it when a port is opened) is recorded with the device number
/// of the terminal and then forwarded to libc.
static TCSETATTR_LOG: Mutex<Vec<(u64, u32, u32, u32)>> = Mutex::new(Vec::new());

#[no_mangle]
pub unsafe extern "C" fn tcsetattr(fd: c_int, optional_actions: c_int, termios: *const libc::termios) -> c_int {
    type Real = unsafe extern "C" fn(c_int, c_int, *const libc::termios) -> c_int;
    static REAL: std::sync::OnceLock<usize> = std::sync::OnceLock::new();
    let real = *REAL.get_or_init(|| libc::dlsym(libc::RTLD_NEXT, c"tcsetattr".as_ptr()) as usize);
    if !termios.is_null() {
        let mut stat: libc::stat = std::mem::zeroed();
        if libc::fstat(fd, &mut stat) == 0 {
            let t = &*termios;
            let cflag = t.c_cflag & (libc::CSIZE | libc::PARENB | libc::PARODD | libc::CSTOPB | libc::CRTSCTS);
            let iflag = t.c_iflag & (libc::IXON | libc::IXOFF);
            if let Ok(mut g) = TCSETATTR_LOG.lock() {
                g.push((stat.st_rdev as u64, cflag, iflag, libc::cfgetospeed(t)));
            }
        }
    }
    if real == 0 {
        return -1;
    }
    let f: Real = std::mem::transmute(real);
    f(fd, optional_actions, termios)
}

/// the same for `ioctl(fd, TCSETS2, ..)`, which is what the serial port library uses on Linux to
/// apply the settings of a port (three-argument form; every other request is forwarded untouched)
#[no_mangle]
pub unsafe extern "C" fn ioctl(fd: c_int, request: std::os::raw::c_ulong, arg: *mut c_void) -> c_int {
    type Real = unsafe extern "C" fn(c_int, std::os::raw::c_ulong, *mut c_void) -> c_int;
    static REAL: std::sync::OnceLock<usize> = std::sync::OnceLock::new();
    let real = *REAL.get_or_init(|| libc::dlsym(libc::RTLD_NEXT, c"ioctl".as_ptr()) as usize);
    if request == libc::TCSETS2 as std::os::raw::c_ulong && !arg.is_null() {
        let mut stat: libc::stat = std::mem::zeroed();
        if libc::fstat(fd, &mut stat) == 0 {
            let t = &*(arg as *const libc::termios2);
            let cflag = t.c_cflag & (libc::CSIZE | libc::PARENB | libc::PARODD | libc::CSTOPB | libc::CRTSCTS);
            let iflag = t.c_iflag & (libc::IXON | libc::IXOFF);
            if let Ok(mut g) = TCSETATTR_LOG.lock() {
                g.push((stat.st_rdev as u64, cflag, iflag, t.c_ospeed));
            }
        }
    }
    if real == 0 {
        return -1;
    }
    let f: Real = std::mem::transmute(real);
    f(fd, request, arg)
}

/// the line settings last requested for the pty's slave by anybody in this process
/// the authorization callbacks of a C-ABI TLS server: every session's own role, the unit id and the
/// range / index of every request reach the callback unchanged, and the callback's answer decides
/// the reply - with several sessions of different roles open at once, in every connection order
fn c18_authz(rt: &FfiRuntime) -> Stats {
    let mut st = Stats::default();
    let certs: [(&str, &str); 3] = [("cli_operator", "operator"), ("cli_viewer", "viewer"), ("cli_oddrole", " Operator")];
    // (pdu, callback, a, b, is a write)
    let requests: Vec<(Vec<u8>, &'static str, u16, u16, bool)> = vec![
        (vec![1, 0, 0, 0, 3], "read_coils", 0, 3, false),
        (vec![2, 0, 1, 0, 2], "read_discrete_inputs", 1, 2, false),
        (vec![3, 0, 2, 0, 4], "read_holding_registers", 2, 4, false),
        (vec![4, 0, 0, 0, 1], "read_input_registers", 0, 1, false),
        (vec![5, 0, 3, 0xFF, 0], "write_single_coil", 3, 0, true),
        (vec![6, 0, 4, 0, 77], "write_single_register", 4, 0, true),
        (vec![15, 0, 1, 0, 3, 1, 5], "write_multiple_coils", 1, 3, true),
        (vec![16, 0, 5, 0, 2, 4, 0, 1, 0, 2], "write_multiple_registers", 5, 2, true),
    ];
    let orders: Vec<Vec<usize>> = vec![vec![0, 1, 2], vec![0, 2, 1], vec![1, 0, 2], vec![1, 2, 0], vec![2, 0, 1], vec![2, 1, 0], vec![1, 1, 0], vec![0, 0, 1]];
    for unit in [1u8, 7] {
        for order in &orders {
            let mut points = ten_registers();
            points.extend((0..10).map(|i| DbOp::Add(0, i, 0)));
            points.extend((0..10).map(|i| DbOp::Add(1, i, 1)));
            points.extend((0..10).map(|i| DbOp::Add(3, i, 300 + i)));
            let server = (0..8).find_map(|_| {
                let parts = filter_parts(&FilterSpec::Any);
                let filt = ffi_filter(&parts).ok()?;
                ffi_server_with_unit(rt, filt, unit, points.clone()).ok()
            });
            let Some((server, addr, log)) = server else {
                st.violation(Violation { signature: "MACHINERY:c-abi-server".into(), summary: "TLS authz server could not be created through the C ABI".into(), replay: json!({}) });
                return st;
            };
            log.lock().unwrap().policy = 1;
            let order2 = order.clone();
            let reqs = requests.clone();
            let log2 = log.clone();
            // per step: (session index in `order`, request index, reply bytes or None, records added by this step)
            let steps: Vec<(usize, usize, Option<Vec<u8>>, Vec<(&'static str, u8, u16, u16, String)>)> = crate::net::rt().block_on(async move {
                let mut sessions = vec![];
                for ci in &order2 {
                    let Ok(tcp) = crate::net::connect_from("127.0.0.1", addr).await else { return vec![] };
                    let connector = tokio_rustls::TlsConnector::from(crate::net::peer_client_config(crate::net::PeerVersions::Both, certs[*ci].0));
                    let name = tokio_rustls::rustls::pki_types::ServerName::try_from("test.com").unwrap();
                    match tokio::time::timeout(Duration::from_secs(3), connector.connect(name, tcp)).await {
                        Ok(Ok(tls)) => sessions.push(tls),
                        _ => return vec![],
                    }
                }
                let mut out = vec![];
                let mut tx = 0u16;
                for (ri, r) in reqs.iter().enumerate() {
                    // the sessions take turns, starting with a different one for every request
                    for k in 0..sessions.len() {
                        let si = (k + ri) % sessions.len();
                        tx += 1;
                        let before = log2.lock().unwrap().records.len();
                        crate::net::write_all(&mut sessions[si], &mbap_frame(tx, unit, &r.0)).await;
                        let reply = match crate::net::read_n(&mut sessions[si], 7, Duration::from_secs(3)).await {
                            crate::net::ReadOutcome::Bytes(h) => {
                                let len = u16::from_be_bytes([h[4], h[5]]) as usize;
                                match crate::net::read_n(&mut sessions[si], len.saturating_sub(1), Duration::from_secs(3)).await {
                                    crate::net::ReadOutcome::Bytes(b) if h[..2] == tx.to_be_bytes() => Some(b),
                                    _ => None,
                                }
                            }
                            _ => None,
                        };
                        let added = log2.lock().unwrap().records[before..].to_vec();
                        out.push((si, ri, reply, added));
                    }
                }
                out
            });
            drop(server);
            st.evaluations += 1;
            st.traces += 1;
            st.class("authorization-callback:arguments-and-answer");
            if steps.is_empty() {
                st.violation(Violation { signature: "MACHINERY:authz-sessions".into(), summary: format!("the sessions {order:?} could not be established with the C-ABI TLS server"), replay: json!({}) });
                continue;
            }
            for (si, ri, reply, added) in steps {
                st.transitions += 1;
                let (cert, role) = certs[order[si]];
                let (pdu, cb, a, b, write) = &requests[ri];
                let want_rec = (*cb, unit, *a, *b, role.to_string());
                let denied = *write && role != "operator";
                st.observe(&(cb, role, denied, reply.as_ref().map(|r| r.first().copied())));
                if added != vec![want_rec.clone()] {
                    st.violation(Violation {
                        signature: format!("authorization-callback-arguments:{cb}"),
                        summary: format!("sessions {:?} (unit {unit}): request {} of the session with certificate {cert}: the C callback saw {added:?}, the Rust AuthorizationHandler would see {want_rec:?}", order.iter().map(|c| certs[*c].0).collect::<Vec<_>>(), hex(pdu)),
                        replay: json!({"kind": "c18-authz"}),
                    });
                }
                let ok = match &reply {
                    None => false,
                    Some(r) if denied => r[..] == [pdu[0] | 0x80, 1],
                    Some(r) => r.first() == Some(&pdu[0]),
                };
                if !ok {
                    st.violation(Violation {
                        signature: format!("authorization-answer-not-honoured:{cb}:{}", if denied { "deny" } else { "allow" }),
                        summary: format!("sessions {:?} (unit {unit}): request {} of the session with role {role:?}: the callback answered {}, the reply was {:?}", order.iter().map(|c| certs[*c].0).collect::<Vec<_>>(), hex(pdu), if denied { "Deny" } else { "Allow" }, reply.map(|r| hex(&r))),
                        replay: json!({"kind": "c18-authz"}),
                    });
                }
            }
        }
    }
    st
}

/// TLS server with authorization handler through the C ABI, one unit id
fn ffi_server_with_unit(rt: &FfiRuntime, filt: *mut rodbus_ffi::AddressFilter, unit: u8, points: Vec<DbOp>) -> Result<(FfiServer, SocketAddr, Arc<Mutex<AuthLog>>), String> {
    let (wh, _d) = write_handler(Arc::new(Mutex::new(WriteState::default())), [true; 4]);
    let (map, _r) = device_map(unit, wh, points);
    let port = free_port("127.0.0.1");
    let ipc = cstr("127.0.0.1");
    let mut out: *mut rodbus_ffi::Server = null_mut();
    let log = Arc::new(Mutex::new(AuthLog::default()));
    let trust = cstr(cert_path("ca_a").to_str().unwrap());
    let local = cstr(cert_path("srv_valid").to_str().unwrap());
    let key = cstr(key_path("srv_valid").to_str().unwrap());
    let empty = cstr("");
    let tls = ffi::TlsServerConfig { peer_cert_path: trust.as_ptr(), local_cert_path: local.as_ptr(), private_key_path: key.as_ptr(), password: empty.as_ptr(), min_tls_version: 0, certificate_mode: 0 };
    let rc = unsafe { ffi::rodbus_server_create_tls_with_authz(rt.0, ipc.as_ptr(), port, filt, 4, map, tls, auth_handler(log.clone()), decode_nothing(), &mut out) };
    unsafe {
        ffi::rodbus_address_filter_destroy(filt);
        ffi::rodbus_device_map_destroy(map);
    }
    if rc != OK {
        return Err(format!("server_create -> {rc}"));
    }
    Ok((FfiServer(out), format!("127.0.0.1:{port}").parse().unwrap(), log))
}

fn line_settings(pty: &crate::checks::serial_pty::Pty) -> Option<(u32, u32, u32)> {
    let path = cstr(&pty.slave_path);
    let rdev = unsafe {
        let mut stat: libc::stat = std::mem::zeroed();
        if libc::stat(path.as_ptr(), &mut stat) != 0 {
            return None;
        }
        stat.st_rdev as u64
    };
    if std::env::var("MC_DEBUG").is_ok() {
        eprintln!("DEBUG tcsetattr log for rdev {rdev:#x}: {:?}", TCSETATTR_LOG.lock().unwrap().iter().rev().take(6).collect::<Vec<_>>());
    }
    TCSETATTR_LOG.lock().unwrap().iter().rev().find(|e| e.0 == rdev).map(|e| (e.1, e.2, e.3))
}

struct RustPortStates(Arc<Mutex<Vec<String>>>);

impl rodbus::client::Listener<rodbus::client::PortState> for RustPortStates {
    fn update(&mut self, value: rodbus::client::PortState) -> rodbus::MaybeAsync<()> {
        let name = match value {
            rodbus::client::PortState::Disabled => "Disabled",
            rodbus::client::PortState::Wait(_) => "Wait",
            rodbus::client::PortState::Open => "Open",
            rodbus::client::PortState::Shutdown => "Shutdown",
        };
        self.0.lock().unwrap().push(name.to_string());
        rodbus::MaybeAsync::ready(())
    }
}

const PORT_STATE_NAMES: [&str; 4] = ["Disabled", "Wait", "Open", "Shutdown"];

/// serial port settings and port states through the C ABI: every value of DataBits, FlowControl,
/// Parity and StopBits and three baud rates; the settings the kernel ends up with for the pty must
/// be those the Rust API produces from the same-named values
fn c18_serial(rt: &FfiRuntime) -> Stats {
    use crate::checks::serial_pty::{open_pty, PortPath};
    let mut st = Stats::default();
    let wait_for = |f: &dyn Fn() -> bool, ms: u64| -> bool {
        let t = Instant::now();
        while t.elapsed() < Duration::from_millis(ms) {
            if f() {
                return true;
            }
            std::thread::sleep(Duration::from_millis(1));
        }
        f()
    };
    let mut n = 0usize;
    for data_bits in 0..4 {
        for flow in 0..3 {
            for parity in 0..3 {
                for stop in 0..2 {
                    n += 1;
                    let baud = [9600u32, 19200, 115200][n % 3];
                    // C ABI
                    let pty = match open_pty() {
                        Ok(p) => p,
                        Err(e) => {
                            st.violation(Violation { signature: "MACHINERY:pty".into(), summary: e, replay: json!({}) });
                            return st;
                        }
                    };
                    let states = Arc::new(Mutex::new(StateLog::default()));
                    let destroyed = Arc::new(Mutex::new(0));
                    let listener = ffi::PortStateListener { on_change: Some(on_client_state), on_destroy: Some(ctx_destroy::<StateLog>), ctx: ctx_new(states.clone(), destroyed.clone()) };
                    let mut out: *mut rodbus_ffi::ClientChannel = null_mut();
                    let path = cstr(&pty.slave_path);
                    let settings = ffi::SerialPortSettings { baud_rate: baud, data_bits, flow_control: flow, parity, stop_bits: stop };
                    let rc = unsafe { ffi::rodbus_client_channel_create_rtu(rt.0, path.as_ptr(), settings, 4, ffi::RetryStrategy { min_delay: 50, max_delay: 50 }, decode_nothing(), listener, &mut out) };
                    let mut ffi_line = None;
                    if rc == OK {
                        unsafe { ffi::rodbus_client_channel_enable(out) };
                        if wait_for(&|| states.lock().unwrap().states.contains(&2), 3000) {
                            ffi_line = line_settings(&pty);
                        }
                        unsafe { ffi::rodbus_client_channel_destroy(out) };
                    }
                    // Rust API with the same-named values
                    let pty2 = match open_pty() {
                        Ok(p) => p,
                        Err(e) => {
                            st.violation(Violation { signature: "MACHINERY:pty".into(), summary: e, replay: json!({}) });
                            return st;
                        }
                    };
                    let rust_settings = rodbus::SerialSettings {
                        baud_rate: baud,
                        data_bits: [rodbus::DataBits::Five, rodbus::DataBits::Six, rodbus::DataBits::Seven, rodbus::DataBits::Eight][data_bits as usize],
                        flow_control: [rodbus::FlowControl::None, rodbus::FlowControl::Software, rodbus::FlowControl::Hardware][flow as usize],
                        parity: [rodbus::Parity::None, rodbus::Parity::Odd, rodbus::Parity::Even][parity as usize],
                        stop_bits: [rodbus::StopBits::One, rodbus::StopBits::Two][stop as usize],
                    };
                    let rstates = Arc::new(Mutex::new(vec![]));
                    let ch = {
                        let _g = crate::net::rt().enter();
                        rodbus::client::spawn_rtu_client_task(&pty2.slave_path, rust_settings, 4, rodbus::doubling_retry_strategy(Duration::from_millis(50), Duration::from_millis(50)), rodbus::DecodeLevel::nothing(), Some(Box::new(RustPortStates(rstates.clone()))))
                    };
                    let _ = crate::net::rt().block_on(ch.enable());
                    let rust_line = if wait_for(&|| rstates.lock().unwrap().iter().any(|s| s == "Open"), 3000) { line_settings(&pty2) } else { None };
                    drop(ch);
                    st.evaluations += 1;
                    st.class("config:serial-settings");
                    if std::env::var("MC_DEBUG").is_ok() { eprintln!("DEBUG serial {data_bits} {flow} {parity} {stop} {baud}: ffi {ffi_line:?} rust {rust_line:?}"); }
                    st.observe(&(data_bits, flow, parity, stop, baud, ffi_line));
                    if ffi_line != rust_line || rust_line.is_none() {
                        st.violation(Violation {
                            signature: format!("serial-settings-not-forwarded:data_bits={data_bits}:flow={flow}:parity={parity}:stop={stop}"),
                            summary: format!("SerialPortSettings {{baud {baud}, data_bits {data_bits}, flow_control {flow}, parity {parity}, stop_bits {stop}}}: the port opened through the C ABI has (cflag, iflag, speed) = {ffi_line:?} (create rc {rc}), through the Rust API with the same-named values {rust_line:?}"),
                            replay: json!({"kind": "c18-serial"}),
                        });
                    }
                }
            }
        }
    }
    // port states on a script: port missing (Wait), port appears (Open), disable (Disabled), destroy
    {
        let run_script = |ffi_side: bool| -> Vec<String> {
            let pty = open_pty().expect("pty");
            let port = PortPath::new();
            if ffi_side {
                let states = Arc::new(Mutex::new(StateLog::default()));
                let destroyed = Arc::new(Mutex::new(0));
                let listener = ffi::PortStateListener { on_change: Some(on_client_state), on_destroy: Some(ctx_destroy::<StateLog>), ctx: ctx_new(states.clone(), destroyed.clone()) };
                let mut out: *mut rodbus_ffi::ClientChannel = null_mut();
                let path = cstr(&port.0);
                let settings = ffi::SerialPortSettings { baud_rate: 9600, data_bits: 3, flow_control: 0, parity: 0, stop_bits: 0 };
                let rc = unsafe { ffi::rodbus_client_channel_create_rtu(rt.0, path.as_ptr(), settings, 4, ffi::RetryStrategy { min_delay: 30, max_delay: 30 }, decode_nothing(), listener, &mut out) };
                if rc != OK {
                    return vec![format!("create rc {rc}")];
                }
                unsafe { ffi::rodbus_client_channel_enable(out) };
                wait_for(&|| states.lock().unwrap().states.contains(&1), 3000);
                port.point_to(&pty.slave_path);
                wait_for(&|| states.lock().unwrap().states.contains(&2), 3000);
                unsafe { ffi::rodbus_client_channel_disable(out) };
                wait_for(&|| states.lock().unwrap().states.last() == Some(&0), 3000);
                unsafe { ffi::rodbus_client_channel_destroy(out) };
                wait_for(&|| states.lock().unwrap().states.last() == Some(&3), 3000);
                let v = states.lock().unwrap().states.clone();
                v.iter().map(|s| PORT_STATE_NAMES.get(*s as usize).unwrap_or(&"?").to_string()).collect()
            } else {
                let rstates = Arc::new(Mutex::new(vec![]));
                let ch = {
                    let _g = crate::net::rt().enter();
                    rodbus::client::spawn_rtu_client_task(&port.0, rodbus::SerialSettings::default(), 4, rodbus::doubling_retry_strategy(Duration::from_millis(30), Duration::from_millis(30)), rodbus::DecodeLevel::nothing(), Some(Box::new(RustPortStates(rstates.clone()))))
                };
                let _ = crate::net::rt().block_on(ch.enable());
                wait_for(&|| rstates.lock().unwrap().iter().any(|s| s == "Wait"), 3000);
                port.point_to(&pty.slave_path);
                wait_for(&|| rstates.lock().unwrap().iter().any(|s| s == "Open"), 3000);
                let _ = crate::net::rt().block_on(ch.disable());
                wait_for(&|| rstates.lock().unwrap().last().map(|s| s == "Disabled").unwrap_or(false), 3000);
                drop(ch);
                wait_for(&|| rstates.lock().unwrap().last().map(|s| s == "Shutdown").unwrap_or(false), 3000);
                let v = rstates.lock().unwrap().clone();
                v
            }
        };
        let dedup = |v: &Vec<String>| -> Vec<String> {
            // the number of Wait announcements depends on how long the port stayed away
            let mut o: Vec<String> = vec![];
            for s in v {
                if o.last() != Some(s) {
                    o.push(s.clone());
                }
            }
            o
        };
        let f = run_script(true);
        let r = run_script(false);
        st.evaluations += 1;
        st.class("enum:port-state");
        st.observe(&dedup(&f));
        let want: Vec<String> = ["Disabled", "Wait", "Open", "Disabled", "Shutdown"].iter().map(|s| s.to_string()).collect();
        if dedup(&f) != dedup(&r) || dedup(&r) != want {
            st.violation(Violation { signature: "port-state-names".into(), summary: format!("C ABI port listener saw {f:?}, Rust listener {r:?} (expected the path Disabled, Wait, Open, Disabled, Shutdown)"), replay: json!({"kind": "c18-serial"}) });
        }
    }
    st
}

/// self-signed mode: the client is configured with the certificate it expects; for the "other"
/// peer certificate that is the regular one
fn present_trust(_present: &str) -> &'static str {
    "ss_server"
}

pub fn check_c18(tier: &str) -> i32 {
    let mut rep = Report::new(
        "C18",
        tier,
        "exploration",
        "differential: every scenario runs once through the extern \"C\" functions of rodbus-ffi and once through the Rust API against identical scripted loopback peers. Client: 8 operations x outcomes {success with data, each exception code (all 256 for two operations, thorough: for all), bad reply, bad frame, timeout, connection closed} x unit ids {0,1,7,255} x timeouts {1 ms, 60 ms, 1 s against a silent peer; 10 s and 2^32-1 ms otherwise}; request bytes must be identical, the C callback must report the same values or the same-named error (hand-written name table), on_complete+on_failure exactly once, on_destroy exactly once; calls that themselves report an error (no connection, queue full, invalid range, null channel); one bit / register list handle used for three calls. Server: 4 write callbacks x WriteResult {success, 9 named exceptions, raw codes, callback not set}: reply bytes equal the Rust server's with the same-named result and the callback sees exactly the sent values. Enums: all 36 decode levels (compared through the log lines both APIs emit), client states on scripted connection histories, retry strategy through behaviour, TLS minimum version / certificate mode / expected name / wildcard switch of C-ABI clients and servers through admission by independent rustls peers, all 72 combinations of DataBits x FlowControl x Parity x StopBits (and three baud rates) through the line settings of a pty, port states on a scripted history. distinct = distinct (operation, peer behaviour, outcome) triples",
    );
    let thorough = rep.thorough();
    let (a, b, c, d, e, f, g) = on_plain_thread(|| {
        let rt = FfiRuntime::new(4);
        let a = c18_client_part(&rt, thorough);
        let mut b = c18_server_part(&rt, thorough);
        let mut extra = c18_write_during_transaction(&rt);
        let binds = c18_bind_addresses(&rt);
        extra.evaluations += binds.evaluations;
        for (k, n) in binds.classes {
            *extra.classes.entry(k).or_insert(0) += n;
        }
        extra.distinct.extend(binds.distinct);
        for v in binds.violations {
            extra.violation(v);
        }
        b.evaluations += extra.evaluations;
        for (k, n) in extra.classes {
            *b.classes.entry(k).or_insert(0) += n;
        }
        b.distinct.extend(extra.distinct);
        for v in extra.violations {
            b.violation(v);
        }
        let mut c = c18_call_errors(&rt, 0);
        let child = c18_invalid_parameters_in_child();
        c.evaluations += child.evaluations;
        for (k, n) in child.classes {
            *c.classes.entry(k).or_insert(0) += n;
        }
        c.distinct.extend(child.distinct);
        for v in child.violations {
            c.violation(v);
        }
        let d = c18_enums(&rt);
        let e = c18_tls(&rt);
        let f = c18_serial(&rt);
        let g = c18_authz(&rt);
        (a, b, c, d, e, f, g)
    });
    rep.phase("client operations x outcomes", a, json!({}));
    rep.phase("server write callbacks x results", b, json!({}));
    rep.phase("calls that report an error", c, json!({}));
    rep.phase("enums and configuration", d, json!({}));
    rep.phase("TLS configuration through the C ABI (client and server) against independent rustls peers", e, json!({}));
    rep.phase("serial port settings and port states through the C ABI over ptys", f, json!({}));
    rep.phase("authorization callbacks of a C-ABI TLS server: sessions of different roles open at once, every connection order", g, json!({"roles": 3, "orders": 8, "units": 2, "requests": 8}));
    for c in ["outcome:success", "outcome:exception", "outcome:timeout", "outcome:io", "outcome:bad-frame", "outcome:bad-response", "write-result-success", "write-result-named-exception", "write-result-raw-exception", "write-callback-not-set", "call:no-connection", "call:queue-full", "call:parameter-validation", "call:list-reuse", "enum:decode-level", "enum:client-state", "config:retry-strategy", "config:retry-strategy-doubling", "config:tls-client", "config:tls-server", "config:serial-settings", "enum:port-state", "authorization-callback:arguments-and-answer", "write-request-during-database-transaction"] {
        rep.require_class(c);
    }
    rep.exhaustive = thorough;
    rep.assumptions.push("serial port settings are observed as the termios flags and speed passed to tcsetattr for the pty slave (link-time interposition inside the harness; the pty driver itself forces CS8 and no parity)".into());
    rep.finish()
}

pub fn replay_c18(v: &serde_json::Value) -> Vec<(String, String)> {
    on_plain_thread(|| {
        let rt = FfiRuntime::new(4);
        match v["kind"].as_str() {
            Some("c18-client") => {
                let op: Op = serde_json::from_value(v["op"].clone()).unwrap();
                let peer: PeerBehaviour = serde_json::from_value(v["peer"].clone()).unwrap();
                let unit = v["unit"].as_u64().unwrap() as u8;
                let timeout = v["timeout"].as_u64().unwrap();
                let mut st = Stats::default();
                c18_client_case(&rt, op, peer, unit, timeout, &mut st)
            }
            Some("c18-server") => {
                let mut v: Vec<(String, String)> = c18_server_part(&rt, false).violations.into_iter().map(|x| (x.signature, x.summary)).collect();
                v.extend(c18_write_during_transaction(&rt).violations.into_iter().map(|x| (x.signature, x.summary)));
                v.extend(c18_bind_addresses(&rt).violations.into_iter().map(|x| (x.signature, x.summary)));
                v
            }
            Some("c18-call-errors") => {
                let mut v: Vec<(String, String)> = c18_call_errors(&rt, 0).violations.into_iter().map(|x| (x.signature, x.summary)).collect();
                v.extend(c18_invalid_parameters_in_child().violations.into_iter().map(|x| (x.signature, x.summary)));
                v
            }
            Some("c18-authz") => c18_authz(&rt).violations.into_iter().map(|x| (x.signature, x.summary)).collect(),
            Some("c18-tls") => c18_tls(&rt).violations.into_iter().map(|x| (x.signature, x.summary)).collect(),
            Some("c18-serial") => c18_serial(&rt).violations.into_iter().map(|x| (x.signature, x.summary)).collect(),
            _ => c18_enums(&rt).violations.into_iter().map(|x| (x.signature, x.summary)).collect(),
        }
    })
}

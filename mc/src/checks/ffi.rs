//! E3: the C ABI (extern "C" functions of rodbus-ffi): C16 (filters through the C ABI),
//! C18 (differential against the Rust API), C19 (point database and atomic transactions).

use crate::checks::filter::{FilterSpec, Variant};
use crate::ffiutil::*;
use crate::hserver::hex;
use crate::net::{cert_path, key_path};
use crate::refmodel::pdu::mbap_frame;
use crate::report::*;
use rodbus_ffi::ffi;
use serde_json::json;
use std::collections::BTreeMap;
use std::ffi::c_void;
use std::io::{Read, Write};
use std::net::{SocketAddr, TcpStream};
use std::os::raw::c_int;
use std::ptr::null_mut;
use std::sync::{Arc, Condvar, Mutex};
use std::time::{Duration, Instant};

/// run `f` on a plain thread (the C ABI refuses to block inside a tokio context)
pub fn on_plain_thread<R: Send>(f: impl FnOnce() -> R + Send) -> R {
    std::thread::scope(|s| s.spawn(f).join().expect("ffi worker thread panicked"))
}

fn connect_from(src: &str, dst: SocketAddr) -> std::io::Result<TcpStream> {
    let src: SocketAddr = format!("{src}:0").parse().unwrap();
    let domain = if src.is_ipv4() { libc::AF_INET } else { libc::AF_INET6 };
    // std has no bind-before-connect: do it with libc
    unsafe {
        let fd = libc::socket(domain, libc::SOCK_STREAM | libc::SOCK_CLOEXEC, 0);
        if fd < 0 {
            return Err(std::io::Error::last_os_error());
        }
        let (sa, len) = sockaddr(&src);
        if libc::bind(fd, &sa as *const _ as *const libc::sockaddr, len) != 0 {
            let e = std::io::Error::last_os_error();
            libc::close(fd);
            return Err(e);
        }
        let (da, dlen) = sockaddr(&dst);
        if libc::connect(fd, &da as *const _ as *const libc::sockaddr, dlen) != 0 {
            let e = std::io::Error::last_os_error();
            libc::close(fd);
            return Err(e);
        }
        use std::os::fd::FromRawFd;
        Ok(TcpStream::from_raw_fd(fd))
    }
}

fn sockaddr(a: &SocketAddr) -> (libc::sockaddr_storage, libc::socklen_t) {
    let mut st: libc::sockaddr_storage = unsafe { std::mem::zeroed() };
    match a {
        SocketAddr::V4(v4) => {
            let sin = libc::sockaddr_in {
                sin_family: libc::AF_INET as libc::sa_family_t,
                sin_port: v4.port().to_be(),
                sin_addr: libc::in_addr { s_addr: u32::from_ne_bytes(v4.ip().octets()) },
                sin_zero: [0; 8],
            };
            unsafe { std::ptr::write(&mut st as *mut _ as *mut libc::sockaddr_in, sin) };
            (st, std::mem::size_of::<libc::sockaddr_in>() as libc::socklen_t)
        }
        SocketAddr::V6(v6) => {
            let sin6 = libc::sockaddr_in6 {
                sin6_family: libc::AF_INET6 as libc::sa_family_t,
                sin6_port: v6.port().to_be(),
                sin6_flowinfo: 0,
                sin6_addr: libc::in6_addr { s6_addr: v6.ip().octets() },
                sin6_scope_id: 0,
            };
            unsafe { std::ptr::write(&mut st as *mut _ as *mut libc::sockaddr_in6, sin6) };
            (st, std::mem::size_of::<libc::sockaddr_in6>() as libc::socklen_t)
        }
    }
}

fn read_exact_timeout(s: &mut TcpStream, n: usize, ms: u64) -> Result<Vec<u8>, Vec<u8>> {
    let _ = s.set_read_timeout(Some(Duration::from_millis(ms)));
    let mut buf = vec![0u8; n];
    let mut got = 0;
    let deadline = Instant::now() + Duration::from_millis(ms);
    while got < n && Instant::now() < deadline {
        match s.read(&mut buf[got..]) {
            Ok(0) => break,
            Ok(k) => got += k,
            Err(e) if e.kind() == std::io::ErrorKind::WouldBlock || e.kind() == std::io::ErrorKind::TimedOut => break,
            Err(_) => break,
        }
    }
    if got == n {
        Ok(buf)
    } else {
        buf.truncate(got);
        Err(buf)
    }
}

// ---------------------------------------------------------------------------------------------
// C16 through the C ABI
// ---------------------------------------------------------------------------------------------

#[derive(Default)]
struct AuthLog {
    calls: u32,
}

extern "C" fn auth_range(_u: u8, _r: ffi::AddressRange, _role: *const std::os::raw::c_char, ctx: *mut c_void) -> c_int {
    let c: &Ctx<AuthLog> = unsafe { ctx_ref(ctx) };
    c.state.lock().unwrap().calls += 1;
    0
}

extern "C" fn auth_index(_u: u8, _i: u16, _role: *const std::os::raw::c_char, ctx: *mut c_void) -> c_int {
    let c: &Ctx<AuthLog> = unsafe { ctx_ref(ctx) };
    c.state.lock().unwrap().calls += 1;
    0
}

fn auth_handler(log: Arc<Mutex<AuthLog>>) -> ffi::AuthorizationHandler {
    ffi::AuthorizationHandler {
        read_coils: Some(auth_range),
        read_discrete_inputs: Some(auth_range),
        read_holding_registers: Some(auth_range),
        read_input_registers: Some(auth_range),
        write_single_coil: Some(auth_index),
        write_single_register: Some(auth_index),
        write_multiple_coils: Some(auth_range),
        write_multiple_registers: Some(auth_range),
        on_destroy: Some(ctx_destroy::<AuthLog>),
        ctx: ctx_new(log, Arc::new(Mutex::new(0))),
    }
}

fn filter_parts(f: &FilterSpec) -> Vec<String> {
    match f {
        FilterSpec::Any => vec![],
        FilterSpec::Exact(a) => vec![a.clone()],
        FilterSpec::AnyOf(v) => v.clone(),
        FilterSpec::Wildcard(w) => vec![w.clone()],
    }
}

struct FfiCase {
    variant: Variant,
    filter: FilterSpec,
    peer: String,
}

/// start a server through the C ABI; returns it with its address and the auth-call log
fn ffi_server(rt: &FfiRuntime, variant: Variant, filter: &FilterSpec, ip: &str, points: Vec<DbOp>, wstate: Arc<Mutex<WriteState>>, set: [bool; 4]) -> Result<(FfiServer, SocketAddr, Arc<Mutex<AuthLog>>), String> {
    let parts = filter_parts(filter);
    let filt = ffi_filter(&parts).map_err(|rc| format!("address_filter_create/add -> {rc}"))?;
    let (wh, _d) = write_handler(wstate, set);
    let (map, _r) = device_map(1, wh, points);
    let port = free_port(ip.trim_matches(|c| c == '[' || c == ']'));
    let ipc = cstr(ip.trim_matches(|c| c == '[' || c == ']'));
    let mut out: *mut rodbus_ffi::Server = null_mut();
    let log = Arc::new(Mutex::new(AuthLog::default()));
    let trust = cstr(cert_path("ca_a").to_str().unwrap());
    let local = cstr(cert_path("srv_valid").to_str().unwrap());
    let key = cstr(key_path("srv_valid").to_str().unwrap());
    let empty = cstr("");
    let tls = ffi::TlsServerConfig { peer_cert_path: trust.as_ptr(), local_cert_path: local.as_ptr(), private_key_path: key.as_ptr(), password: empty.as_ptr(), min_tls_version: 0, certificate_mode: 0 };
    let rc = unsafe {
        match variant {
            Variant::Tcp => ffi::rodbus_server_create_tcp(rt.0, ipc.as_ptr(), port, filt, 4, map, decode_nothing(), &mut out),
            Variant::Tls => ffi::rodbus_server_create_tls(rt.0, ipc.as_ptr(), port, filt, 4, map, tls, decode_nothing(), &mut out),
            Variant::TlsAuthz => ffi::rodbus_server_create_tls_with_authz(rt.0, ipc.as_ptr(), port, filt, 4, map, tls, auth_handler(log.clone()), decode_nothing(), &mut out),
        }
    };
    unsafe {
        ffi::rodbus_address_filter_destroy(filt);
        ffi::rodbus_device_map_destroy(map);
    }
    if rc != OK {
        return Err(format!("server_create -> {rc}"));
    }
    let addr: SocketAddr = format!("{ip}:{port}").parse().unwrap();
    Ok((FfiServer(out), addr, log))
}

fn ten_registers() -> Vec<DbOp> {
    (0..10).map(|i| DbOp::Add(2, i, 100 + i)).collect()
}

/// returns (served, received-anything, authorization calls)
fn run_ffi_case(rt: &FfiRuntime, c: &FfiCase) -> Result<(bool, Vec<u8>, u32), String> {
    let v6 = c.peer.contains(':');
    let ip = if v6 { "[::1]" } else { "127.0.0.1" };
    let (server, addr, log) = ffi_server(rt, c.variant, &c.filter, ip, ten_registers(), Arc::new(Mutex::new(WriteState::default())), [true; 4])?;
    let src = if v6 { format!("[{}]", c.peer) } else { c.peer.clone() };
    let mut served = false;
    let mut received = vec![];
    if c.variant == Variant::Tcp {
        if let Ok(mut s) = connect_from(&src, addr) {
            let _ = s.write_all(&mbap_frame(0x0B0B, 1, &[3, 0, 0, 0, 2]));
            match read_exact_timeout(&mut s, 13, 1500) {
                Ok(b) => {
                    served = b[..2] == [0x0B, 0x0B] && b[9..13] == [0, 100, 0, 101];
                    received = b;
                }
                Err(b) => received = b,
            }
        }
    } else {
        // TLS peers are driven on the net runtime (tokio-rustls) from its own threads
        let variant = c.variant;
        let src2 = src.clone();
        let r = crate::net::rt().block_on(async move {
            let mut served = false;
            let mut received = vec![];
            if let Ok(tcp) = crate::net::connect_from(&src2, addr).await {
                let connector = tokio_rustls::TlsConnector::from(crate::net::peer_client_config(crate::net::PeerVersions::Both, "cli_operator"));
                let name = tokio_rustls::rustls::pki_types::ServerName::try_from("test.com").unwrap();
                match tokio::time::timeout(Duration::from_millis(1500), connector.connect(name, tcp)).await {
                    Ok(Ok(mut tls)) => {
                        received = b"<server hello>".to_vec();
                        crate::net::write_all(&mut tls, &mbap_frame(0x0B0B, 1, &[3, 0, 0, 0, 2])).await;
                        if let crate::net::ReadOutcome::Bytes(b) = crate::net::read_n(&mut tls, 13, Duration::from_millis(1500)).await {
                            served = b[..2] == [0x0B, 0x0B];
                        }
                    }
                    Ok(Err(e)) => {
                        let msg = e.to_string();
                        if msg.contains("alert") {
                            received = format!("<{msg}>").into_bytes();
                        }
                    }
                    Err(_) => {}
                }
            }
            let _ = variant;
            (served, received)
        });
        served = r.0;
        received = r.1;
    }
    std::thread::sleep(Duration::from_millis(5));
    let calls = log.lock().unwrap().calls;
    drop(server);
    Ok((served, received, calls))
}

fn ffi_cases() -> Vec<FfiCase> {
    let filters = vec![
        FilterSpec::Any,
        FilterSpec::Exact("127.0.0.2".into()),
        FilterSpec::AnyOf(vec!["127.0.0.2".into(), "::1".into()]),
        FilterSpec::Wildcard("127.0.*.2".into()),
        FilterSpec::Wildcard("*.*.*.3".into()),
    ];
    let peers = ["127.0.0.1", "127.0.0.2", "127.0.1.2", "127.0.0.3", "::1"];
    let mut v = vec![];
    for variant in [Variant::Tcp, Variant::Tls, Variant::TlsAuthz] {
        for filter in &filters {
            for peer in peers {
                v.push(FfiCase { variant, filter: filter.clone(), peer: peer.to_string() });
            }
        }
    }
    v
}

fn judge_ffi_case(c: &FfiCase, r: &(bool, Vec<u8>, u32)) -> Vec<(String, String)> {
    let exp = c.filter.ref_matches(c.peer.parse().unwrap());
    let mut out = vec![];
    if exp && !r.0 {
        out.push((format!("matching-peer-not-served:c-abi:{:?}", c.variant), format!("peer {} matches {:?} but was not served", c.peer, c.filter)));
    }
    if !exp && (r.0 || !r.1.is_empty()) {
        out.push((format!("filtered-peer-served:c-abi:{:?}", c.variant), format!("peer {} does not match {:?} but received {}", c.peer, c.filter, String::from_utf8_lossy(&r.1))));
    }
    if !exp && r.2 > 0 {
        out.push((format!("filtered-peer-reached-handlers:c-abi:{:?}", c.variant), format!("{} authorization calls for a filtered peer", r.2)));
    }
    out
}

pub fn c16_ffi_phase(rep: &mut Report) {
    let st = on_plain_thread(|| {
        let rt = FfiRuntime::new(4);
        let mut st = Stats::default();
        let cases = ffi_cases();
        for (i, c) in cases.iter().enumerate() {
            st.evaluations += 1;
            let mut r = run_ffi_case(&rt, c);
            if let Ok(x) = &r {
                if !judge_ffi_case(c, x).is_empty() {
                    // real sockets: a verdict must reproduce
                    let r2 = run_ffi_case(&rt, c);
                    if let Ok(y) = &r2 {
                        if judge_ffi_case(c, y).is_empty() {
                            r = r2;
                        }
                    }
                }
            }
            let replay = json!({"kind": "c16-ffi", "variant": c.variant, "filter": c.filter, "peer": c.peer});
            match r {
                Err(e) => st.violation(Violation { signature: "MACHINERY:c-abi-server".into(), summary: format!("{:?} {:?} {}: {e}", c.variant, c.filter, c.peer), replay }),
                Ok(x) => {
                    let exp = c.filter.ref_matches(c.peer.parse().unwrap());
                    st.class(if exp { "c-abi-peer-matches" } else { "c-abi-peer-filtered" });
                    st.observe(&(format!("{:?}{:?}{}", c.variant, c.filter, c.peer), x.0));
                    if i % 17 == 0 {
                        st.sample(json!({"variant": c.variant, "filter": c.filter, "peer": c.peer, "served": x.0}));
                    }
                    for (sig, desc) in judge_ffi_case(c, &x) {
                        st.violation(Violation { signature: sig, summary: format!("{:?} {:?} peer {}: {desc}", c.variant, c.filter, c.peer), replay: replay.clone() });
                    }
                }
            }
        }
        // strings rejected / accepted by address_filter_create
        for (s, ok) in [("*.*.*.*", true), ("127.0.0.1", true), ("::1", true), ("1.2.3", false), ("1.2.3.256", false), ("", false), ("a.b.c.d", false), ("1.2.3.4.5", false)] {
            st.evaluations += 1;
            let r = ffi_filter(&[s.to_string()]);
            if let Ok(p) = r {
                unsafe { ffi::rodbus_address_filter_destroy(p) };
            }
            if r.is_ok() != ok {
                st.violation(Violation { signature: "c-abi-filter-string".into(), summary: format!("address_filter_create({s:?}) ok={} expected {ok}", r.is_ok()), replay: json!({"kind": "c16-ffi-string", "s": s}) });
            }
        }
        st
    });
    rep.phase("server variants through the C ABI", st, json!({}));
    rep.require_class("c-abi-peer-matches");
    rep.require_class("c-abi-peer-filtered");
}

pub fn replay_c16_ffi(v: &serde_json::Value) -> Vec<(String, String)> {
    let c = FfiCase {
        variant: serde_json::from_value(v["variant"].clone()).unwrap(),
        filter: serde_json::from_value(v["filter"].clone()).unwrap(),
        peer: v["peer"].as_str().unwrap().to_string(),
    };
    on_plain_thread(|| {
        let rt = FfiRuntime::new(4);
        match run_ffi_case(&rt, &c) {
            Err(e) => vec![("MACHINERY:c-abi-server".into(), e)],
            Ok(x) => judge_ffi_case(&c, &x),
        }
    })
}

#[allow(dead_code)]
fn unused(_: BTreeMap<u8, u8>, _: Condvar) -> String {
    hex(&[])
}

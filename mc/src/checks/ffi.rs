//! E3: the C ABI (extern "C" functions of rodbus-ffi): C16 (filters through the C ABI),
//! C18 (differential against the Rust API), C19 (point database and atomic transactions).

use crate::checks::filter::{FilterSpec, Variant};
use crate::ffiutil::*;
use crate::hserver::hex;
use crate::net::{cert_path, key_path};
use crate::refmodel::pdu::mbap_frame;
use crate::report::*;
use rodbus_ffi::ffi;
use serde_json::json;
use std::collections::BTreeMap;
use std::ffi::c_void;
use std::io::{Read, Write};
use std::net::{SocketAddr, TcpStream};
use std::os::raw::c_int;
use std::ptr::null_mut;
use std::sync::{Arc, Condvar, Mutex};
use std::time::{Duration, Instant};

/// run `f` on a plain thread (the C ABI refuses to block inside a tokio context)
pub fn on_plain_thread<R: Send>(f: impl FnOnce() -> R + Send) -> R {
    std::thread::scope(|s| s.spawn(f).join().expect("ffi worker thread panicked"))
}

fn connect_from(src: &str, dst: SocketAddr) -> std::io::Result<TcpStream> {
    let src: SocketAddr = format!("{src}:0").parse().unwrap();
    let domain = if src.is_ipv4() { libc::AF_INET } else { libc::AF_INET6 };
    // std has no bind-before-connect: do it with libc
    unsafe {
        let fd = libc::socket(domain, libc::SOCK_STREAM | libc::SOCK_CLOEXEC, 0);
        if fd < 0 {
            return Err(std::io::Error::last_os_error());
        }
        let (sa, len) = sockaddr(&src);
        if libc::bind(fd, &sa as *const _ as *const libc::sockaddr, len) != 0 {
            let e = std::io::Error::last_os_error();
            libc::close(fd);
            return Err(e);
        }
        let (da, dlen) = sockaddr(&dst);
        if libc::connect(fd, &da as *const _ as *const libc::sockaddr, dlen) != 0 {
            let e = std::io::Error::last_os_error();
            libc::close(fd);
            return Err(e);
        }
        use std::os::fd::FromRawFd;
        Ok(TcpStream::from_raw_fd(fd))
    }
}

fn sockaddr(a: &SocketAddr) -> (libc::sockaddr_storage, libc::socklen_t) {
    let mut st: libc::sockaddr_storage = unsafe { std::mem::zeroed() };
    match a {
        SocketAddr::V4(v4) => {
            let sin = libc::sockaddr_in {
                sin_family: libc::AF_INET as libc::sa_family_t,
                sin_port: v4.port().to_be(),
                sin_addr: libc::in_addr { s_addr: u32::from_ne_bytes(v4.ip().octets()) },
                sin_zero: [0; 8],
            };
            unsafe { std::ptr::write(&mut st as *mut _ as *mut libc::sockaddr_in, sin) };
            (st, std::mem::size_of::<libc::sockaddr_in>() as libc::socklen_t)
        }
        SocketAddr::V6(v6) => {
            let sin6 = libc::sockaddr_in6 {
                sin6_family: libc::AF_INET6 as libc::sa_family_t,
                sin6_port: v6.port().to_be(),
                sin6_flowinfo: 0,
                sin6_addr: libc::in6_addr { s6_addr: v6.ip().octets() },
                sin6_scope_id: 0,
            };
            unsafe { std::ptr::write(&mut st as *mut _ as *mut libc::sockaddr_in6, sin6) };
            (st, std::mem::size_of::<libc::sockaddr_in6>() as libc::socklen_t)
        }
    }
}

fn read_exact_timeout(s: &mut TcpStream, n: usize, ms: u64) -> Result<Vec<u8>, Vec<u8>> {
    let _ = s.set_read_timeout(Some(Duration::from_millis(ms)));
    let mut buf = vec![0u8; n];
    let mut got = 0;
    let deadline = Instant::now() + Duration::from_millis(ms);
    while got < n && Instant::now() < deadline {
        match s.read(&mut buf[got..]) {
            Ok(0) => break,
            Ok(k) => got += k,
            Err(e) if e.kind() == std::io::ErrorKind::WouldBlock || e.kind() == std::io::ErrorKind::TimedOut => break,
            Err(_) => break,
        }
    }
    if got == n {
        Ok(buf)
    } else {
        buf.truncate(got);
        Err(buf)
    }
}

// ---------------------------------------------------------------------------------------------
// C16 through the C ABI
// ---------------------------------------------------------------------------------------------

#[derive(Default)]
struct AuthLog {
    calls: u32,
}

extern "C" fn auth_range(_u: u8, _r: ffi::AddressRange, _role: *const std::os::raw::c_char, ctx: *mut c_void) -> c_int {
    let c: &Ctx<AuthLog> = unsafe { ctx_ref(ctx) };
    c.state.lock().unwrap().calls += 1;
    0
}

extern "C" fn auth_index(_u: u8, _i: u16, _role: *const std::os::raw::c_char, ctx: *mut c_void) -> c_int {
    let c: &Ctx<AuthLog> = unsafe { ctx_ref(ctx) };
    c.state.lock().unwrap().calls += 1;
    0
}

fn auth_handler(log: Arc<Mutex<AuthLog>>) -> ffi::AuthorizationHandler {
    ffi::AuthorizationHandler {
        read_coils: Some(auth_range),
        read_discrete_inputs: Some(auth_range),
        read_holding_registers: Some(auth_range),
        read_input_registers: Some(auth_range),
        write_single_coil: Some(auth_index),
        write_single_register: Some(auth_index),
        write_multiple_coils: Some(auth_range),
        write_multiple_registers: Some(auth_range),
        on_destroy: Some(ctx_destroy::<AuthLog>),
        ctx: ctx_new(log, Arc::new(Mutex::new(0))),
    }
}

fn filter_parts(f: &FilterSpec) -> Vec<String> {
    match f {
        FilterSpec::Any => vec![],
        FilterSpec::Exact(a) => vec![a.clone()],
        FilterSpec::AnyOf(v) => v.clone(),
        FilterSpec::Wildcard(w) => vec![w.clone()],
    }
}

struct FfiCase {
    variant: Variant,
    filter: FilterSpec,
    peer: String,
}

/// start a server through the C ABI; returns it with its address and the auth-call log
fn ffi_server(rt: &FfiRuntime, variant: Variant, filter: &FilterSpec, ip: &str, points: Vec<DbOp>, wstate: Arc<Mutex<WriteState>>, set: [bool; 4]) -> Result<(FfiServer, SocketAddr, Arc<Mutex<AuthLog>>), String> {
    let parts = filter_parts(filter);
    let filt = ffi_filter(&parts).map_err(|rc| format!("address_filter_create/add -> {rc}"))?;
    let (wh, _d) = write_handler(wstate, set);
    let (map, _r) = device_map(1, wh, points);
    let port = free_port(ip.trim_matches(|c| c == '[' || c == ']'));
    let ipc = cstr(ip.trim_matches(|c| c == '[' || c == ']'));
    let mut out: *mut rodbus_ffi::Server = null_mut();
    let log = Arc::new(Mutex::new(AuthLog::default()));
    let trust = cstr(cert_path("ca_a").to_str().unwrap());
    let local = cstr(cert_path("srv_valid").to_str().unwrap());
    let key = cstr(key_path("srv_valid").to_str().unwrap());
    let empty = cstr("");
    let tls = ffi::TlsServerConfig { peer_cert_path: trust.as_ptr(), local_cert_path: local.as_ptr(), private_key_path: key.as_ptr(), password: empty.as_ptr(), min_tls_version: 0, certificate_mode: 0 };
    let rc = unsafe {
        match variant {
            Variant::Tcp => ffi::rodbus_server_create_tcp(rt.0, ipc.as_ptr(), port, filt, 4, map, decode_nothing(), &mut out),
            Variant::Tls => ffi::rodbus_server_create_tls(rt.0, ipc.as_ptr(), port, filt, 4, map, tls, decode_nothing(), &mut out),
            Variant::TlsAuthz => ffi::rodbus_server_create_tls_with_authz(rt.0, ipc.as_ptr(), port, filt, 4, map, tls, auth_handler(log.clone()), decode_nothing(), &mut out),
        }
    };
    unsafe {
        ffi::rodbus_address_filter_destroy(filt);
        ffi::rodbus_device_map_destroy(map);
    }
    if rc != OK {
        return Err(format!("server_create -> {rc}"));
    }
    let addr: SocketAddr = format!("{ip}:{port}").parse().unwrap();
    Ok((FfiServer(out), addr, log))
}

fn ten_registers() -> Vec<DbOp> {
    (0..10).map(|i| DbOp::Add(2, i, 100 + i)).collect()
}

/// returns (served, received-anything, authorization calls)
fn run_ffi_case(rt: &FfiRuntime, c: &FfiCase) -> Result<(bool, Vec<u8>, u32), String> {
    let v6 = c.peer.contains(':');
    let ip = if v6 { "[::1]" } else { "127.0.0.1" };
    let (server, addr, log) = ffi_server(rt, c.variant, &c.filter, ip, ten_registers(), Arc::new(Mutex::new(WriteState::default())), [true; 4])?;
    let src = if v6 { format!("[{}]", c.peer) } else { c.peer.clone() };
    let mut served = false;
    let mut received = vec![];
    if c.variant == Variant::Tcp {
        if let Ok(mut s) = connect_from(&src, addr) {
            let _ = s.write_all(&mbap_frame(0x0B0B, 1, &[3, 0, 0, 0, 2]));
            match read_exact_timeout(&mut s, 13, 1500) {
                Ok(b) => {
                    served = b[..2] == [0x0B, 0x0B] && b[9..13] == [0, 100, 0, 101];
                    received = b;
                }
                Err(b) => received = b,
            }
        }
    } else {
        // TLS peers are driven on the net runtime (tokio-rustls) from its own threads
        let variant = c.variant;
        let src2 = src.clone();
        let r = crate::net::rt().block_on(async move {
            let mut served = false;
            let mut received = vec![];
            if let Ok(tcp) = crate::net::connect_from(&src2, addr).await {
                let connector = tokio_rustls::TlsConnector::from(crate::net::peer_client_config(crate::net::PeerVersions::Both, "cli_operator"));
                let name = tokio_rustls::rustls::pki_types::ServerName::try_from("test.com").unwrap();
                match tokio::time::timeout(Duration::from_millis(1500), connector.connect(name, tcp)).await {
                    Ok(Ok(mut tls)) => {
                        received = b"<server hello>".to_vec();
                        crate::net::write_all(&mut tls, &mbap_frame(0x0B0B, 1, &[3, 0, 0, 0, 2])).await;
                        if let crate::net::ReadOutcome::Bytes(b) = crate::net::read_n(&mut tls, 13, Duration::from_millis(1500)).await {
                            served = b[..2] == [0x0B, 0x0B];
                        }
                    }
                    Ok(Err(e)) => {
                        let msg = e.to_string();
                        if msg.contains("alert") {
                            received = format!("<{msg}>").into_bytes();
                        }
                    }
                    Err(_) => {}
                }
            }
            let _ = variant;
            (served, received)
        });
        served = r.0;
        received = r.1;
    }
    std::thread::sleep(Duration::from_millis(5));
    let calls = log.lock().unwrap().calls;
    drop(server);
    Ok((served, received, calls))
}

fn ffi_cases() -> Vec<FfiCase> {
    let filters = vec![
        FilterSpec::Any,
        FilterSpec::Exact("127.0.0.2".into()),
        FilterSpec::AnyOf(vec!["127.0.0.2".into(), "::1".into()]),
        FilterSpec::Wildcard("127.0.*.2".into()),
        FilterSpec::Wildcard("*.*.*.3".into()),
    ];
    let peers = ["127.0.0.1", "127.0.0.2", "127.0.1.2", "127.0.0.3", "::1"];
    let mut v = vec![];
    for variant in [Variant::Tcp, Variant::Tls, Variant::TlsAuthz] {
        for filter in &filters {
            for peer in peers {
                v.push(FfiCase { variant, filter: filter.clone(), peer: peer.to_string() });
            }
        }
    }
    v
}

fn judge_ffi_case(c: &FfiCase, r: &(bool, Vec<u8>, u32)) -> Vec<(String, String)> {
    let exp = c.filter.ref_matches(c.peer.parse().unwrap());
    let mut out = vec![];
    if exp && !r.0 {
        out.push((format!("matching-peer-not-served:c-abi:{:?}", c.variant), format!("peer {} matches {:?} but was not served", c.peer, c.filter)));
    }
    if !exp && (r.0 || !r.1.is_empty()) {
        out.push((format!("filtered-peer-served:c-abi:{:?}", c.variant), format!("peer {} does not match {:?} but received {}", c.peer, c.filter, String::from_utf8_lossy(&r.1))));
    }
    if !exp && r.2 > 0 {
        out.push((format!("filtered-peer-reached-handlers:c-abi:{:?}", c.variant), format!("{} authorization calls for a filtered peer", r.2)));
    }
    out
}

pub fn c16_ffi_phase(rep: &mut Report) {
    let st = on_plain_thread(|| {
        let rt = FfiRuntime::new(4);
        let mut st = Stats::default();
        let cases = ffi_cases();
        for (i, c) in cases.iter().enumerate() {
            st.evaluations += 1;
            let mut r = run_ffi_case(&rt, c);
            if let Ok(x) = &r {
                if !judge_ffi_case(c, x).is_empty() {
                    // real sockets: a verdict must reproduce
                    let r2 = run_ffi_case(&rt, c);
                    if let Ok(y) = &r2 {
                        if judge_ffi_case(c, y).is_empty() {
                            r = r2;
                        }
                    }
                }
            }
            let replay = json!({"kind": "c16-ffi", "variant": c.variant, "filter": c.filter, "peer": c.peer});
            match r {
                Err(e) => st.violation(Violation { signature: "MACHINERY:c-abi-server".into(), summary: format!("{:?} {:?} {}: {e}", c.variant, c.filter, c.peer), replay }),
                Ok(x) => {
                    let exp = c.filter.ref_matches(c.peer.parse().unwrap());
                    st.class(if exp { "c-abi-peer-matches" } else { "c-abi-peer-filtered" });
                    st.observe(&(format!("{:?}{:?}{}", c.variant, c.filter, c.peer), x.0));
                    if i % 17 == 0 {
                        st.sample(json!({"variant": c.variant, "filter": c.filter, "peer": c.peer, "served": x.0}));
                    }
                    for (sig, desc) in judge_ffi_case(c, &x) {
                        st.violation(Violation { signature: sig, summary: format!("{:?} {:?} peer {}: {desc}", c.variant, c.filter, c.peer), replay: replay.clone() });
                    }
                }
            }
        }
        // strings rejected / accepted by address_filter_create
        for (s, ok) in [("*.*.*.*", true), ("127.0.0.1", true), ("::1", true), ("1.2.3", false), ("1.2.3.256", false), ("", false), ("a.b.c.d", false), ("1.2.3.4.5", false)] {
            st.evaluations += 1;
            let r = ffi_filter(&[s.to_string()]);
            if let Ok(p) = r {
                unsafe { ffi::rodbus_address_filter_destroy(p) };
            }
            if r.is_ok() != ok {
                st.violation(Violation { signature: "c-abi-filter-string".into(), summary: format!("address_filter_create({s:?}) ok={} expected {ok}", r.is_ok()), replay: json!({"kind": "c16-ffi-string", "s": s}) });
            }
        }
        st
    });
    rep.phase("server variants through the C ABI", st, json!({}));
    rep.require_class("c-abi-peer-matches");
    rep.require_class("c-abi-peer-filtered");
}

pub fn replay_c16_ffi(v: &serde_json::Value) -> Vec<(String, String)> {
    let c = FfiCase {
        variant: serde_json::from_value(v["variant"].clone()).unwrap(),
        filter: serde_json::from_value(v["filter"].clone()).unwrap(),
        peer: v["peer"].as_str().unwrap().to_string(),
    };
    on_plain_thread(|| {
        let rt = FfiRuntime::new(4);
        match run_ffi_case(&rt, &c) {
            Err(e) => vec![("MACHINERY:c-abi-server".into(), e)],
            Ok(x) => judge_ffi_case(&c, &x),
        }
    })
}

#[allow(dead_code)]
fn unused(_: BTreeMap<u8, u8>, _: Condvar) -> String {
    hex(&[])
}

// ---------------------------------------------------------------------------------------------
// C19: the point database
// ---------------------------------------------------------------------------------------------

#[derive(Clone, Default)]
struct RefDb {
    t: [BTreeMap<u16, u16>; 4],
}

impl RefDb {
    fn apply(&mut self, op: &DbOp) -> DbResult {
        match *op {
            DbOp::Add(t, i, v) => {
                let v = if t < 2 { (v != 0) as u16 } else { v };
                if self.t[t as usize].contains_key(&i) {
                    DbResult::Bool(false)
                } else {
                    self.t[t as usize].insert(i, v);
                    DbResult::Bool(true)
                }
            }
            DbOp::Update(t, i, v) => {
                let v = if t < 2 { (v != 0) as u16 } else { v };
                match self.t[t as usize].get_mut(&i) {
                    Some(x) => {
                        *x = v;
                        DbResult::Bool(true)
                    }
                    None => DbResult::Bool(false),
                }
            }
            DbOp::Delete(t, i) => DbResult::Bool(self.t[t as usize].remove(&i).is_some()),
            DbOp::Get(t, i) => match self.t[t as usize].get(&i) {
                Some(v) => DbResult::Value(*v),
                // ParamError::InvalidIndex
                None => DbResult::Error(10),
            },
        }
    }
}

fn db_alphabet(types: &[u8]) -> Vec<DbOp> {
    let mut v = vec![];
    for t in types {
        for i in [0u16, 1, 0xFFFF] {
            for val in [1u16, 0] {
                v.push(DbOp::Add(*t, i, if *t < 2 { val } else { val + 0x1000 + (i & 0xFF) }));
                v.push(DbOp::Update(*t, i, if *t < 2 { 1 - val } else { val + 0x2000 }));
            }
            v.push(DbOp::Delete(*t, i));
            v.push(DbOp::Get(*t, i));
        }
    }
    v
}

/// one client read over the socket; returns the reply PDU
fn socket_read(s: &mut TcpStream, tx: u16, fc: u8, start: u16, count: u16) -> Result<Vec<u8>, String> {
    let mut p = vec![fc];
    p.extend_from_slice(&start.to_be_bytes());
    p.extend_from_slice(&count.to_be_bytes());
    s.write_all(&mbap_frame(tx, 1, &p)).map_err(|e| e.to_string())?;
    let head = read_exact_timeout(s, 7, 3000).map_err(|b| format!("no reply header ({} bytes)", b.len()))?;
    if head[..2] != tx.to_be_bytes() {
        return Err(format!("reply has transaction id {:02x}{:02x}", head[0], head[1]));
    }
    let len = u16::from_be_bytes([head[4], head[5]]) as usize;
    read_exact_timeout(s, len - 1, 3000).map_err(|b| format!("short reply ({} bytes)", b.len()))
}

fn expected_read(db: &RefDb, fc: u8, start: u16, count: u16) -> Vec<u8> {
    let t = (fc - 1) as usize;
    let mut vals = vec![];
    for k in 0..count {
        match db.t[t].get(&start.wrapping_add(k)) {
            Some(v) => vals.push(*v),
            None => return vec![fc | 0x80, 2],
        }
    }
    if fc <= 2 {
        let bits: Vec<bool> = vals.iter().map(|x| *x != 0).collect();
        let data = crate::refmodel::pdu::pack_bits(&bits);
        let mut p = vec![fc, data.len() as u8];
        p.extend(data);
        p
    } else {
        let mut p = vec![fc, (2 * vals.len()) as u8];
        for v in vals {
            p.extend_from_slice(&v.to_be_bytes());
        }
        p
    }
}

fn c19_map_semantics(rep: &mut Report) {
    let thorough = rep.thorough();
    // (a) sequences inside the configuration callback of device_map_add_endpoint (fresh database)
    let alpha = db_alphabet(&[0, 1, 2, 3]);
    let depth = if thorough { 3 } else { 2 };
    let st = on_plain_thread(|| {
        let mut st = Stats::default();
        let mut seq: Vec<usize> = vec![];
        fn rec(alpha: &[DbOp], seq: &mut Vec<usize>, depth: usize, st: &mut Stats) {
            if !seq.is_empty() {
                let ops: Vec<DbOp> = seq.iter().map(|i| alpha[*i].clone()).collect();
                let (wh, _d) = write_handler(Arc::new(Mutex::new(WriteState::default())), [false; 4]);
                let (map, got) = device_map(7, wh, ops.clone());
                unsafe { ffi::rodbus_device_map_destroy(map) };
                let mut r = RefDb::default();
                let exp: Vec<DbResult> = ops.iter().map(|o| r.apply(o)).collect();
                st.evaluations += 1;
                st.traces += 1;
                st.transitions += ops.len() as u64;
                st.state(&r.t);
                st.observe(&got);
                st.class("configure-callback-sequence");
                if got != exp {
                    st.violation(Violation {
                        signature: "database-map-semantics".into(),
                        summary: format!("ops {ops:?}: C ABI returned {got:?}, a per-type map returns {exp:?}"),
                        replay: json!({"kind": "c19-db", "ops": ops}),
                    });
                    return;
                }
                if st.traces % 997 == 1 {
                    st.sample(json!({"ops": format!("{ops:?}"), "results": format!("{got:?}")}));
                }
            }
            if seq.len() == depth {
                return;
            }
            for i in 0..alpha.len() {
                seq.push(i);
                rec(alpha, seq, depth, st);
                seq.pop();
            }
        }
        rec(&alpha, &mut seq, depth, &mut st);
        // deeper sequences on one type (the four tables share their code)
        let alpha1 = db_alphabet(&[2]);
        let d1 = if depth == 3 { 5 } else { 4 };
        rec(&alpha1, &mut vec![], d1, &mut st);
        let alpha0 = db_alphabet(&[0]);
        rec(&alpha0, &mut vec![], d1 - 1, &mut st);
        st
    });
    rep.phase("map semantics inside device_map_add_endpoint", st, json!({"depth": depth}));
    // (b) sequences inside server_update_database transactions, interleaved with client reads
    let st = on_plain_thread(|| {
        let mut st = Stats::default();
        let rt = FfiRuntime::new(2);
        let (server, addr, _log) = match ffi_server(&rt, Variant::Tcp, &FilterSpec::Any, "127.0.0.1", vec![], Arc::new(Mutex::new(WriteState::default())), [false; 4]) {
            Ok(x) => x,
            Err(e) => {
                st.violation(Violation { signature: "MACHINERY:c-abi-server".into(), summary: e, replay: json!({}) });
                return st;
            }
        };
        let mut sock = match connect_from("127.0.0.1", addr) {
            Ok(s) => s,
            Err(e) => {
                st.violation(Violation { signature: "MACHINERY:connect".into(), summary: e.to_string(), replay: json!({}) });
                return st;
            }
        };
        let mut model = RefDb::default();
        let mut tx = 0u16;
        let mut seq: Vec<usize> = vec![];
        let alpha = db_alphabet(&[0, 1, 2, 3]);
        // a fixed pseudo-exhaustive walk: every ordered pair of operations, each pair as one
        // transaction on the evolving database, followed by client reads of all four types
        let pairs: Vec<(usize, usize)> = (0..alpha.len()).flat_map(|a| (0..alpha.len()).map(move |b| (a, b))).collect();
        let step = if thorough { 1 } else { 7 };
        for (k, (a, b)) in pairs.iter().enumerate() {
            if k % step != 0 {
                continue;
            }
            seq.clear();
            seq.push(*a);
            seq.push(*b);
            let ops: Vec<DbOp> = seq.iter().map(|i| alpha[*i].clone()).collect();
            let got: Arc<Mutex<Vec<DbResult>>> = Arc::new(Mutex::new(vec![]));
            let g2 = got.clone();
            let ops2 = ops.clone();
            let rc = update_database(&server, 1, Box::new(move |db| {
                for op in &ops2 {
                    g2.lock().unwrap().push(unsafe { db_apply(db, op) });
                }
            }));
            let exp: Vec<DbResult> = ops.iter().map(|o| model.apply(o)).collect();
            st.evaluations += 1;
            st.traces += 1;
            st.transitions += 2;
            st.state(&model.t);
            st.class("transaction-sequence");
            let got = got.lock().unwrap().clone();
            if rc != OK || got != exp {
                st.violation(Violation {
                    signature: "database-map-semantics:transaction".into(),
                    summary: format!("transaction {ops:?} (rc {rc}): C ABI returned {got:?}, expected {exp:?}"),
                    replay: json!({"kind": "c19-db", "ops": ops}),
                });
                break;
            }
            // client reads: one point, and two points that may span a hole
            for fc in 1..=4u8 {
                for (start, count) in [(0u16, 1u16), (0, 2), (1, 1), (0xFFFF, 1)] {
                    tx = tx.wrapping_add(1);
                    st.evaluations += 1;
                    let want = expected_read(&model, fc, start, count);
                    st.class(if want[0] & 0x80 != 0 { "client-read-absent-point" } else { "client-read-values" });
                    match socket_read(&mut sock, tx, fc, start, count) {
                        Ok(p) if p == want => {}
                        Ok(p) => {
                            st.violation(Violation {
                                signature: if want[0] & 0x80 != 0 { "absent-point-not-exception-02".into() } else { "client-read-values".into() },
                                summary: format!("after {ops:?}: read fc {fc} start {start} count {count} answered {} expected {}", hex(&p), hex(&want)),
                                replay: json!({"kind": "c19-db", "ops": ops}),
                            });
                        }
                        Err(e) => st.violation(Violation { signature: "client-read-failed".into(), summary: e, replay: json!({"kind": "c19-db", "ops": ops}) }),
                    }
                    st.observe(&(fc, start, count, &want));
                }
            }
            if !st.violations.is_empty() {
                break;
            }
        }
        // an unknown unit id is reported, not applied
        let rc = update_database(&server, 9, Box::new(|_| {}));
        if rc != 12 {
            st.violation(Violation { signature: "update-database-unknown-unit".into(), summary: format!("rc {rc}, expected InvalidUnitId (12)"), replay: json!({}) });
        }
        drop(sock);
        drop(server);
        st
    });
    rep.phase("transactions interleaved with client reads", st, json!({}));
}

// --- the cooperative scheduler -------------------------------------------------------------------

#[derive(Clone, Debug, PartialEq)]
enum AState {
    Running,
    /// waiting at a point; `stamp` = number of grants when it arrived after finding the mutex taken
    AtPoint { what: String, blocked_at: Option<u64> },
    Done,
}

struct SchedInner {
    actors: BTreeMap<usize, AState>,
    granted: BTreeMap<usize, bool>,
    was_blocked: BTreeMap<usize, bool>,
    threads: Vec<(std::thread::ThreadId, usize)>,
    grants: u64,
    trace: Vec<String>,
    blocked_events: u64,
}

pub struct CoopSched {
    inner: Mutex<SchedInner>,
    cv: Condvar,
}

const ACTOR_SERVER: usize = 0;

impl CoopSched {
    fn new() -> Arc<Self> {
        Arc::new(CoopSched {
            inner: Mutex::new(SchedInner { actors: BTreeMap::new(), granted: BTreeMap::new(), was_blocked: BTreeMap::new(), threads: vec![], grants: 0, trace: vec![], blocked_events: 0 }),
            cv: Condvar::new(),
        })
    }
    fn register_current(&self, id: usize) {
        let mut g = self.inner.lock().unwrap();
        g.threads.push((std::thread::current().id(), id));
        g.actors.insert(id, AState::Running);
    }
    fn actor_of_current(g: &SchedInner) -> usize {
        let me = std::thread::current().id();
        g.threads.iter().find(|x| x.0 == me).map(|x| x.1).unwrap_or(ACTOR_SERVER)
    }
    fn mark_done(&self, id: usize) {
        let mut g = self.inner.lock().unwrap();
        g.actors.insert(id, AState::Done);
        self.cv.notify_all();
    }
}

impl rodbus::verif::sched::Scheduler for CoopSched {
    fn point(&self, point: rodbus::verif::sched::Point) {
        let mut g = self.inner.lock().unwrap();
        let id = Self::actor_of_current(&g);
        let blocked = g.was_blocked.insert(id, false).unwrap_or(false);
        let stamp = g.grants;
        g.actors.insert(id, AState::AtPoint { what: format!("{point:?}"), blocked_at: if blocked { Some(stamp) } else { None } });
        self.cv.notify_all();
        let deadline = Instant::now() + Duration::from_secs(20);
        while !g.granted.get(&id).copied().unwrap_or(false) {
            let (ng, to) = self.cv.wait_timeout(g, Duration::from_millis(200)).unwrap();
            g = ng;
            if to.timed_out() && Instant::now() > deadline {
                // the controller went away: never block the code under test forever
                return;
            }
        }
        g.granted.insert(id, false);
        g.actors.insert(id, AState::Running);
    }
    fn blocked(&self) {
        let mut g = self.inner.lock().unwrap();
        let id = Self::actor_of_current(&g);
        g.was_blocked.insert(id, true);
        g.blocked_events += 1;
    }
}

#[derive(Debug)]
struct ScheduleRun {
    choices: Vec<usize>,
    branching: Vec<usize>,
    trace: Vec<String>,
    deadlock: bool,
    stuck: Option<String>,
    blocked_events: u64,
}

/// drive the actors: at every decision pick `prefix[k]` (or 0) among the enabled actors
fn drive(s: &Arc<CoopSched>, n_actors: usize, prefix: &[usize]) -> ScheduleRun {
    let mut run = ScheduleRun { choices: vec![], branching: vec![], trace: vec![], deadlock: false, stuck: None, blocked_events: 0 };
    let mut k = 0usize;
    loop {
        // wait until every actor is at a point or done
        let mut g = s.inner.lock().unwrap();
        let deadline = Instant::now() + Duration::from_secs(10);
        loop {
            let settled = g.actors.len() >= n_actors && g.actors.values().all(|a| !matches!(a, AState::Running));
            if settled {
                break;
            }
            let (ng, _) = s.cv.wait_timeout(g, Duration::from_millis(100)).unwrap();
            g = ng;
            if Instant::now() > deadline {
                run.stuck = Some(format!("actors did not settle: {:?}", g.actors));
                run.trace = g.trace.clone();
                return run;
            }
        }
        if g.actors.values().all(|a| *a == AState::Done) {
            run.trace = g.trace.clone();
            run.blocked_events = g.blocked_events;
            return run;
        }
        let grants = g.grants;
        let enabled: Vec<usize> = g
            .actors
            .iter()
            .filter(|(_, a)| match a {
                AState::AtPoint { blocked_at: None, .. } => true,
                // a blocked actor may retry once somebody else has made a step
                AState::AtPoint { blocked_at: Some(t), .. } => grants > *t,
                _ => false,
            })
            .map(|(id, _)| *id)
            .collect();
        if enabled.is_empty() {
            run.deadlock = true;
            run.trace = g.trace.clone();
            return run;
        }
        let c = prefix.get(k).copied().unwrap_or(0);
        let c = c.min(enabled.len() - 1);
        run.choices.push(c);
        run.branching.push(enabled.len());
        k += 1;
        let id = enabled[c];
        let what = match &g.actors[&id] {
            AState::AtPoint { what, blocked_at } => format!("{what}{}", if blocked_at.is_some() { " (retry)" } else { "" }),
            _ => String::new(),
        };
        g.trace.push(format!("actor{id}:{what}"));
        g.grants += 1;
        g.granted.insert(id, true);
        g.actors.insert(id, AState::Running);
        s.cv.notify_all();
    }
}

/// enumerate every schedule of a scenario by depth-first search over the choice points
fn all_schedules(mut run_one: impl FnMut(&[usize]) -> (ScheduleRun, Vec<(String, String)>), st: &mut Stats, name: &str, cap: usize) -> bool {
    let mut prefix: Vec<usize> = vec![];
    let mut n = 0usize;
    loop {
        let (run, problems) = run_one(&prefix);
        n += 1;
        st.evaluations += 1;
        st.traces += 1;
        st.transitions += run.choices.len() as u64;
        st.class(&format!("schedule:{name}"));
        if run.blocked_events > 0 {
            st.class("mutual-exclusion-observed");
        }
        st.state(&run.trace);
        st.observe(&(name.to_string(), run.trace.clone()));
        if n <= 2 {
            st.sample(json!({"scenario": name, "schedule": run.trace}));
        }
        let mut all = problems;
        if run.deadlock {
            all.push(("deadlock".into(), "no actor is enabled".into()));
        }
        if let Some(s) = &run.stuck {
            all.push(("MACHINERY:scheduler-stuck".into(), s.clone()));
        }
        if !all.is_empty() {
            for (sig, d) in all {
                st.violation(Violation {
                    signature: format!("{sig}:{name}"),
                    summary: format!("scenario {name}, schedule {:?}: {d}", run.trace),
                    replay: json!({"kind": "c19-schedule", "scenario": name, "choices": run.choices}),
                });
            }
            return false;
        }
        // next schedule: deepest choice that can still be incremented
        let mut i = run.choices.len();
        loop {
            if i == 0 {
                return true;
            }
            i -= 1;
            if run.choices[i] + 1 < run.branching[i] {
                prefix = run.choices[..i].to_vec();
                prefix.push(run.choices[i] + 1);
                break;
            }
        }
        if n >= cap {
            st.class("schedule-cap-hit");
            return true;
        }
    }
}

struct AtomEnv {
    rt: FfiRuntime,
    server: FfiServer,
    sock: TcpStream,
    wstate: Arc<Mutex<WriteState>>,
    tx: u16,
}

fn atom_env() -> Result<AtomEnv, String> {
    let rt = FfiRuntime::new(3);
    let wstate = Arc::new(Mutex::new(WriteState { apply: true, ..Default::default() }));
    let points: Vec<DbOp> = (0..4).map(|i| DbOp::Add(2, i, 1)).collect();
    let (server, addr, _l) = ffi_server(&rt, Variant::Tcp, &FilterSpec::Any, "127.0.0.1", points, wstate.clone(), [true; 4])?;
    let sock = connect_from("127.0.0.1", addr).map_err(|e| e.to_string())?;
    Ok(AtomEnv { rt, server, sock, wstate, tx: 0 })
}

fn user_point(k: u16) {
    rodbus::verif::sched::point(rodbus::verif::sched::Point::User(k));
}

/// scenario 1: a client read of N registers races a transaction that rewrites all of them
fn scenario_read_vs_transaction(env: &mut AtomEnv, n: u16, prefix: &[usize]) -> (ScheduleRun, Vec<(String, String)>) {
    // reset (no scheduler installed)
    update_database(&env.server, 1, Box::new(move |db| {
        for i in 0..4 {
            unsafe { ffi::rodbus_database_update_holding_register(db, i, 1) };
        }
    }));
    let s = CoopSched::new();
    {
        let mut g = s.inner.lock().unwrap();
        g.actors.insert(ACTOR_SERVER, AState::Running);
    }
    rodbus::verif::sched::install(Some(s.clone()));
    env.tx = env.tx.wrapping_add(1);
    let tx = env.tx;
    let server_ptr = env.server.0 as usize;
    let mut reader = env.sock.try_clone().unwrap();
    let reply: Arc<Mutex<Option<Result<Vec<u8>, String>>>> = Arc::new(Mutex::new(None));
    let run = std::thread::scope(|scope| {
        let s1 = s.clone();
        scope.spawn(move || {
            s1.register_current(1);
            let srv = FfiServer(server_ptr as *mut rodbus_ffi::Server);
            update_database(&srv, 1, Box::new(move |db| {
                for i in 0..n {
                    user_point(i);
                    unsafe { ffi::rodbus_database_update_holding_register(db, i, 2) };
                }
            }));
            std::mem::forget(srv);
            s1.mark_done(1);
        });
        let s2 = s.clone();
        let reply2 = reply.clone();
        scope.spawn(move || {
            let r = socket_read(&mut reader, tx, 3, 0, n);
            *reply2.lock().unwrap() = Some(r);
            s2.mark_done(ACTOR_SERVER);
        });
        drive(&s, 2, prefix)
    });
    rodbus::verif::sched::install(None);
    let mut problems = vec![];
    match reply.lock().unwrap().take() {
        Some(Ok(p)) => {
            let vals: Vec<u16> = p[2..].chunks(2).map(|c| u16::from_be_bytes([c[0], c[1]])).collect();
            let all_old = vals.iter().all(|v| *v == 1);
            let all_new = vals.iter().all(|v| *v == 2);
            if p[0] != 3 || vals.len() != n as usize || !(all_old || all_new) {
                problems.push(("torn-read".to_string(), format!("a single client read observed part of a transaction: values {vals:?} (reply {})", hex(&p))));
            }
        }
        Some(Err(e)) => problems.push(("client-read-failed".to_string(), e)),
        None => problems.push(("MACHINERY:no-reply".to_string(), "reader thread produced nothing".into())),
    }
    (run, problems)
}

/// scenario 2: two transactions that each increment the same register (read-modify-write)
fn scenario_two_transactions(env: &mut AtomEnv, prefix: &[usize]) -> (ScheduleRun, Vec<(String, String)>) {
    update_database(&env.server, 1, Box::new(move |db| {
        unsafe { ffi::rodbus_database_update_holding_register(db, 0, 100) };
        unsafe { ffi::rodbus_database_update_holding_register(db, 1, 100) };
    }));
    let s = CoopSched::new();
    rodbus::verif::sched::install(Some(s.clone()));
    let server_ptr = env.server.0 as usize;
    let run = std::thread::scope(|scope| {
        for id in 1..=2usize {
            let s1 = s.clone();
            scope.spawn(move || {
                s1.register_current(id);
                let srv = FfiServer(server_ptr as *mut rodbus_ffi::Server);
                update_database(&srv, 1, Box::new(move |db| {
                    for reg in 0..2u16 {
                        let mut v = 0u16;
                        unsafe { ffi::rodbus_database_get_holding_register(db, reg, &mut v) };
                        user_point(reg);
                        unsafe { ffi::rodbus_database_update_holding_register(db, reg, v + id as u16) };
                    }
                }));
                std::mem::forget(srv);
                s1.mark_done(id);
            });
        }
        drive(&s, 2, prefix)
    });
    rodbus::verif::sched::install(None);
    let fin: Arc<Mutex<Vec<u16>>> = Arc::new(Mutex::new(vec![]));
    let f2 = fin.clone();
    update_database(&env.server, 1, Box::new(move |db| {
        for reg in 0..2u16 {
            let mut v = 0u16;
            unsafe { ffi::rodbus_database_get_holding_register(db, reg, &mut v) };
            f2.lock().unwrap().push(v);
        }
    }));
    let fin = fin.lock().unwrap().clone();
    let mut problems = vec![];
    if fin != vec![103, 103] {
        problems.push(("lost-update".to_string(), format!("two transactions each adding their id to both registers left {fin:?}, expected [103, 103]")));
    }
    (run, problems)
}

/// scenario 3: a client write request (applied by the application's write callback) races a
/// transaction that reads the same registers
fn scenario_write_request_vs_transaction(env: &mut AtomEnv, prefix: &[usize]) -> (ScheduleRun, Vec<(String, String)>) {
    update_database(&env.server, 1, Box::new(move |db| {
        for i in 0..4 {
            unsafe { ffi::rodbus_database_update_holding_register(db, i, 1) };
        }
    }));
    env.wstate.lock().unwrap().calls.clear();
    let s = CoopSched::new();
    {
        let mut g = s.inner.lock().unwrap();
        g.actors.insert(ACTOR_SERVER, AState::Running);
    }
    rodbus::verif::sched::install(Some(s.clone()));
    env.tx = env.tx.wrapping_add(1);
    let tx = env.tx;
    let server_ptr = env.server.0 as usize;
    let mut sock = env.sock.try_clone().unwrap();
    let seen: Arc<Mutex<Vec<u16>>> = Arc::new(Mutex::new(vec![]));
    let reply: Arc<Mutex<Option<Vec<u8>>>> = Arc::new(Mutex::new(None));
    let run = std::thread::scope(|scope| {
        let s1 = s.clone();
        let seen2 = seen.clone();
        scope.spawn(move || {
            s1.register_current(1);
            let srv = FfiServer(server_ptr as *mut rodbus_ffi::Server);
            update_database(&srv, 1, Box::new(move |db| {
                for reg in 0..3u16 {
                    user_point(reg);
                    let mut v = 0u16;
                    unsafe { ffi::rodbus_database_get_holding_register(db, reg, &mut v) };
                    seen2.lock().unwrap().push(v);
                }
            }));
            std::mem::forget(srv);
            s1.mark_done(1);
        });
        let s2 = s.clone();
        let reply2 = reply.clone();
        scope.spawn(move || {
            // write multiple registers 0..3 = 2
            let p = [16u8, 0, 0, 0, 3, 6, 0, 2, 0, 2, 0, 2];
            let _ = sock.write_all(&mbap_frame(tx, 1, &p));
            if let Ok(head) = read_exact_timeout(&mut sock, 7, 5000) {
                let len = u16::from_be_bytes([head[4], head[5]]) as usize;
                if let Ok(b) = read_exact_timeout(&mut sock, len - 1, 3000) {
                    *reply2.lock().unwrap() = Some(b);
                }
            }
            s2.mark_done(ACTOR_SERVER);
        });
        drive(&s, 2, prefix)
    });
    rodbus::verif::sched::install(None);
    let mut problems = vec![];
    let seen = seen.lock().unwrap().clone();
    if !(seen.iter().all(|v| *v == 1) || seen.iter().all(|v| *v == 2)) {
        problems.push(("torn-transaction-read".to_string(), format!("a transaction observed part of a client write request: {seen:?}")));
    }
    match reply.lock().unwrap().take() {
        Some(b) if b == vec![16, 0, 0, 0, 3] => {}
        other => problems.push(("write-request-reply".to_string(), format!("{other:?}"))),
    }
    (run, problems)
}

fn c19_atomicity(rep: &mut Report) {
    let thorough = rep.thorough();
    let st = on_plain_thread(|| {
        let mut st = Stats::default();
        let mut env = match atom_env() {
            Ok(e) => e,
            Err(e) => {
                st.violation(Violation { signature: "MACHINERY:c-abi-server".into(), summary: e, replay: json!({}) });
                return st;
            }
        };
        let cap = if thorough { 20_000 } else { 4_000 };
        for n in [2u16, 3] {
            all_schedules(|p| scenario_read_vs_transaction(&mut env, n, p), &mut st, &format!("read-{n}-vs-transaction"), cap);
        }
        all_schedules(|p| scenario_two_transactions(&mut env, p), &mut st, "two-transactions", cap);
        all_schedules(|p| scenario_write_request_vs_transaction(&mut env, p), &mut st, "write-request-vs-transaction", cap);
        let _ = &env.rt;
        st
    });
    rep.phase("atomicity: all schedules of the cooperative scheduler", st, json!({}));
}

pub fn check_c19(tier: &str) -> i32 {
    let mut rep = Report::new(
        "C19",
        tier,
        "model_checking",
        "(1) map semantics: all sequences of <= D operations over {add, update, delete, get} x 4 point types x indices {0,1,65535} x 2 values issued through the C ABI inside device_map_add_endpoint's configuration callback, and all ordered pairs inside server_update_database transactions on a running server interleaved with client reads over a loopback socket, against a per-type reference map (exception 02 for reads touching an absent point); (2) atomicity: a cooperative scheduler (scheduling points at every acquisition of a handler mutex, every database read of the server and between the steps of the harness' transactions) enumerates every schedule of four scenarios by DFS: client read of N registers vs rewriting transaction (N=2,3), two read-modify-write transactions, client write request vs reading transaction; every reply / transaction view must be all-old or all-new, no update may be lost, no schedule may deadlock. states = distinct database states / distinct schedules",
    );
    rep.bounds = json!({"map_depth": if rep.thorough() { 3 } else { 2 }, "single_type_depth": if rep.thorough() { 5 } else { 4 }, "schedule_cap_per_scenario": if rep.thorough() { 20000 } else { 4000 }});
    c19_map_semantics(&mut rep);
    c19_atomicity(&mut rep);
    for c in ["configure-callback-sequence", "transaction-sequence", "client-read-absent-point", "client-read-values", "mutual-exclusion-observed", "schedule:read-2-vs-transaction", "schedule:read-3-vs-transaction", "schedule:two-transactions", "schedule:write-request-vs-transaction"] {
        rep.require_class(c);
    }
    if rep.stats.classes.contains_key("schedule-cap-hit") {
        rep.caps_hit.push("schedule cap".into());
    }
    rep.assumptions.push("scheduling granularity is one point access / one mutex acquisition; reordering inside one access is not modelled (irrelevant under a mutex)".into());
    rep.finish()
}

pub fn replay_c19(v: &serde_json::Value) -> Vec<(String, String)> {
    on_plain_thread(|| {
        if v["kind"] == "c19-db" {
            let ops: Vec<DbOp> = serde_json::from_value(v["ops"].clone()).unwrap();
            let (wh, _d) = write_handler(Arc::new(Mutex::new(WriteState::default())), [false; 4]);
            let (map, got) = device_map(7, wh, ops.clone());
            unsafe { ffi::rodbus_device_map_destroy(map) };
            let mut r = RefDb::default();
            let exp: Vec<DbResult> = ops.iter().map(|o| r.apply(o)).collect();
            if got != exp {
                return vec![("database-map-semantics".into(), format!("got {got:?} expected {exp:?}"))];
            }
            return vec![];
        }
        let name = v["scenario"].as_str().unwrap().to_string();
        let choices: Vec<usize> = v["choices"].as_array().unwrap().iter().map(|x| x.as_u64().unwrap() as usize).collect();
        let mut env = match atom_env() {
            Ok(e) => e,
            Err(e) => return vec![("MACHINERY:c-abi-server".into(), e)],
        };
        let (run, mut problems) = match name.as_str() {
            "read-2-vs-transaction" => scenario_read_vs_transaction(&mut env, 2, &choices),
            "read-3-vs-transaction" => scenario_read_vs_transaction(&mut env, 3, &choices),
            "two-transactions" => scenario_two_transactions(&mut env, &choices),
            _ => scenario_write_request_vs_transaction(&mut env, &choices),
        };
        if run.deadlock {
            problems.push(("deadlock".into(), format!("{:?}", run.trace)));
        }
        problems.into_iter().map(|(s, d)| (format!("{s}:{name}"), d)).collect()
    })
}

//! C01, C02, C08, C17: the production server session against the reference server.

use crate::hserver::*;
use crate::refmodel::pdu::{self, Frame, RtuRole, StreamEnd};
use crate::report::*;
use serde::{Deserialize, Serialize};
use serde_json::json;

#[derive(Clone, Debug, Serialize, Deserialize)]
pub struct ServerScenario {
    pub cfg: ServerCfg,
    /// (transaction id, unit id, PDU as hex)
    pub frames: Vec<(u16, u8, String)>,
    /// which oracle aspects are judged: 'R' replies, 'H' handler calls / application state
    pub aspects: String,
}

pub fn to_hex(b: &[u8]) -> String {
    b.iter().map(|x| format!("{x:02x}")).collect()
}

pub fn from_hex(s: &str) -> Vec<u8> {
    (0..s.len() / 2)
        .map(|i| u8::from_str_radix(&s[2 * i..2 * i + 2], 16).unwrap())
        .collect()
}

pub type Req3 = (u16, u8, Vec<u8>);

fn aspect_of(sig: &str) -> char {
    if sig.starts_with("handler-calls")
        || sig.starts_with("read-out-of-scope")
        || sig.starts_with("auth-not-first")
        || sig.starts_with("app-state")
    {
        'H'
    } else {
        'R'
    }
}

/// can this PDU be carried as exactly one frame by the given framing?
pub fn framable(rtu: bool, unit: u8, pdu_bytes: &[u8]) -> bool {
    if pdu_bytes.len() > 253 {
        return false;
    }
    if !rtu {
        return true;
    }
    let f = pdu::rtu_frame(unit, pdu_bytes);
    let (frames, end) = pdu::parse_rtu_stream(RtuRole::Request, &f);
    frames.len() == 1 && end == StreamEnd::NeedMore(0)
}

/// Run a sequence of requests on one fresh session, comparing every step with the model.
/// Returns (signature, description, step index).
pub fn run_sequence(
    cfg: &ServerCfg,
    frames: &[Req3],
    aspects: &str,
    stats: &mut Stats,
) -> Vec<(String, String, usize)> {
    let r = run_sequence_with(cfg, frames, aspects, stats, false);
    if !r.is_empty() && frames.iter().any(|f| !pdu::byte_count_consistent(&f.2)) {
        // the byte-count field of a write-multiple request is unspecified: an implementation
        // that validates it (consistently) is as good as one that ignores it
        let mut tmp = Stats::default();
        let strict = run_sequence_with(cfg, frames, aspects, &mut tmp, true);
        if strict.is_empty() {
            stats.class("accepted-under-strict-byte-count-reading");
            return strict;
        }
    }
    r
}

fn run_sequence_with(
    cfg: &ServerCfg,
    frames: &[Req3],
    aspects: &str,
    stats: &mut Stats,
    strict_byte_count: bool,
) -> Vec<(String, String, usize)> {
    let mut h = ServerHarness::new(cfg);
    let mut model = cfg.model_with(strict_byte_count);
    let mut out = vec![];
    h.settle();
    for (i, (tx, unit, p)) in frames.iter().enumerate() {
        if !framable(cfg.rtu, *unit, p) {
            stats.class("skipped-unframable");
            continue;
        }
        let frame = Frame { tx: if cfg.rtu { None } else { Some(*tx) }, unit: *unit, pdu: p.clone() };
        let expect = model.handle(*unit, p);
        let bytes = h.frame(*tx, *unit, p);
        let obs = h.deliver_and_observe(&bytes);
        stats.transitions += 1;
        stats.class(&expect.class);
        stats.observe(&(obs.written.concat(), obs.calls.len(), &expect.class));
        let problems = judge_step(cfg.rtu, &frame, &expect, &obs);
        let mut fatal = false;
        for (sig, desc) in problems {
            if sig == "panic" || sig == "busy-loop" || sig.starts_with("session-ended") {
                fatal = true;
            }
            if aspects.contains(aspect_of(&sig)) {
                out.push((sig, desc, i));
            }
        }
        if fatal {
            return out;
        }
        stats.state(&(model.apps.clone(), i == usize::MAX));
    }
    // application state must equal the model's
    if aspects.contains('H') {
        let apps = h.apps();
        if apps != model.apps {
            out.push((
                "app-state-mismatch".to_string(),
                "application state after the sequence differs from the reference".to_string(),
                frames.len(),
            ));
        }
    }
    out
}

pub fn scenario_of(cfg: &ServerCfg, frames: &[Req3], aspects: &str) -> ServerScenario {
    ServerScenario {
        cfg: cfg.clone(),
        frames: frames.iter().map(|(t, u, p)| (*t, *u, to_hex(p))).collect(),
        aspects: aspects.to_string(),
    }
}

/// Sweep many independent requests through long-lived sessions (fast path). A failing request is
/// re-run alone on a fresh session to obtain a minimal replay.
pub fn sweep(prop: &str, cfg: &ServerCfg, reqs: &[Req3], aspects: &str, stats: &mut Stats) {
    let mut idx = 0usize;
    while idx < reqs.len() {
        let mut h = ServerHarness::new(cfg);
        let mut model = cfg.model();
        h.settle();
        let mut restart = false;
        while idx < reqs.len() && !restart {
            let (tx, unit, p) = &reqs[idx];
            idx += 1;
            if !framable(cfg.rtu, *unit, p) {
                stats.class("skipped-unframable");
                continue;
            }
            stats.evaluations += 1;
            stats.transitions += 1;
            let frame = Frame { tx: if cfg.rtu { None } else { Some(*tx) }, unit: *unit, pdu: p.clone() };
            let expect = model.handle(*unit, p);
            let bytes = h.frame(*tx, *unit, p);
            let describe = || ("server-request".to_string(), format!("unit {unit} pdu {}", hex(p)), json!({"kind": "server", "property": prop, "scenario": scenario_of(cfg, &[(*tx, *unit, p.clone())], aspects)}));
            let obs = crate::sim::watchdog::guard(&describe, || h.deliver_and_observe(&bytes));
            stats.class(&expect.class);
            stats.observe(&(obs.written.concat(), obs.calls.len()));
            let problems = judge_step(cfg.rtu, &frame, &expect, &obs);
            let relevant: Vec<_> = problems
                .iter()
                .filter(|(s, _)| aspects.contains(aspect_of(s)))
                .collect();
            if !problems.is_empty() {
                // the long-lived session may now differ from the model: start a new one
                restart = true;
            }
            if !relevant.is_empty() {
                let single = vec![(*tx, *unit, p.clone())];
                let mut tmp = Stats::default();
                let alone = run_sequence(cfg, &single, aspects, &mut tmp);
                if alone.is_empty() && !pdu::byte_count_consistent(p) {
                    // acceptable under the strict reading of the byte-count field
                    continue;
                }
                let (sig, desc) = if let Some((s, d, _)) = alone.first() {
                    (s.clone(), d.clone())
                } else {
                    (
                        format!("{}:only-in-sequence", relevant[0].0),
                        format!("{} (does not reproduce on a fresh session)", relevant[0].1),
                    )
                };
                stats.violation(Violation {
                    signature: sig,
                    summary: format!("unit {unit} tx {tx} pdu {}: {desc}", hex(p)),
                    replay: json!({"kind": "server", "property": prop, "scenario": scenario_of(cfg, &single, aspects)}),
                });
            }
            if stats.evaluations % 997 == 0 {
                stats.sample(json!({"unit": unit, "tx": tx, "pdu": hex(p), "expected_class": expect.class}));
            }
        }
        if aspects.contains('H') && !restart {
            if h.apps() != model.apps {
                stats.violation(Violation {
                    signature: "app-state-mismatch:sweep".to_string(),
                    summary: "application state after a sweep chunk differs from the reference".to_string(),
                    replay: json!({"kind": "server", "property": prop, "scenario": scenario_of(cfg, reqs, aspects)}),
                });
            }
        }
    }
    stats.traces += 1;
}

pub const L16: [u16; 18] = [
    0, 1, 2, 7, 8, 9, 0x7B, 0x7C, 0x7D, 0x7E, 0x7AF, 0x7B0, 0x7B1, 0x7CF, 0x7D0, 0x7D1, 0xFFFE,
    0xFFFF,
];

fn be(x: u16) -> [u8; 2] {
    x.to_be_bytes()
}

pub fn read_pdu(fc: u8, start: u16, count: u16) -> Vec<u8> {
    let mut p = vec![fc];
    p.extend_from_slice(&be(start));
    p.extend_from_slice(&be(count));
    p
}

pub fn write_multi_pdu(fc: u8, start: u16, qty: u16, byte_count: u8, data: &[u8]) -> Vec<u8> {
    let mut p = vec![fc];
    p.extend_from_slice(&be(start));
    p.extend_from_slice(&be(qty));
    p.push(byte_count);
    p.extend_from_slice(data);
    p
}

fn pattern(kind: u8, len: usize) -> Vec<u8> {
    match kind {
        0 => vec![0u8; len],
        1 => vec![0xFFu8; len],
        _ => (0..len).map(|i| (i as u8).wrapping_mul(7).wrapping_add(1)).collect(),
    }
}

/// the single-request space of C01 (a)
pub fn single_request_space(thorough: bool, unit: u8) -> Vec<Req3> {
    let mut v: Vec<Req3> = vec![];
    let mut tx = 0u16;
    let mut push = |v: &mut Vec<Req3>, p: Vec<u8>| {
        tx = tx.wrapping_add(0x3FFF);
        v.push((tx, unit, p));
    };
    // every function byte x every payload length x patterns
    let lens: Vec<usize> = if thorough {
        (0..=252).collect()
    } else {
        vec![0, 1, 2, 3, 4, 5, 6, 7, 8, 9, 10, 11, 250, 251, 252]
    };
    for fc in 0..=255u8 {
        for len in &lens {
            for k in 0..3u8 {
                let mut p = vec![fc];
                p.extend(pattern(k, *len));
                push(&mut v, p);
            }
        }
    }
    // structured: reads
    for fc in 1..=4u8 {
        for s in L16 {
            for c in L16 {
                push(&mut v, read_pdu(fc, s, c));
            }
        }
        if thorough {
            for s in [0u16, 0x8000, 0xF830] {
                for c in 0..=65535u16 {
                    if c <= 2100 || c >= 65000 || c % 97 == 0 {
                        push(&mut v, read_pdu(fc, s, c));
                    }
                }
            }
            for c in [1u16, 2, 125, 126, 2000, 2001] {
                for s in (0..=65535u16).step_by(if c <= 2 { 1 } else { 13 }) {
                    push(&mut v, read_pdu(fc, s, c));
                }
                for s in 0xF000..=0xFFFFu16 {
                    push(&mut v, read_pdu(fc, s, c));
                }
            }
        }
        // wrong lengths
        for extra in [0usize, 1, 2, 3, 5, 6] {
            let mut p = vec![fc];
            p.extend(pattern(2, extra));
            push(&mut v, p);
        }
    }
    // single writes
    let vals: Vec<u16> = if thorough {
        (0..=65535u16).collect()
    } else {
        let mut x = L16.to_vec();
        x.extend_from_slice(&[0xFF00, 0x00FF, 0xFF01, 0xFEFF, 0x0100, 0x8000]);
        x
    };
    for a in L16 {
        for val in &vals {
            let mut p = vec![5u8];
            p.extend_from_slice(&be(a));
            p.extend_from_slice(&be(*val));
            push(&mut v, p);
        }
        for val in L16 {
            let mut p = vec![6u8];
            p.extend_from_slice(&be(a));
            p.extend_from_slice(&be(val));
            push(&mut v, p);
        }
    }
    // multiple writes
    let coil_q: [u16; 18] = [0, 1, 7, 8, 9, 16, 17, 1960, 1967, 1968, 1969, 1975, 1976, 1977, 2000, 2001, 0x7FFF, 0xFFFF];
    let reg_q: [u16; 12] = [0, 1, 2, 3, 122, 123, 124, 125, 126, 127, 0x7FFF, 0xFFFF];
    for s in L16 {
        for q in coil_q {
            let exp = (q as usize).div_ceil(8);
            for dl in [-2i32, -1, 0, 1, 2] {
                let n = exp as i32 + dl;
                if !(0..=247).contains(&n) {
                    continue;
                }
                let n = n as usize;
                for bc in [n as u8, (exp % 256) as u8, 0, 255] {
                    push(&mut v, write_multi_pdu(15, s, q, bc, &pattern(2, n)));
                }
            }
        }
        for q in reg_q {
            let exp = 2 * q as usize;
            for dl in [-2i32, -1, 0, 1, 2] {
                let n = exp as i32 + dl;
                if !(0..=247).contains(&n) {
                    continue;
                }
                let n = n as usize;
                for bc in [n as u8, (exp % 256) as u8, 0, 255] {
                    push(&mut v, write_multi_pdu(16, s, q, bc, &pattern(2, n)));
                }
            }
        }
    }
    if thorough {
        // every quantity that fits
        for q in 0..=2100u16 {
            let exp = (q as usize).div_ceil(8);
            if exp <= 247 {
                push(&mut v, write_multi_pdu(15, 3, q, exp as u8, &pattern(2, exp)));
            }
        }
        for q in 0..=130u16 {
            let exp = 2 * q as usize;
            if exp <= 247 {
                push(&mut v, write_multi_pdu(16, 3, q, exp as u8, &pattern(2, exp)));
            }
        }
    }
    // every other unit id (not configured): valid, invalid, unknown and empty requests
    let mut tx2 = 0x0100u16;
    for other in 0..=255u8 {
        if other == unit {
            continue;
        }
        let mut wsr = vec![6u8];
        wsr.extend_from_slice(&[0, 1, 0x12, 0x34]);
        for p in [read_pdu(1, 0, 2), read_pdu(3, 0xFFFF, 2), read_pdu(4, 0, 0), wsr, write_multi_pdu(15, 0, 3, 1, &[5]), vec![0x41], vec![]] {
            tx2 = tx2.wrapping_add(1);
            v.push((tx2, other, p));
        }
    }
    v
}

pub fn app_variants() -> Vec<AppSpec> {
    let mut sparse_points = vec![];
    for a in 0..16u16 {
        if a != 5 {
            sparse_points.push((0u8, a, (a % 3 == 0) as u16));
            sparse_points.push((1u8, a, (a % 2 == 0) as u16));
            sparse_points.push((2u8, a, 0x1000 + a));
            sparse_points.push((3u8, a, 0x2000 + a));
        }
    }
    let codes = [1u8, 2, 3, 4, 5, 6, 8, 0x0A, 0x0B, 0, 0x80, 0xFF];
    let mut exc = vec![];
    for (i, c) in codes.iter().enumerate() {
        exc.push(((i % 4) as u8, 0x20 + i as u16, *c));
    }
    vec![
        AppSpec::dense(),
        AppSpec { points: sparse_points.clone(), exc: exc.clone(), write_exc: [None; 4], dense: false, transform: false },
        AppSpec { points: vec![], exc, write_exc: [Some(4), Some(6), Some(0x0B), Some(0x80)], dense: true, transform: false },
        // an application that stores something else than what was written
        AppSpec { points: vec![], exc: vec![], write_exc: [None; 4], dense: true, transform: true },
    ]
}

/// requests aimed at the sparse / exception-map applications (handler states of C01 (c))
pub fn app_state_requests(unit: u8) -> Vec<Req3> {
    let mut v = vec![];
    let mut tx = 7u16;
    for fc in 1..=4u8 {
        for s in 0..20u16 {
            for c in 1..=8u16 {
                tx = tx.wrapping_add(1);
                v.push((tx, unit, read_pdu(fc, s, c)));
            }
        }
        for s in 0x1C..0x30u16 {
            for c in [1u16, 2, 5] {
                tx = tx.wrapping_add(1);
                v.push((tx, unit, read_pdu(fc, s, c)));
            }
        }
    }
    for a in (0..20u16).chain(0x1E..0x2E) {
        for val in [0x0000u16, 0xFF00] {
            tx = tx.wrapping_add(1);
            let mut p = vec![5u8];
            p.extend_from_slice(&be(a));
            p.extend_from_slice(&be(val));
            v.push((tx, unit, p));
        }
        tx = tx.wrapping_add(1);
        let mut p = vec![6u8];
        p.extend_from_slice(&be(a));
        p.extend_from_slice(&be(a.wrapping_mul(257)));
        v.push((tx, unit, p));
        for q in [1u16, 3, 9] {
            tx = tx.wrapping_add(1);
            let n = (q as usize).div_ceil(8);
            v.push((tx, unit, write_multi_pdu(15, a, q, n as u8, &pattern(2, n))));
            tx = tx.wrapping_add(1);
            v.push((tx, unit, write_multi_pdu(16, a, q, (2 * q) as u8, &pattern(2, 2 * q as usize))));
        }
    }
    v
}

/// The 24-symbol sequence alphabet of C01 (b); `u` is a configured unit, `other` is not
pub fn sequence_alphabet(u: u8, other: u8) -> Vec<(&'static str, u8, Vec<u8>)> {
    let wsc = |a: u16, val: u16| {
        let mut p = vec![5u8];
        p.extend_from_slice(&be(a));
        p.extend_from_slice(&be(val));
        p
    };
    let wsr = |a: u16, val: u16| {
        let mut p = vec![6u8];
        p.extend_from_slice(&be(a));
        p.extend_from_slice(&be(val));
        p
    };
    vec![
        ("read-coils", u, read_pdu(1, 0, 10)),
        ("read-coils-exc", u, read_pdu(1, 0x1E, 4)),
        ("read-discrete", u, read_pdu(2, 0, 9)),
        ("read-holding", u, read_pdu(3, 0, 3)),
        ("read-holding-hole", u, read_pdu(3, 3, 4)),
        ("read-input", u, read_pdu(4, 1, 2)),
        ("read-coils-over-limit", u, read_pdu(1, 0, 2001)),
        ("read-regs-zero", u, read_pdu(3, 0, 0)),
        ("write-coil", u, wsc(1, 0xFF00)),
        ("write-coil-bad-value", u, wsc(1, 0x1234)),
        ("write-reg", u, wsr(2, 0xBEEF)),
        ("write-reg-exc", u, wsr(0x22, 1)),
        ("write-coils", u, write_multi_pdu(15, 0, 10, 2, &[0xA5, 0x02])),
        ("write-coils-bad-length", u, write_multi_pdu(15, 0, 10, 2, &[0xA5])),
        ("write-coils-over-limit", u, write_multi_pdu(15, 0, 1969, 247, &pattern(2, 247))),
        ("write-regs", u, write_multi_pdu(16, 1, 3, 6, &[0, 1, 0, 2, 0xFF, 0xFE])),
        ("write-regs-overflow", u, write_multi_pdu(16, 0xFFFF, 2, 4, &[0, 1, 0, 2])),
        ("write-regs-exc", u, write_multi_pdu(16, 0x21, 3, 6, &[0, 1, 0, 2, 0, 3])),
        ("unknown-function", u, vec![0x2B, 0x0E, 0x01, 0x00]),
        ("empty", u, vec![]),
        ("read-other-unit", other, read_pdu(3, 0, 3)),
        ("malformed-other-unit", other, read_pdu(3, 0, 0)),
        ("truncated-read", u, vec![3, 0, 0, 0]),
        ("read-holding-after", u, read_pdu(3, 0, 8)),
    ]
}

/// enumerate all sequences of length 1..=depth over the alphabet
pub fn for_each_sequence(n_symbols: usize, depth: usize, mut f: impl FnMut(&[usize])) {
    let mut seq: Vec<usize> = vec![];
    fn rec(n: usize, depth: usize, seq: &mut Vec<usize>, f: &mut dyn FnMut(&[usize])) {
        if !seq.is_empty() {
            f(seq);
        }
        if seq.len() == depth {
            return;
        }
        for s in 0..n {
            seq.push(s);
            rec(n, depth, seq, f);
            seq.pop();
        }
    }
    rec(n_symbols, depth, &mut seq, &mut f);
}

fn unit_maps() -> Vec<Vec<(u8, AppSpec)>> {
    let apps = app_variants();
    vec![
        vec![(1, apps[1].clone())],
        vec![(1, apps[0].clone()), (2, apps[1].clone()), (247, apps[2].clone())],
        vec![(255, apps[1].clone()), (0, apps[0].clone())],
    ]
}

const TXS: [u16; 4] = [0, 1, 0x7FFF, 0xFFFF];

pub type Alphabet = Vec<(&'static str, u8, Vec<u8>)>;

pub fn default_alphabet(cfg: &ServerCfg) -> Alphabet {
    let u = cfg.units[cfg.units.len() / 2].0;
    let other = if cfg.units.iter().any(|x| x.0 == 9) { 10 } else { 9 };
    sequence_alphabet(u, other)
}

pub fn explore_sequences(
    prop: &str,
    cfgs: &[ServerCfg],
    depth: usize,
    aspects: &str,
    alpha_fn: &(dyn Fn(&ServerCfg) -> Alphabet + Sync),
) -> Stats {
    // first-level branching: (cfg, first symbol)
    let n_sym = alpha_fn(&cfgs[0]).len();
    parallel(cfgs.len() * n_sym, |job, st| {
        let cfg = &cfgs[job / n_sym];
        let first = job % n_sym;
        let alpha = alpha_fn(cfg);
        assert_eq!(alpha.len(), n_sym);
        let mut path: Vec<usize> = vec![first];
        fn rec(
            prop: &str,
            cfg: &ServerCfg,
            alpha: &[(&'static str, u8, Vec<u8>)],
            path: &mut Vec<usize>,
            depth: usize,
            aspects: &str,
            st: &mut Stats,
        ) {
            let frames: Vec<Req3> = path
                .iter()
                .enumerate()
                .map(|(i, s)| (TXS[(i + *s) % 4], alpha[*s].1, alpha[*s].2.clone()))
                .collect();
            st.evaluations += 1;
            st.traces += 1;
            let describe = || ("server-sequence".to_string(), format!("sequence {:?}", path.iter().map(|s| alpha[*s].0).collect::<Vec<_>>()), json!({"kind": "server", "property": prop, "scenario": scenario_of(cfg, &frames, aspects)}));
            let problems = crate::sim::watchdog::guard(&describe, || run_sequence(cfg, &frames, aspects, st));
            if st.traces % 64 == 1 {
                // determinism audit: same path twice, identical verdict
                let mut tmp = Stats::default();
                let again = run_sequence(cfg, &frames, aspects, &mut tmp);
                st.audits += 1;
                if again != problems {
                    st.violation(Violation {
                        signature: "MACHINERY:nondeterminism".into(),
                        summary: "same path gave two different observations".into(),
                        replay: json!({"kind": "server", "property": prop, "scenario": scenario_of(cfg, &frames, aspects)}),
                    });
                }
            }
            if st.traces % 5003 == 2 {
                st.sample(json!({"rtu": cfg.rtu, "units": cfg.units.iter().map(|x| x.0).collect::<Vec<_>>(), "sequence": path.iter().map(|s| alpha[*s].0).collect::<Vec<_>>() }));
            }
            let failed = !problems.is_empty();
            for (sig, desc, step) in problems {
                st.violation(Violation {
                    signature: sig,
                    summary: format!(
                        "sequence {:?} step {step}: {desc}",
                        path.iter().map(|s| alpha[*s].0).collect::<Vec<_>>()
                    ),
                    replay: json!({"kind": "server", "property": prop, "scenario": scenario_of(cfg, &frames, aspects)}),
                });
            }
            // extensions of a failing path fail for the same reason: report the shortest only
            if failed || path.len() == depth {
                return;
            }
            for s in 0..alpha.len() {
                path.push(s);
                rec(prop, cfg, alpha, path, depth, aspects, st);
                path.pop();
            }
        }
        rec(prop, cfg, &alpha, &mut path, depth, aspects, st);
    })
}

fn base_cfgs(with_auth: Option<(PolicySpec, String)>) -> Vec<ServerCfg> {
    let mut v = vec![];
    for rtu in [false, true] {
        for units in unit_maps() {
            if rtu && units.iter().any(|x| x.0 == 0) {
                // unit 0 cannot be a configured unit on RTU (it is the broadcast address)
                continue;
            }
            v.push(ServerCfg { rtu, units, auth: with_auth.clone(), decode: (0, 0, 0) });
        }
    }
    v
}

fn run_sweeps(prop: &str, rep: &mut Report, aspects: &str) {
    let thorough = rep.thorough();
    let apps = app_variants();
    for rtu in [false, true] {
        // (a) single-request sweep against the dense application
        let cfg = ServerCfg { rtu, units: vec![(1, apps[0].clone())], auth: None, decode: (0, 0, 0) };
        let reqs = single_request_space(thorough, 1);
        let chunks: Vec<&[Req3]> = reqs.chunks(2048).collect();
        let st = parallel(chunks.len(), |i, st| sweep(prop, &cfg, chunks[i], aspects, st));
        rep.phase(
            &format!("single-request sweep ({})", if rtu { "RTU" } else { "TCP" }),
            st,
            json!({"requests": reqs.len()}),
        );
        // (c) handler states
        for (k, app) in apps.iter().enumerate().skip(1) {
            let cfg = ServerCfg { rtu, units: vec![(1, app.clone())], auth: None, decode: (0, 0, 0) };
            let reqs = app_state_requests(1);
            let chunks: Vec<&[Req3]> = reqs.chunks(256).collect();
            let st = parallel(chunks.len(), |i, st| sweep(prop, &cfg, chunks[i], aspects, st));
            rep.phase(
                &format!("handler-state sweep app#{k} ({})", if rtu { "RTU" } else { "TCP" }),
                st,
                json!({"requests": reqs.len()}),
            );
        }
    }
}

pub fn check_c01(tier: &str) -> i32 {
    let mut rep = Report::new(
        "C01",
        tier,
        "model_checking",
        "every request of the single-request space and every sequence of <= D requests over a 24-symbol alphabet is delivered to the production server session (TCP and RTU framing, 3 unit maps, 3 application states); after every request the bytes written are compared with the reference server. distinct = distinct (reply bytes, number of handler calls) observations",
    );
    let depth = if rep.thorough() { 5 } else { 4 };
    rep.bounds = json!({"sequence_depth": depth, "alphabet": 24, "framings": ["tcp", "rtu"], "unit_maps": 3});
    run_sweeps("C01", &mut rep, "R");
    let cfgs = base_cfgs(None);
    let st = explore_sequences("C01", &cfgs, depth, "R", &default_alphabet);
    rep.phase("sequences", st, json!({"depth": depth, "configs": cfgs.len()}));
    // requests delivered together in one read: what stands behind a request that is answered with an
    // exception (or not at all) is answered like any other request
    let mut pjobs: Vec<(ServerCfg, String, Vec<u8>)> = vec![];
    for rtu in [false, true] {
        let cfg = ServerCfg { rtu, units: vec![(1, AppSpec::dense())], auth: None, decode: (0, 0, 0) };
        let firsts: Vec<(&str, u8, Vec<u8>)> = vec![
            ("unknown-fc", 1, vec![0x41, 1, 2]),
            ("unknown-fc-high", 1, vec![0x90]),
            ("count-zero", 1, read_pdu(3, 0, 0)),
            ("over-limit", 1, read_pdu(3, 0, 126)),
            ("overflow", 1, read_pdu(1, 0xFFFF, 2)),
            ("bad-coil-value", 1, vec![5, 0, 1, 0x12, 0x34]),
            ("other-unit", 9, read_pdu(3, 0, 2)),
            ("empty", 1, vec![]),
            ("read", 1, read_pdu(4, 1, 3)),
            ("write", 1, vec![6, 0, 2, 0xAB, 0xCD]),
        ];
        let seconds: Vec<(&str, Vec<u8>)> = vec![("read", read_pdu(3, 0, 4)), ("write", vec![6, 0, 7, 0x12, 0x34])];
        let mut tx = 0x5000u16;
        let mut fr = |unit: u8, p: &Vec<u8>| {
            tx += 1;
            if rtu {
                pdu::rtu_frame(unit, p)
            } else {
                pdu::mbap_frame(tx, unit, p)
            }
        };
        for (fname, unit, fp) in &firsts {
            if !framable(rtu, *unit, fp) {
                continue;
            }
            for (sname, sp) in &seconds {
                pjobs.push((cfg.clone(), format!("{fname}+{sname}"), [fr(*unit, fp), fr(1, sp)].concat()));
                pjobs.push((cfg.clone(), format!("{fname}+{sname}+{fname}+{sname}"), [fr(*unit, fp), fr(1, sp), fr(*unit, fp), fr(1, sp)].concat()));
            }
        }
    }
    let pbound = crate::checks::framing::ChunkBound { uniform: true, max_cuts: 1, full_cuts_up_to: 64, all_partitions_up_to: 0 };
    let st = parallel(pjobs.len(), |i, st| {
        crate::checks::framing::server_stream_job("C01", &pjobs[i].0, &pjobs[i].1, &pjobs[i].2, pbound, st);
    });
    rep.phase("requests delivered together in one read (one reply each, in order)", st, json!({"streams": pjobs.len()}));
    // one reply per request also when the peer reads slowly: production TCP / TLS server over real
    // sockets, requests pipelined until the server's writes block (finding F13)
    let st = crate::checks::sessions::backpressure_stream_phase(rep.thorough(), 1);
    rep.phase("production TCP / TLS server: every pipelined request is answered although the peer reads late", st, json!({"pipelined_requests": if rep.thorough() { 12000 } else { 2500 }, "cases": 4}));
    rep.require_class("reply-stream-under-back-pressure:tls");
    for c in ["read-ok", "read-exception", "write-ok", "write-exception", "unknown-function", "empty", "unconfigured-unit", "invalid:fc15:over-limit", "invalid:fc1:over-limit", "invalid:fc5:coil-value", "invalid:fc3:length"] {
        rep.require_class(c);
    }
    rep.assumptions.push("byte-count fields of write-multiple requests are not validated (the property constrains length)".into());
    rep.assumptions.push("replies over real TCP / TLS sockets are checked on the back-pressure scenarios only (4 cases); everything else runs on the production session over the scripted transport".into());
    rep.assumptions.push("the reference server reads the requested addresses in ascending order: a read touching several failing addresses reports the exception of the lowest one".into());
    rep.finish()
}

pub fn check_c02(tier: &str) -> i32 {
    let mut rep = Report::new(
        "C02",
        tier,
        "model_checking",
        "same executions as C01, with and without an authorization handler; the ordered log of the instrumented RequestHandler (writes exact incl. collected iterator items and len(); reads within the requested range of the addressed unit) and the application state after each sequence are compared with the reference server",
    );
    let depth = if rep.thorough() { 5 } else { 4 };
    rep.bounds = json!({"sequence_depth": depth.min(4), "alphabet": 24});
    run_sweeps("C02", &mut rep, "H");
    let mut cfgs = base_cfgs(None);
    // with an authorization handler that allows everything / only reads
    for c in base_cfgs(Some((PolicySpec::FcMask(0xFF), "operator".into()))).into_iter().filter(|c| !c.rtu) {
        cfgs.push(c);
    }
    for c in base_cfgs(Some((PolicySpec::FcMask(0x0F), "viewer".into()))).into_iter().filter(|c| !c.rtu).take(1) {
        cfgs.push(c);
    }
    let st = explore_sequences("C02", &cfgs, depth.min(4), "H", &default_alphabet);
    rep.phase("sequences", st, json!({"depth": depth.min(4), "configs": cfgs.len()}));
    // requests that arrive in two reads with a server command handled in between
    let mut jobs: Vec<(ServerCfg, String, Vec<u8>)> = vec![];
    for cfg in base_cfgs(None) {
        let alpha = default_alphabet(&cfg);
        for (name, unit, p) in &alpha {
            if !framable(cfg.rtu, *unit, p) {
                continue;
            }
            let f = if cfg.rtu { pdu::rtu_frame(*unit, p) } else { pdu::mbap_frame(0x1111, *unit, p) };
            jobs.push((cfg.clone(), name.to_string(), f.clone()));
            // followed by a second request, so that a mis-framed remainder is interpreted
            let g = if cfg.rtu { pdu::rtu_frame(*unit, &alpha[10].2) } else { pdu::mbap_frame(0x1112, *unit, &alpha[10].2) };
            jobs.push((cfg.clone(), format!("{name}+write-reg"), [f, g].concat()));
        }
    }
    let st = parallel(jobs.len(), |i, st| {
        crate::checks::framing::server_stream_job_with_command("C02", &jobs[i].0, &jobs[i].1, &jobs[i].2, st);
    });
    rep.phase("segmented requests with a server command between the reads", st, json!({"streams": jobs.len()}));
    // pipelined requests: a small request and a maximum-size write delivered together (the write
    // straddles the session's 260-byte receive buffer), every position of one cut + uniform chunks
    let mut pjobs: Vec<(ServerCfg, String, Vec<u8>)> = vec![];
    for rtu in [false, true] {
        let cfg = ServerCfg { rtu, units: vec![(1, AppSpec::dense())], auth: None, decode: (0, 0, 0) };
        for (name, stream) in crate::checks::framing::pipelined_write_streams(rtu) {
            pjobs.push((cfg.clone(), name, stream));
        }
    }
    let pbound = crate::checks::framing::ChunkBound { uniform: true, max_cuts: 1, full_cuts_up_to: if rep.thorough() { 600 } else { 0 }, all_partitions_up_to: 0 };
    let st = parallel(pjobs.len(), |i, st| {
        crate::checks::framing::server_stream_job("C02", &pjobs[i].0, &pjobs[i].1, &pjobs[i].2, pbound, st);
    });
    rep.phase("pipelined requests: small request and maximum-size write in one delivery", st, json!({"streams": pjobs.len()}));
    for c in ["command-between-reads", "read-ok", "write-ok", "write-exception", "unknown-function", "empty", "unconfigured-unit", "denied", "invalid:fc15:over-limit"] {
        rep.require_class(c);
    }
    rep.finish()
}

pub fn replay(scn: &ServerScenario) -> Vec<(String, String, usize)> {
    let frames: Vec<Req3> = scn.frames.iter().map(|(t, u, p)| (*t, *u, from_hex(p))).collect();
    let mut st = Stats::default();
    run_sequence(&scn.cfg, &frames, &scn.aspects, &mut st)
}

// ---------------------------------------------------------------------------------------------
// C17: multi-drop discipline
// ---------------------------------------------------------------------------------------------

fn apps_dense() -> AppSpec {
    AppSpec::dense()
}

fn c17_unit_maps() -> Vec<Vec<(u8, AppSpec)>> {
    let apps = app_variants();
    vec![
        vec![],
        vec![(1, apps[0].clone())],
        vec![(1, apps[0].clone()), (2, apps[2].clone())],
        // the unit in the middle fails every write
        vec![(1, apps[1].clone()), (2, apps[2].clone()), (247, apps[0].clone())],
        // handlers registered under the ends of the id range: 0 is an ordinary unit on TCP and one
        // of "all configured units" for an RTU broadcast; 255 is ordinary everywhere
        vec![(0, apps[0].clone()), (7, apps[2].clone())],
        vec![(255, apps[0].clone())],
    ]
}

/// eight kinds x {valid, failing in the handler, malformed}
fn c17_kinds() -> Vec<(&'static str, Vec<u8>)> {
    let wsc = |a: u16, val: u16| {
        let mut p = vec![5u8];
        p.extend_from_slice(&be(a));
        p.extend_from_slice(&be(val));
        p
    };
    let wsr = |a: u16, val: u16| {
        let mut p = vec![6u8];
        p.extend_from_slice(&be(a));
        p.extend_from_slice(&be(val));
        p
    };
    vec![
        ("rc-valid", read_pdu(1, 0, 5)),
        ("rc-fails", read_pdu(1, 0x20, 2)),
        ("rc-malformed", read_pdu(1, 0, 0)),
        ("rd-valid", read_pdu(2, 1, 9)),
        ("rd-fails", read_pdu(2, 0x21, 1)),
        ("rd-malformed", vec![2, 0, 1]),
        ("rh-valid", read_pdu(3, 0, 3)),
        ("rh-fails", read_pdu(3, 0x22, 2)),
        ("rh-malformed", read_pdu(3, 0xFFFF, 2)),
        ("ri-valid", read_pdu(4, 2, 2)),
        ("ri-fails", read_pdu(4, 0x23, 1)),
        ("ri-malformed", read_pdu(4, 0, 126)),
        ("wsc-valid", wsc(1, 0xFF00)),
        ("wsc-fails", wsc(0x20, 0x0000)),
        ("wsc-malformed", wsc(1, 0x00FF)),
        ("wsr-valid", wsr(2, 0x55AA)),
        ("wsr-fails", wsr(0x22, 7)),
        ("wsr-malformed", vec![6, 0, 2, 0]),
        ("wmc-valid", write_multi_pdu(15, 2, 9, 2, &[0xFF, 0x01])),
        ("wmc-fails", write_multi_pdu(15, 0x1F, 3, 1, &[0x05])),
        ("wmc-malformed", write_multi_pdu(15, 2, 9, 1, &[0xFF])),
        ("wmr-valid", write_multi_pdu(16, 3, 2, 4, &[1, 2, 3, 4])),
        ("wmr-fails", write_multi_pdu(16, 0x21, 2, 4, &[1, 2, 3, 4])),
        ("wmr-malformed", write_multi_pdu(16, 3, 0, 0, &[])),
    ]
}

fn c17_alphabet(cfg: &ServerCfg) -> Alphabet {
    let k = c17_kinds();
    let get = |n: &str| k.iter().find(|x| x.0 == n).unwrap().1.clone();
    let conf = cfg.units.first().map(|x| x.0).unwrap_or(1);
    let last = cfg.units.last().map(|x| x.0).unwrap_or(1);
    vec![
        ("bcast-wsc", 0, get("wsc-valid")),
        ("bcast-wsr", 0, get("wsr-valid")),
        ("bcast-wmc", 0, get("wmc-valid")),
        ("bcast-wmr", 0, get("wmr-valid")),
        ("bcast-wsr-fails", 0, get("wsr-fails")),
        ("bcast-read", 0, get("rh-valid")),
        ("bcast-malformed", 0, get("wmc-malformed")),
        ("unicast-write", conf, get("wsr-valid")),
        ("unicast-unconfigured", 77, get("wsr-valid")),
        ("unicast-unconfigured-malformed", 77, get("rc-malformed")),
        // requests to a configured unit that are answered with exception 03 / 01 without reaching a handler
        ("unicast-malformed", conf, get("rc-malformed")),
        ("unicast-unknown-fc", conf, vec![0x2B, 1, 2]),
        ("sentinel-read", last, read_pdu(3, 0, 8)),
        ("sentinel-read-coils", conf, read_pdu(1, 0, 12)),
    ]
}

pub fn check_c17(tier: &str) -> i32 {
    let mut rep = Report::new(
        "C17",
        tier,
        "model_checking",
        "for every handler map of 0..3 units (including maps with a handler registered under unit 0 and under unit 255), every destination 0..=255 and each of the eight request kinds in three flavours (valid, failing in the handler, malformed) plus unknown function codes, on RTU and TCP framing, the bytes written and the handler log are compared with the reference server (silence unless unicast to a configured unit; RTU broadcast writes reach every unit exactly once and are never answered; broadcast reads ignored); then all sequences of <= D events over a 12-symbol alphabet mixing broadcast, unicast and sentinel reads; finally a broadcast write racing an application thread that holds one unit's handler lock, all schedules at the handler-mutex acquisitions",
    );
    let depth = if rep.thorough() { 6 } else { 4 };
    rep.bounds = json!({"sequence_depth": depth, "destinations": 256, "unit_maps": 6, "kinds": 24});
    let mut kinds = c17_kinds();
    kinds.push(("unknown-fc", vec![0x2B, 1, 2]));
    kinds.push(("unknown-fc-high", vec![0x81, 1]));
    kinds.push(("empty", vec![]));
    let mut cfgs = vec![];
    for rtu in [true, false] {
        for units in c17_unit_maps() {
            cfgs.push(ServerCfg { rtu, units, auth: None, decode: (0, 0, 0) });
        }
    }
    // all destinations x all kinds, each on a fresh session (so nothing carries over)
    let st = parallel(cfgs.len() * 256, |job, st| {
        let cfg = &cfgs[job / 256];
        let dest = (job % 256) as u8;
        for (name, p) in &kinds {
            let frames = vec![(0x0102u16, dest, p.clone())];
            if !framable(cfg.rtu, dest, p) {
                st.class("skipped-unframable");
                continue;
            }
            st.evaluations += 1;
            st.traces += 1;
            for (sig, desc, _) in run_sequence(cfg, &frames, "RH", st) {
                st.violation(Violation {
                    signature: sig,
                    summary: format!(
                        "{} units {:?} dest {dest} kind {name}: {desc}",
                        if cfg.rtu { "RTU" } else { "TCP" },
                        cfg.units.iter().map(|x| x.0).collect::<Vec<_>>()
                    ),
                    replay: json!({"kind": "server", "property": "C17", "scenario": scenario_of(cfg, &frames, "RH")}),
                });
            }
            if st.traces % 1201 == 1 {
                st.sample(json!({"rtu": cfg.rtu, "units": cfg.units.iter().map(|x| x.0).collect::<Vec<_>>(), "dest": dest, "kind": name}));
            }
        }
    });
    rep.phase("destination x kind grid", st, json!({"configs": cfgs.len()}));
    let seq_cfgs: Vec<ServerCfg> = cfgs.iter().filter(|c| !c.units.is_empty()).cloned().collect();
    let st = explore_sequences("C17", &seq_cfgs, depth, "RH", &c17_alphabet);
    rep.phase("sequences", st, json!({"depth": depth, "configs": seq_cfgs.len(), "alphabet": 14}));
    // a broadcast write while the application holds the handler lock of one unit: every schedule
    // of the two threads at the handler-mutex acquisitions (cooperative scheduler of C19)
    let st = crate::checks::ffi::c17_contended_broadcast();
    rep.phase("broadcast write while an application thread holds a handler lock (all schedules)", st, json!({"units": [1, 2, 9]}));
    // RTU frames arriving back to back in one read: what stands behind a broadcast (or behind a
    // frame for somebody else) is processed like any other frame
    let mut sjobs: Vec<(ServerCfg, String, Vec<u8>)> = vec![];
    for units in [vec![(1u8, apps_dense())], vec![(1, apps_dense()), (2, apps_dense())]] {
        let cfg = ServerCfg { rtu: true, units, auth: None, decode: (0, 0, 0) };
        let f = |unit: u8, p: &[u8]| pdu::rtu_frame(unit, p);
        let bw6 = f(0, &[6, 0, 3, 0x12, 0x34]);
        let bw5 = f(0, &[5, 0, 2, 0xFF, 0x00]);
        let bw16 = f(0, &write_multi_pdu(16, 4, 2, 4, &[0, 7, 0, 8]));
        let bw15 = f(0, &write_multi_pdu(15, 1, 3, 1, &[5]));
        let brd = f(0, &read_pdu(3, 0, 2));
        let other = f(9, &[6, 0, 1, 0, 1]);
        let rd = f(1, &read_pdu(3, 0, 6));
        let wr = f(1, &[6, 0, 9, 0xAB, 0xCD]);
        let rd2 = f(cfg.units.last().unwrap().0, &read_pdu(3, 3, 2));
        for (bn, b) in [("bcast-fc6", &bw6), ("bcast-fc5", &bw5), ("bcast-fc16", &bw16), ("bcast-fc15", &bw15), ("bcast-read", &brd), ("other-unit", &other)] {
            for (an, a) in [("read", &rd), ("write", &wr), ("read-last-unit", &rd2), ("bcast-fc6", &bw6)] {
                sjobs.push((cfg.clone(), format!("{bn}+{an}"), [b.clone(), a.clone()].concat()));
                sjobs.push((cfg.clone(), format!("{an}+{bn}+{an}"), [a.clone(), b.clone(), a.clone()].concat()));
            }
        }
    }
    let sbound = crate::checks::framing::ChunkBound { uniform: true, max_cuts: 1, full_cuts_up_to: 64, all_partitions_up_to: 0 };
    let st = parallel(sjobs.len(), |i, st| {
        crate::checks::framing::server_stream_job("C17", &sjobs[i].0, &sjobs[i].1, &sjobs[i].2, sbound, st);
    });
    rep.phase("RTU frames back to back in one read: broadcasts and frames for other units followed by further frames", st, json!({"streams": sjobs.len()}));
    for c in ["broadcast-write", "broadcast-read", "unconfigured-unit", "write-ok", "read-ok", "write-exception", "mutual-exclusion-observed"] {
        rep.require_class(c);
    }
    rep.assumptions.push("the order in which a broadcast write reaches the units is not specified and not judged".into());
    rep.finish()
}

// ---------------------------------------------------------------------------------------------
// C08: authorization
// ---------------------------------------------------------------------------------------------

fn c08_alphabet(cfg: &ServerCfg) -> Alphabet {
    let u = cfg.units[0].0;
    let u2 = cfg.units.last().unwrap().0;
    let wsc = |a: u16, val: u16| {
        let mut p = vec![5u8];
        p.extend_from_slice(&be(a));
        p.extend_from_slice(&be(val));
        p
    };
    let wsr = |a: u16, val: u16| {
        let mut p = vec![6u8];
        p.extend_from_slice(&be(a));
        p.extend_from_slice(&be(val));
        p
    };
    vec![
        ("rc-0-4", u, read_pdu(1, 0, 4)),
        ("rc-8-10", u2, read_pdu(1, 8, 10)),
        ("rd-3-5", u, read_pdu(2, 3, 5)),
        ("rh-2-3", u, read_pdu(3, 2, 3)),
        ("ri-9-1", u2, read_pdu(4, 9, 1)),
        ("wsc-2", u, wsc(2, 0xFF00)),
        ("wsc-3", u2, wsc(3, 0x0000)),
        ("wsr-4", u, wsr(4, 0x1111)),
        ("wsr-7", u2, wsr(7, 0x2222)),
        ("wmc-0-3", u, write_multi_pdu(15, 0, 3, 1, &[0x05])),
        ("wmc-9-9", u2, write_multi_pdu(15, 9, 9, 2, &[0xFF, 0x01])),
        ("wmr-1-2", u, write_multi_pdu(16, 1, 2, 4, &[0, 9, 0, 8])),
        ("wmr-8-5", u2, write_multi_pdu(16, 8, 5, 10, &[0, 1, 0, 2, 0, 3, 0, 4, 0, 5])),
        ("malformed", u, read_pdu(3, 0, 0)),
        ("unknown-fc", u, vec![0x11]),
        ("other-unit-read", 99, read_pdu(3, 0, 2)),
        ("other-unit-write", 99, wsr(0, 1)),
        // the unit ids with a special meaning elsewhere (RTU broadcast, the TCP default): on TCP
        // they are ordinary unit ids, configured or not
        ("unit0-write", 0, wsr(1, 7)),
        ("unit255-read", 255, read_pdu(1, 0, 2)),
        ("observe", u, read_pdu(3, 0, 12)),
    ]
}

/// wide single-request alphabet: every function x quantities {1, 2, 8, 9, maximum} x starts
/// {0, 5, last possible}: which authorization query (kind, range / index, value) each request
/// produces must not depend on the quantity or the position
fn c08_wide_alphabet(cfg: &ServerCfg) -> Alphabet {
    let u = cfg.units[0].0;
    let mut v: Alphabet = vec![];
    let leak = |s: String| -> &'static str { Box::leak(s.into_boxed_str()) };
    for fc in [1u8, 2, 3, 4] {
        let max = if fc <= 2 { 2000u16 } else { 125 };
        for q in [1u16, 2, 8, 9, max] {
            for start in [0u16, 5, (0x10000u32 - q as u32) as u16] {
                v.push((leak(format!("r{fc}-{start}-{q}")), u, read_pdu(fc, start, q)));
            }
        }
    }
    for (fc, val) in [(5u8, 0xFF00u16), (5, 0x0000), (6, 0xBEEF)] {
        for a in [0u16, 5, 0xFFFF] {
            let mut p = vec![fc];
            p.extend_from_slice(&be(a));
            p.extend_from_slice(&be(val));
            v.push((leak(format!("w{fc}-{a}-{val:x}")), u, p));
        }
    }
    for q in [1u16, 2, 8, 9, 1968] {
        for start in [0u16, 5, (0x10000u32 - q as u32) as u16] {
            let n = (q as usize).div_ceil(8);
            let mut data = pattern(2, n);
            if q % 8 != 0 {
                *data.last_mut().unwrap() &= (1u8 << (q % 8)) - 1;
            }
            v.push((leak(format!("w15-{start}-{q}")), u, write_multi_pdu(15, start, q, n as u8, &data)));
        }
    }
    for q in [1u16, 2, 8, 9, 123] {
        for start in [0u16, 5, (0x10000u32 - q as u32) as u16] {
            let n = 2 * q as usize;
            v.push((leak(format!("w16-{start}-{q}")), u, write_multi_pdu(16, start, q, n as u8, &pattern(2, n))));
        }
    }
    v.push(("observe", u, read_pdu(3, 0, 12)));
    v
}

pub fn c08_policies(thorough: bool) -> Vec<PolicySpec> {
    let mut v = vec![];
    if thorough {
        for m in 0..=255u8 {
            v.push(PolicySpec::FcMask(m));
        }
    } else {
        for m in [0x00u8, 0xFF, 0x0F, 0xF0, 0x55, 0xAA, 0x01, 0x02, 0x04, 0x08, 0x10, 0x20, 0x40, 0x80, 0xFE, 0x7F] {
            v.push(PolicySpec::FcMask(m));
        }
    }
    v.push(PolicySpec::UnitIs(1));
    v.push(PolicySpec::UnitIs(2));
    v.push(PolicySpec::UnitIs(99));
    v.push(PolicySpec::StartBelow(8));
    v.push(PolicySpec::StartBelow(3));
    v.push(PolicySpec::CountAtMost(4));
    v.push(PolicySpec::CountAtMost(1));
    v.push(PolicySpec::IndexEven);
    v.push(PolicySpec::RoleIs("operator".into()));
    v.push(PolicySpec::FirstOnly);
    v.push(PolicySpec::Alternate);
    v.push(PolicySpec::BuiltinReadOnly);
    v
}

pub fn check_c08(tier: &str) -> i32 {
    let mut rep = Report::new(
        "C08",
        tier,
        "model_checking",
        "production server session with AuthorizationType::Handler(handler, role): all sequences of <= D requests over a 20-symbol alphabet (eight kinds with two ranges each, requests to unit ids 0 and 255, malformed, unknown function, unconfigured unit, observing read) x policies (per-function masks, unit/range/index/role predicates, stateful first-only and alternating, the built-in read-only policy) x role strings; the interleaved log of authorization and point-handler calls, the reply bytes and the final application state are compared with the reference server. Second phase: every function at quantities {1, 2, 8, 9, maximum} x starts {0, 5, last possible} under every policy, alone and followed by every other such request. Third phase (real TLS server with authorization, rustls peer): client certificates with roles operator / viewer / ' Operator' x policies that allow exactly one role string (6 spellings)",
    );
    let thorough = rep.thorough();
    let depth = if thorough { 4 } else { 3 };
    let apps = app_variants();
    let roles: Vec<String> = vec!["".into(), "operator".into(), "viewer".into(), "Ωμέγα".into(), "r".repeat(300)];
    let mut cfgs = vec![];
    for (pi, p) in c08_policies(thorough).into_iter().enumerate() {
        for (ri, role) in roles.iter().enumerate() {
            // every policy with two roles (all roles for the role-sensitive ones)
            let role_sensitive = matches!(p, PolicySpec::RoleIs(_));
            if !(role_sensitive || thorough && pi % 7 == ri || ri == pi % 5 || ri == 1) {
                continue;
            }
            cfgs.push(ServerCfg {
                rtu: false,
                units: vec![(1, apps[0].clone()), (2, apps[1].clone())],
                auth: Some((p.clone(), role.clone())),
                decode: (0, 0, 0),
            });
            if ri == 1 {
                // the same with the handlers mapped at unit ids 0 and 255
                cfgs.push(ServerCfg {
                    rtu: false,
                    units: vec![(0, apps[0].clone()), (255, apps[1].clone())],
                    auth: Some((p.clone(), role.clone())),
                    decode: (0, 0, 0),
                });
            }
        }
    }
    // RTU framing never carries authorization in production; one TCP config without auth as the
    // differential baseline is part of C01/C02
    rep.bounds = json!({"sequence_depth": depth, "alphabet": 20, "configs": cfgs.len(), "roles": roles.len(), "unit_maps": ["{1,2}", "{0,255}"]});
    let st = explore_sequences("C08", &cfgs, depth, "RH", &c08_alphabet);
    rep.phase("sequences", st, json!({"depth": depth, "configs": cfgs.len()}));
    // every function at boundary quantities and positions, alone and followed by one more request
    let wide_depth = 2;
    let wide_cfgs: Vec<ServerCfg> = cfgs.iter().filter(|c| thorough || matches!(&c.auth, Some((_, r)) if r == "operator")).cloned().collect();
    let n_wide = c08_wide_alphabet(&wide_cfgs[0]).len();
    let st = explore_sequences("C08", &wide_cfgs, wide_depth, "RH", &c08_wide_alphabet);
    rep.phase("boundary quantities and positions", st, json!({"depth": wide_depth, "configs": wide_cfgs.len(), "alphabet": n_wide}));
    // over a real TLS server with authorization: the role is the certificate's, character for character
    let st = crate::checks::tls::c08_tls_phase();
    rep.phase("TLS server with authorization: certificate role x policy role", st, json!({"certificates": 4, "policy_roles": 6}));
    let st = crate::checks::tls::c08_same_subject_phase();
    rep.phase("TLS server with authorization: sessions whose certificates differ only in the role", st, json!({"orders": 5, "kept_open": [false, true]}));
    rep.require_class("tls-authz:same-subject-other-role");
    for c in ["denied", "read-ok", "write-ok", "unconfigured-unit", "unknown-function", "invalid:fc3:count-zero", "tls-authz:allowed", "tls-authz:denied"] {
        rep.require_class(c);
    }
    rep.finish()
}

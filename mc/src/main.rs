//! mc: bounded exhaustive exploration of rodbus against reference models.
//! usage: mc check <ID> <quick|thorough> | mc replay <path>

mod checks;
mod hclient;
mod ffiutil;
mod hserver;
mod net;
mod refmodel;
mod report;
mod sim;

fn usage() -> i32 {
    eprintln!("usage: mc check <C01..C20> <quick|thorough> | mc replay <file>");
    2
}

fn main() {
    sim::trace::install();
    // a panic in the code under test is caught per poll; keep the default hook quiet
    std::panic::set_hook(Box::new(|info| {
        // panics of the code under test are caught per poll and reported as violations;
        // a panic anywhere else is a harness bug and must be visible
        if !sim::IN_POLL.with(|f| f.get()) || std::env::var("MC_PANIC").is_ok() {
            eprintln!("MACHINERY ERROR: harness panic: {info}");
        }
    }));
    let args: Vec<String> = std::env::args().collect();
    sim::enter_thread_runtime();
    let code = match args.get(1).map(|x| x.as_str()) {
        Some("check") if args.len() >= 4 => {
            let tier = args[3].as_str();
            if tier != "quick" && tier != "thorough" {
                usage()
            } else {
                sim::watchdog::start(&args[2], tier, std::time::Duration::from_secs(30), None);
                checks::run(&args[2], tier)
            }
        }
        Some("replay") if args.len() >= 3 => checks::replay(&args[2]),
        // child of the C18 check: C-ABI calls with invalid parameters, isolated in their own process
        Some("c18-child") => checks::ffi::c18_child_main(),
        _ => usage(),
    };
    std::process::exit(code);
}

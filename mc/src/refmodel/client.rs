//! Reference model of the TCP client channel task (DESIGN.md section 15).
//!
//! The model consumes the same events as the harness and says what must be observable after each
//! one: frames on the wire, request completions (with virtual time), listener announcements,
//! connection attempts, whether the transport was dropped and whether the task has ended.

use super::pdu::*;
use std::collections::VecDeque;

#[derive(Clone, Copy, Debug, PartialEq, Eq, Hash, serde::Serialize, serde::Deserialize)]
pub enum MStyle {
    Future,
    Callback,
    Ffi,
}

#[derive(Clone, Debug, PartialEq, Eq, Hash, serde::Serialize, serde::Deserialize)]
pub enum Ev {
    Enable(usize),
    Disable(usize),
    SetDecode(usize),
    Shutdown(usize),
    Submit { handle: usize, style: MStyle, timeout_ms: u64 },
    DropHandle(usize),
    AbortTask,
    ConnectOk,
    ConnectFail,
    /// complete frame with the outstanding transaction id and a correct reply
    ReplyOk,
    ReplyException,
    /// matching transaction id, malformed PDU
    ReplyBad,
    /// first `n` bytes of the correct reply frame
    ReplyPartial(usize),
    /// the rest of a partially delivered frame
    ReplyRest,
    /// a well-formed reply frame whose transaction id is outstanding id minus `back` (wrapping);
    /// while idle: relative to the next id
    ReplyStale(u16),
    /// frame with a bad header (protocol id 1)
    BadHeader,
    ReadError,
    Eof,
    /// the next write on the transport fails
    WriteErrorNext,
    /// back-pressure: the next write on the transport accepts `n` bytes and then stays pending
    WriteBlockNext(usize),
    /// the transport accepts writes again
    WriteUnblock,
    /// advance the clock by this many milliseconds while a write is blocked (no timer is armed)
    AdvanceBy(u64),
    /// advance the clock exactly to the earliest armed timer (deadline or retry wait)
    AdvanceToNext,
    /// advance by one millisecond (earliest timer is further away)
    Advance1,
    /// advance to one millisecond before the earliest armed timer
    AdvanceToJustBefore,
}

#[derive(Clone, Debug, PartialEq, Eq, Hash)]
pub enum OutClass {
    Ok(Values),
    Exception(u8),
    NoConnection,
    Timeout,
    Io(String),
    BadFrame,
    BadResponse,
    Shutdown,
    /// FfiChannel call refused synchronously: exactly one callback with some error
    AnyError,
}

#[derive(Clone, Debug, PartialEq, Eq, Hash)]
pub enum MState {
    Disabled,
    Connecting,
    Connected,
    WaitAfterFailedConnect(u64),
    WaitAfterDisconnect(u64),
    Shutdown,
}

#[derive(Clone, Debug, PartialEq, Eq, Hash, Default)]
pub struct Expected {
    /// frames that must appear on the current transport, in order
    pub wire: Vec<Vec<u8>>,
    /// (request id, outcome) completing during this step (at the current virtual time)
    pub completions: Vec<(usize, OutClass)>,
    pub states: Vec<MState>,
    pub attempts: usize,
    /// the transport of the connection that was open before this step must be dropped
    pub transport_dropped: bool,
    pub task_done: bool,
    /// result of a command call made in this step: Some(true) = Ok, Some(false) = Err(Shutdown)
    pub command_ok: Option<bool>,
    /// a synchronous FfiChannel refusal is expected
    pub ffi_refused: bool,
}

#[derive(Clone, Debug, PartialEq, Eq, Hash)]
pub struct MReq {
    pub id: usize,
    pub handle: usize,
    pub style: MStyle,
    pub timeout_ms: u64,
    pub req: Req,
    pub unit: u8,
}

#[derive(Clone, Debug, PartialEq, Eq, Hash)]
pub enum MCmd {
    Enable,
    Disable,
    SetDecode,
    Shutdown,
    Request(MReq),
}

#[derive(Clone, Debug, PartialEq, Eq, Hash)]
pub enum Phase {
    Disabled,
    Connecting,
    Idle,
    InFlight { req: MReq, tx: u16, deadline: u64 },
    /// the request's frame is partly written and the transport does not take more
    Writing { req: MReq, tx: u16, rest: Vec<u8> },
    WaitFailed(u64),
    WaitDisc(u64),
    Done,
}

#[derive(Clone, Debug, PartialEq, Eq, Hash)]
pub struct ClientModel {
    pub cap: usize,
    pub max_timeouts: Option<usize>,
    pub retry_min: u64,
    pub retry_max: u64,
    pub now: u64,
    pub enabled: bool,
    pub phase: Phase,
    /// commands in the mpsc queue (not yet taken by the task)
    pub chan: VecDeque<MCmd>,
    /// senders waiting for queue space, in order
    pub blocked: VecDeque<(usize, MCmd)>,
    pub next_tx: u16,
    pub timeouts: usize,
    /// current delay of the retry strategy
    pub retry_cur: u64,
    pub handles: Vec<bool>,
    pub next_req: usize,
    /// bytes received on the current connection that do not yet form a complete frame
    pub rxbuf: Vec<u8>,
    /// the not yet delivered remainder of a frame the peer started to send
    pub partial_rest: Option<Vec<u8>>,
    pub write_error_armed: bool,
    pub write_block_armed: Option<usize>,
    /// future-style requests whose caller future is alive: (request id, handle)
    pub caller_futures: Vec<(usize, usize)>,
    /// requests that left the exactly-once accounting (caller dropped its future)
    pub abandoned: Vec<usize>,
    /// requests accepted and not yet completed
    pub open: Vec<usize>,
    pub started: bool,
    pub unit: u8,
    /// RTU framing (no transaction ids: any CRC-valid frame answers the outstanding request)
    pub rtu: bool,
    /// only one session of the request loop is modelled (no connection life-cycle): the session
    /// starts connected, a lost session ends the task
    pub session_only: bool,
}

pub fn request_for(id: usize) -> Req {
    // distinct addresses per request so that cross-talk is visible in the returned indices;
    // the kinds rotate so that every promise type of the client is exercised
    let a = ((id % 4000) as u16) * 16 + 1;
    match id % 4 {
        0 => Req::ReadRegs { fc: 3, start: a, count: 2 },
        1 => Req::WriteSingleReg { addr: a, value: a ^ 0x5A5A },
        2 => Req::ReadBits { fc: 1, start: a, count: 3 },
        _ => Req::WriteMultiCoils { start: a, values: vec![true, false, true] },
    }
}

pub fn reply_values(req: &Req) -> Values {
    match req {
        Req::ReadRegs { start, count, .. } => Values::Regs((0..*count).map(|i| (start + i, start.wrapping_mul(3).wrapping_add(i))).collect()),
        Req::ReadBits { start, count, .. } => Values::Bits((0..*count).map(|i| (start + i, (start + i) % 3 == 0)).collect()),
        Req::WriteSingleReg { addr, value } => Values::EchoReg(*addr, *value),
        Req::WriteSingleCoil { addr, value } => Values::EchoCoil(*addr, *value),
        Req::WriteMultiCoils { .. } | Req::WriteMultiRegs { .. } => {
            let (s, c) = req.span();
            Values::EchoRange(s, c)
        }
    }
}

impl ClientModel {
    pub fn new(cap: usize, max_timeouts: Option<usize>, retry_min: u64, retry_max: u64, handles: usize) -> Self {
        Self {
            cap,
            max_timeouts,
            retry_min,
            retry_max,
            now: 0,
            enabled: false,
            phase: Phase::Disabled,
            chan: VecDeque::new(),
            blocked: VecDeque::new(),
            next_tx: 0,
            timeouts: 0,
            retry_cur: retry_min,
            handles: vec![true; handles],
            next_req: 0,
            rxbuf: vec![],
            partial_rest: None,
            write_error_armed: false,
            write_block_armed: None,
            caller_futures: vec![],
            abandoned: vec![],
            open: vec![],
            started: false,
            unit: 1,
            rtu: false,
            session_only: false,
        }
    }

    pub fn done(&self) -> bool {
        self.phase == Phase::Done
    }

    /// the request loop alone (what `verif::client_session` runs), optionally with RTU framing
    pub fn new_session(cap: usize, max_timeouts: Option<usize>, rtu: bool) -> Self {
        let mut m = Self::new(cap, max_timeouts, 1, 1, 1);
        m.rtu = rtu;
        m.session_only = true;
        m.phase = Phase::Idle;
        m
    }

    fn frame(&self, tx: u16, unit: u8, pdu: &[u8]) -> Vec<u8> {
        if self.rtu {
            rtu_frame(unit, pdu)
        } else {
            mbap_frame(tx, unit, pdu)
        }
    }

    fn closed(&self) -> bool {
        self.handles.iter().all(|h| !*h) && self.blocked.is_empty() && self.caller_futures.is_empty()
    }

    pub fn next_timer(&self) -> Option<u64> {
        match &self.phase {
            Phase::InFlight { deadline, .. } => Some(*deadline),
            Phase::WaitFailed(t) | Phase::WaitDisc(t) => Some(*t),
            _ => None,
        }
    }

    pub fn partial_pending(&self) -> bool {
        !self.rxbuf.is_empty()
    }

    /// the first announcement when the task is first polled
    pub fn start(&mut self) -> Expected {
        self.started = true;
        if self.session_only {
            return Expected::default();
        }
        Expected { states: vec![MState::Disabled], ..Default::default() }
    }

    pub fn enabled_events(&self, max_requests: usize) -> Vec<Ev> {
        let mut v = vec![];
        let alive: Vec<usize> = (0..self.handles.len()).filter(|h| self.handles[*h]).collect();
        for h in &alive {
            v.push(Ev::Enable(*h));
            if self.next_req < max_requests {
                v.push(Ev::Submit { handle: *h, style: MStyle::Future, timeout_ms: 5 });
            }
        }
        if !self.done() {
            match &self.phase {
                Phase::Connecting => {
                    v.push(Ev::ConnectOk);
                    v.push(Ev::ConnectFail);
                }
                Phase::InFlight { .. } => {
                    if self.partial_rest.is_none() {
                        v.push(Ev::ReplyOk);
                        v.push(Ev::ReplyException);
                        v.push(Ev::ReplyBad);
                        v.push(Ev::ReplyPartial(9));
                        v.push(Ev::ReplyStale(1));
                        v.push(Ev::BadHeader);
                    } else {
                        v.push(Ev::ReplyRest);
                    }
                    v.push(Ev::ReadError);
                    v.push(Ev::Eof);
                }
                Phase::Writing { .. } => {
                    v.push(Ev::WriteUnblock);
                }
                Phase::Idle => {
                    if self.partial_rest.is_none() {
                        v.push(Ev::ReplyStale(1));
                        v.push(Ev::BadHeader);
                    } else {
                        v.push(Ev::ReplyRest);
                    }
                    v.push(Ev::ReadError);
                    v.push(Ev::Eof);
                    if !self.write_error_armed && self.write_block_armed.is_none() {
                        v.push(Ev::WriteErrorNext);
                    }
                }
                _ => {}
            }
            if let Some(t) = self.next_timer() {
                v.push(Ev::AdvanceToNext);
                if t > self.now + 1 {
                    v.push(Ev::Advance1);
                }
                if t > self.now + 2 {
                    v.push(Ev::AdvanceToJustBefore);
                }
            }
            v.push(Ev::AbortTask);
        }
        for h in &alive {
            if self.next_req < max_requests {
                v.push(Ev::Submit { handle: *h, style: MStyle::Callback, timeout_ms: 5 });
                v.push(Ev::Submit { handle: *h, style: MStyle::Ffi, timeout_ms: 7 });
            }
            v.push(Ev::Disable(*h));
            v.push(Ev::SetDecode(*h));
            v.push(Ev::Shutdown(*h));
            v.push(Ev::DropHandle(*h));
        }
        v
    }

    fn retry_after_failed(&mut self) -> u64 {
        let d = self.retry_cur;
        self.retry_cur = std::cmp::min(self.retry_cur.saturating_mul(2), self.retry_max);
        d
    }

    fn complete(&mut self, e: &mut Expected, id: usize, out: OutClass) {
        self.open.retain(|x| *x != id);
        self.caller_futures.retain(|x| x.0 != id);
        if !self.abandoned.contains(&id) {
            e.completions.push((id, out));
        }
    }

    /// the task ends: everything still queued fails with shutdown
    fn finish(&mut self, e: &mut Expected, announce: bool) {
        if let Phase::InFlight { req, .. } | Phase::Writing { req, .. } = self.phase.clone() {
            self.complete(e, req.id, OutClass::Shutdown);
        }
        if matches!(self.phase, Phase::Idle | Phase::InFlight { .. } | Phase::Writing { .. }) {
            e.transport_dropped = true;
        }
        self.phase = Phase::Done;
        if announce && !self.session_only {
            e.states.push(MState::Shutdown);
        }
        e.task_done = true;
        let cmds: Vec<MCmd> = self.chan.drain(..).collect();
        for c in cmds {
            if let MCmd::Request(r) = c {
                self.complete(e, r.id, OutClass::Shutdown);
            }
        }
        let blocked: Vec<(usize, MCmd)> = self.blocked.drain(..).collect();
        for (_, c) in blocked {
            if let MCmd::Request(r) = c {
                self.complete(e, r.id, OutClass::Shutdown);
            }
        }
    }

    fn session_lost(&mut self, e: &mut Expected) {
        if self.session_only {
            // the request loop returns; whatever is still queued dies with it
            self.phase = Phase::Idle;
            self.finish(e, false);
            return;
        }
        e.transport_dropped = true;
        self.rxbuf.clear();
        self.partial_rest = None;
        self.write_error_armed = false;
        self.write_block_armed = None;
        e.states.push(MState::WaitAfterDisconnect(self.retry_min));
        self.phase = Phase::WaitDisc(self.now + self.retry_min);
    }

    fn start_connecting(&mut self, e: &mut Expected) {
        e.states.push(MState::Connecting);
        e.attempts += 1;
        self.phase = Phase::Connecting;
    }

    /// take commands from the queue while the task is able to
    fn pump(&mut self, e: &mut Expected) {
        loop {
            if self.done() || matches!(self.phase, Phase::InFlight { .. } | Phase::Writing { .. }) {
                return;
            }
            let cmd = match self.chan.pop_front() {
                Some(c) => c,
                None => {
                    if self.closed() {
                        self.finish(e, true);
                    }
                    return;
                }
            };
            // a waiting sender gets the freed slot
            if let Some((_, c)) = self.blocked.pop_front() {
                self.chan.push_back(c);
            }
            match cmd {
                MCmd::Shutdown => {
                    self.finish(e, true);
                    return;
                }
                MCmd::SetDecode if self.session_only && !self.enabled => {
                    self.finish(e, false);
                    return;
                }
                MCmd::SetDecode => {}
                MCmd::Enable => {
                    if !self.enabled {
                        self.enabled = true;
                        if self.phase == Phase::Disabled && !self.session_only {
                            self.start_connecting(e);
                        }
                    }
                }
                MCmd::Disable if self.session_only => {
                    // the loop ends with "disabled" whenever a setting leaves it disabled
                    self.enabled = false;
                    self.finish(e, false);
                    return;
                }
                MCmd::Disable => {
                    if self.enabled {
                        self.enabled = false;
                        match self.phase {
                            Phase::Idle => {
                                e.transport_dropped = true;
                                self.rxbuf.clear();
        self.partial_rest = None;
                                self.write_error_armed = false;
                            }
                            Phase::Connecting | Phase::WaitFailed(_) | Phase::WaitDisc(_) => {}
                            _ => {}
                        }
                        e.states.push(MState::Disabled);
                        self.phase = Phase::Disabled;
                    }
                }
                MCmd::Request(r) => match self.phase {
                    Phase::Idle => {
                        let tx = self.next_tx;
                        self.next_tx = self.next_tx.wrapping_add(1);
                        if self.write_error_armed {
                            self.complete(e, r.id, OutClass::Io("BrokenPipe".into()));
                            self.session_lost(e);
                        } else if let Some(n) = self.write_block_armed.take() {
                            let f = self.frame(tx, r.unit, &encode_request(&r.req));
                            let n = n.min(f.len() - 1);
                            if n > 0 {
                                e.wire.push(f[..n].to_vec());
                            }
                            self.phase = Phase::Writing { req: r, tx, rest: f[n..].to_vec() };
                        } else {
                            e.wire.push(self.frame(tx, r.unit, &encode_request(&r.req)));
                            let deadline = self.now + r.timeout_ms;
                            self.phase = Phase::InFlight { req: r, tx, deadline };
                        }
                    }
                    _ => {
                        self.complete(e, r.id, OutClass::NoConnection);
                    }
                },
            }
        }
    }

    fn send(&mut self, e: &mut Expected, handle: usize, cmd: MCmd, try_only: bool) {
        if self.done() {
            match cmd {
                MCmd::Request(r) => {
                    if try_only {
                        e.ffi_refused = true;
                        self.complete(e, r.id, OutClass::AnyError);
                    } else {
                        self.complete(e, r.id, OutClass::Shutdown);
                    }
                }
                _ => e.command_ok = Some(false),
            }
            return;
        }
        if self.chan.len() < self.cap && self.blocked.is_empty() {
            if !matches!(cmd, MCmd::Request(_)) {
                e.command_ok = Some(true);
            }
            self.chan.push_back(cmd);
        } else if try_only {
            e.ffi_refused = true;
            if let MCmd::Request(r) = cmd {
                self.complete(e, r.id, OutClass::AnyError);
            }
        } else {
            self.blocked.push_back((handle, cmd));
        }
    }

    /// frames extracted from the connection's byte stream
    fn receive(&mut self, e: &mut Expected, bytes: &[u8]) {
        self.rxbuf.extend_from_slice(bytes);
        let (frames, end) = if self.rtu { parse_rtu_stream(RtuRole::Response, &self.rxbuf) } else { parse_mbap_stream(&self.rxbuf) };
        let consumed = match end {
            StreamEnd::NeedMore(rest) => self.rxbuf.len() - rest,
            StreamEnd::Error(_) => self.rxbuf.len(),
        };
        let is_err = matches!(end, StreamEnd::Error(_));
        self.rxbuf.drain(..consumed);
        for f in frames {
            if let Phase::InFlight { req, tx, .. } = self.phase.clone() {
                if self.rtu || f.tx == Some(tx) {
                    let out = match decode_reply(&req.req, &f.pdu) {
                        ReplyDecode::Ok(v) | ReplyDecode::OkLenient(v) => OutClass::Ok(v),
                        ReplyDecode::Exception(c) => OutClass::Exception(c),
                        ReplyDecode::Other => OutClass::BadResponse,
                    };
                    self.complete(e, req.id, out);
                    self.timeouts = 0;
                    self.phase = Phase::Idle;
                    self.pump(e);
                    if !matches!(self.phase, Phase::Idle | Phase::InFlight { .. }) {
                        // the session ended while processing queued commands: later frames are void
                        return;
                    }
                }
            }
        }
        if is_err {
            if let Phase::InFlight { req, .. } = self.phase.clone() {
                self.complete(e, req.id, OutClass::BadFrame);
            }
            if matches!(self.phase, Phase::Idle | Phase::InFlight { .. }) {
                self.session_lost(e);
                self.pump(e);
            }
        }
    }

    fn io_failure(&mut self, e: &mut Expected, kind: &str) {
        if let Phase::InFlight { req, .. } = self.phase.clone() {
            self.complete(e, req.id, OutClass::Io(kind.into()));
        }
        self.session_lost(e);
        self.pump(e);
    }

    /// bytes the peer sends for a reply-type event (None if the event is not a delivery)
    pub fn delivery(&self, ev: &Ev) -> Option<Vec<u8>> {
        let (req, tx) = match &self.phase {
            Phase::InFlight { req, tx, .. } => (req.req.clone(), *tx),
            _ => (request_for(0), self.next_tx),
        };
        let good = encode_reply(&req, &reply_values(&req));
        match ev {
            Ev::ReplyOk => Some(self.frame(tx, self.unit, &good)),
            Ev::ReplyException => Some(self.frame(tx, self.unit, &[req.fc() | 0x80, 4])),
            // RTU: a well-framed reply for another function (the length of an RTU frame is derived
            // from its function code, so a truncated PDU cannot be framed)
            Ev::ReplyBad if self.rtu => Some(self.frame(tx, self.unit, &[6, 0, 1, 0, 2])),
            Ev::ReplyBad => Some(self.frame(tx, self.unit, &good[..good.len() - 1])),
            Ev::ReplyPartial(n) => {
                let f = self.frame(tx, self.unit, &good);
                Some(f[..(*n).min(f.len() - 1)].to_vec())
            }
            Ev::ReplyStale(back) => Some(self.frame(tx.wrapping_sub(*back), self.unit, &good)),
            // RTU: a frame whose CRC does not verify
            Ev::BadHeader if self.rtu => {
                let mut f = self.frame(tx, self.unit, &good);
                let n = f.len();
                f[n - 1] ^= 0x40;
                Some(f)
            }
            Ev::BadHeader => Some(mbap_raw(tx, 1, (good.len() + 1) as u16, self.unit, &good)),
            _ => None,
        }
    }

    pub fn apply(&mut self, ev: &Ev) -> Expected {
        let mut e = Expected::default();
        match ev {
            Ev::Enable(h) => self.send(&mut e, *h, MCmd::Enable, false),
            Ev::Disable(h) => self.send(&mut e, *h, MCmd::Disable, false),
            Ev::SetDecode(h) => self.send(&mut e, *h, MCmd::SetDecode, false),
            Ev::Shutdown(h) => self.send(&mut e, *h, MCmd::Shutdown, false),
            Ev::Submit { handle, style, timeout_ms } => {
                let id = self.next_req;
                self.next_req += 1;
                let r = MReq { id, handle: *handle, style: *style, timeout_ms: *timeout_ms, req: request_for(id), unit: self.unit };
                self.open.push(id);
                if *style == MStyle::Future {
                    self.caller_futures.push((id, *handle));
                }
                self.send(&mut e, *handle, MCmd::Request(r), *style == MStyle::Ffi);
            }
            Ev::DropHandle(h) => {
                self.handles[*h] = false;
                // the caller's unresolved futures of this handle go away with it
                let gone: Vec<usize> = self.caller_futures.iter().filter(|x| x.1 == *h).map(|x| x.0).collect();
                self.caller_futures.retain(|x| x.1 != *h);
                self.abandoned.extend(gone);
                // senders of this handle still waiting for queue space are cancelled
                let mut kept = VecDeque::new();
                for (bh, c) in self.blocked.drain(..) {
                    if bh == *h {
                        if let MCmd::Request(r) = &c {
                            if r.style == MStyle::Callback {
                                // the command is dropped with the send future: callback fires
                                let id = r.id;
                                self.open.retain(|x| *x != id);
                                e.completions.push((id, OutClass::Shutdown));
                            } else {
                                self.open.retain(|x| *x != r.id);
                            }
                        }
                    } else {
                        kept.push_back((bh, c));
                    }
                }
                self.blocked = kept;
            }
            Ev::AbortTask => {
                self.finish(&mut e, false);
                return e;
            }
            Ev::ConnectOk => {
                self.retry_cur = self.retry_min;
                self.timeouts = 0;
                self.rxbuf.clear();
        self.partial_rest = None;
                self.write_error_armed = false;
                self.write_block_armed = None;
                e.states.push(MState::Connected);
                self.phase = Phase::Idle;
            }
            Ev::ConnectFail => {
                let d = self.retry_after_failed();
                e.states.push(MState::WaitAfterFailedConnect(d));
                self.phase = Phase::WaitFailed(self.now + d);
            }
            Ev::ReplyOk | Ev::ReplyException | Ev::ReplyBad | Ev::ReplyPartial(_) | Ev::ReplyStale(_) | Ev::BadHeader => {
                let bytes = self.delivery(ev).unwrap();
                if let Ev::ReplyPartial(n) = ev {
                    let full = self.delivery(&Ev::ReplyOk).unwrap();
                    self.partial_rest = Some(full[(*n).min(full.len() - 1)..].to_vec());
                }
                self.receive(&mut e, &bytes);
                if self.rxbuf.is_empty() {
                    self.partial_rest = None;
                }
                return e;
            }
            Ev::ReplyRest => {
                let rest = self.partial_rest.take().expect("partial frame pending");
                self.receive(&mut e, &rest);
                return e;
            }
            Ev::ReadError => {
                self.io_failure(&mut e, "ConnectionReset");
                return e;
            }
            Ev::Eof => {
                self.io_failure(&mut e, "UnexpectedEof");
                return e;
            }
            Ev::WriteErrorNext => {
                self.write_error_armed = true;
            }
            Ev::WriteBlockNext(n) => {
                self.write_block_armed = Some(*n);
            }
            Ev::WriteUnblock => {
                if let Phase::Writing { req, tx, rest } = self.phase.clone() {
                    e.wire.push(rest);
                    // the response timeout starts when the request has been transmitted
                    let deadline = self.now + req.timeout_ms;
                    self.phase = Phase::InFlight { req, tx, deadline };
                }
                self.write_block_armed = None;
            }
            Ev::AdvanceBy(ms) => {
                assert!(self.next_timer().is_none(), "AdvanceBy is for states without a timer");
                self.now += ms;
            }
            Ev::AdvanceToNext | Ev::Advance1 | Ev::AdvanceToJustBefore => {
                let t = self.next_timer().expect("timer armed");
                self.now = match ev {
                    Ev::Advance1 => self.now + 1,
                    Ev::AdvanceToJustBefore => t - 1,
                    _ => t,
                };
                if self.now >= t {
                    match self.phase.clone() {
                        Phase::InFlight { req, .. } => {
                            self.complete(&mut e, req.id, OutClass::Timeout);
                            self.timeouts += 1;
                            if self.max_timeouts.map(|m| self.timeouts >= m).unwrap_or(false) {
                                self.session_lost(&mut e);
                            } else {
                                self.phase = Phase::Idle;
                            }
                        }
                        Phase::WaitFailed(_) | Phase::WaitDisc(_) => {
                            self.start_connecting(&mut e);
                        }
                        _ => {}
                    }
                }
            }
        }
        self.pump(&mut e);
        e
    }

}

//! Reference Modbus server: `pdu` decoding applied to plain point tables.
//!
//! `App` is the *application* (the user's point handlers). It is harness code, not rodbus code,
//! so the reference server and the rodbus `RequestHandler` adapter both use (separate clones of)
//! the same `App` type; everything rodbus is responsible for (decoding, validation, dispatch,
//! encoding) is written independently here.

use super::pdu::*;
use std::collections::BTreeMap;

pub const T_COIL: u8 = 0;
pub const T_DISCRETE: u8 = 1;
pub const T_HOLDING: u8 = 2;
pub const T_INPUT: u8 = 3;

#[derive(Clone, Debug, PartialEq, Eq, Hash, Default)]
pub struct App {
    pub bits: [BTreeMap<u16, bool>; 2],
    pub regs: [BTreeMap<u16, u16>; 2],
    /// per (table, address) exception raised when the address is touched
    pub exc: BTreeMap<(u8, u16), u8>,
    /// per write function (5, 6, 15, 16 -> 0..3): exception raised regardless of address
    pub write_exc: [Option<u8>; 4],
    /// addresses that are not in the tables return a pattern (true) or exception 02 (false)
    pub dense: bool,
    /// the application does not store what is written but a transformed value (a command register,
    /// a clamped set-point): registers are stored xor 0x5555, coils inverted. Replies to writes
    /// are echoes of the request whatever the application does with the value.
    pub transform: bool,
}

pub fn pattern_bit(table: u8, addr: u16) -> bool {
    let x = (addr as u32).wrapping_mul(2654435761).wrapping_add(table as u32 * 97);
    (x >> 7) & 1 == 1
}

pub fn pattern_reg(table: u8, addr: u16) -> u16 {
    addr.wrapping_mul(31).wrapping_add(0x1234).wrapping_add(table as u16 * 0x0101)
}

impl App {
    pub fn read_bit(&self, table: u8, addr: u16) -> Result<bool, u8> {
        if let Some(code) = self.exc.get(&(table, addr)) {
            return Err(*code);
        }
        match self.bits[table as usize].get(&addr) {
            Some(x) => Ok(*x),
            None if self.dense => Ok(pattern_bit(table, addr)),
            None => Err(2),
        }
    }
    pub fn read_reg(&self, table: u8, addr: u16) -> Result<u16, u8> {
        if let Some(code) = self.exc.get(&(table, addr)) {
            return Err(*code);
        }
        match self.regs[(table - 2) as usize].get(&addr) {
            Some(x) => Ok(*x),
            None if self.dense => Ok(pattern_reg(table, addr)),
            None => Err(2),
        }
    }
    fn writable(&self, table: u8, addr: u16) -> Result<(), u8> {
        if let Some(code) = self.exc.get(&(table, addr)) {
            return Err(*code);
        }
        let present = if table == T_COIL {
            self.bits[0].contains_key(&addr)
        } else {
            self.regs[0].contains_key(&addr)
        };
        if present || self.dense {
            Ok(())
        } else {
            Err(2)
        }
    }
    pub fn write_single_coil(&mut self, addr: u16, value: bool) -> Result<(), u8> {
        if let Some(code) = self.write_exc[0] {
            return Err(code);
        }
        self.writable(T_COIL, addr)?;
        self.bits[0].insert(addr, value ^ self.transform);
        Ok(())
    }
    pub fn write_single_reg(&mut self, addr: u16, value: u16) -> Result<(), u8> {
        if let Some(code) = self.write_exc[1] {
            return Err(code);
        }
        self.writable(T_HOLDING, addr)?;
        self.regs[0].insert(addr, if self.transform { value ^ 0x5555 } else { value });
        Ok(())
    }
    pub fn write_multi_coils(&mut self, items: &[(u16, bool)]) -> Result<(), u8> {
        if let Some(code) = self.write_exc[2] {
            return Err(code);
        }
        for (a, _) in items {
            self.writable(T_COIL, *a)?;
        }
        for (a, v) in items {
            self.bits[0].insert(*a, *v ^ self.transform);
        }
        Ok(())
    }
    pub fn write_multi_regs(&mut self, items: &[(u16, u16)]) -> Result<(), u8> {
        if let Some(code) = self.write_exc[3] {
            return Err(code);
        }
        for (a, _) in items {
            self.writable(T_HOLDING, *a)?;
        }
        for (a, v) in items {
            self.regs[0].insert(*a, if self.transform { *v ^ 0x5555 } else { *v });
        }
        Ok(())
    }
}

/// One application-level call, as seen by the instrumented handler / the reference server
#[derive(Clone, Debug, PartialEq, Eq, Hash)]
pub enum Call {
    Read { unit: u8, table: u8, addr: u16 },
    WriteSingleCoil { unit: u8, addr: u16, value: bool },
    WriteSingleReg { unit: u8, addr: u16, value: u16 },
    WriteMultiCoils { unit: u8, start: u16, count: u16, items: Vec<(u16, bool)>, len: usize },
    WriteMultiRegs { unit: u8, start: u16, count: u16, items: Vec<(u16, u16)>, len: usize },
    /// authorization query: function code, (start,count) or (index,0), role, answer
    Auth { unit: u8, fc: u8, a: u16, b: u16, role: String, allow: bool },
}

impl Call {
    pub fn is_read(&self) -> bool {
        matches!(self, Call::Read { .. })
    }
}

#[derive(Clone, Copy, Debug, PartialEq, Eq, Hash)]
pub enum Framing {
    Tcp,
    Rtu,
}

/// What the reference server expects for one well-framed request
#[derive(Clone, Debug, PartialEq, Eq)]
pub struct Expect {
    /// acceptable reply PDUs: empty = no reply, otherwise exactly one (a reference server reads the
    /// requested addresses in ascending order and reports the exception of the first one that fails)
    pub replies: Vec<Vec<u8>>,
    /// exact expected calls other than reads (authorization + writes), in order
    pub calls: Vec<Call>,
    /// reads may only touch (unit, table, start..start+count)
    pub read_scope: Option<(u8, u8, u16, u16)>,
    /// classification for statistics
    pub class: String,
}

/// Authorization policy: a pure function of the query (stateful policies keep a counter)
pub trait Policy {
    fn decide(&mut self, unit: u8, fc: u8, a: u16, b: u16, role: &str) -> bool;
}

pub struct RefServer {
    /// true: a write-multiple request whose byte-count field disagrees with its data is invalid
    /// (exception 03); false: the field is ignored. The property does not decide this, so an
    /// implementation may do either (consistently) and the oracle accepts both readings
    pub strict_byte_count: bool,
    pub framing: Framing,
    pub apps: BTreeMap<u8, App>,
    pub auth: Option<(Box<dyn Policy>, String)>,
}

impl RefServer {
    /// Process one frame addressed to `unit` carrying `pdu`
    pub fn handle(&mut self, unit: u8, pdu: &[u8]) -> Expect {
        let broadcast = self.framing == Framing::Rtu && unit == 0;
        let configured = !broadcast && self.apps.contains_key(&unit);
        let none = |class: &str| Expect {
            replies: vec![],
            calls: vec![],
            read_scope: None,
            class: class.to_string(),
        };
        let decoded = match decode_request(pdu) {
            ReqDecode::Ok(_) if self.strict_byte_count && !byte_count_consistent(pdu) => ReqDecode::Invalid(pdu[0], "byte-count"),
            x => x,
        };
        let req = match decoded {
            ReqDecode::Empty => return none("empty"),
            ReqDecode::UnknownFunction(fc) => {
                return if configured {
                    Expect {
                        replies: vec![encode_exception(fc, 1)],
                        calls: vec![],
                        read_scope: None,
                        class: "unknown-function".to_string(),
                    }
                } else {
                    none("unknown-function-not-for-us")
                };
            }
            ReqDecode::Invalid(fc, why) => {
                return if configured {
                    Expect {
                        replies: vec![encode_exception(fc, 3)],
                        calls: vec![],
                        read_scope: None,
                        class: format!("invalid:fc{fc}:{why}"),
                    }
                } else {
                    none(&format!("invalid-not-for-us:fc{fc}:{why}"))
                };
            }
            ReqDecode::Ok(req) => req,
        };
        let fc = req.fc();
        let mut calls = Vec::new();
        if let Some((policy, role)) = self.auth.as_mut() {
            let (a, b) = req.span();
            let allow = policy.decide(unit, fc, a, b, role);
            calls.push(Call::Auth {
                unit,
                fc,
                a,
                b,
                role: role.clone(),
                allow,
            });
            if !allow {
                return Expect {
                    replies: if broadcast {
                        vec![]
                    } else {
                        vec![encode_exception(fc, 1)]
                    },
                    calls,
                    read_scope: None,
                    class: "denied".to_string(),
                };
            }
        }
        if broadcast {
            if !req.is_write() {
                return Expect {
                    replies: vec![],
                    calls,
                    read_scope: None,
                    class: "broadcast-read".to_string(),
                };
            }
            let units: Vec<u8> = self.apps.keys().copied().collect();
            for u in units {
                let (_, c) = Self::apply_write(self.apps.get_mut(&u).unwrap(), u, &req);
                calls.push(c);
            }
            return Expect {
                replies: vec![],
                calls,
                read_scope: None,
                class: "broadcast-write".to_string(),
            };
        }
        let app = match self.apps.get_mut(&unit) {
            None => {
                return Expect {
                    replies: vec![],
                    calls,
                    read_scope: None,
                    class: "unconfigured-unit".to_string(),
                }
            }
            Some(x) => x,
        };
        match &req {
            Req::ReadBits { fc, start, count } => {
                let table = fc - 1;
                let mut vals = Vec::new();
                let mut excs: Vec<u8> = Vec::new();
                for i in 0..*count {
                    let a = start + i;
                    match app.read_bit(table, a) {
                        Ok(v) => vals.push((a, v)),
                        Err(e) => {
                            if excs.is_empty() {
                                excs.push(e)
                            }
                        }
                    }
                }
                let replies = if excs.is_empty() {
                    vec![encode_reply(&req, &Values::Bits(vals))]
                } else {
                    excs.iter().map(|e| encode_exception(*fc, *e)).collect()
                };
                Expect {
                    replies,
                    calls,
                    read_scope: Some((unit, table, *start, *count)),
                    class: if excs.is_empty() { "read-ok" } else { "read-exception" }.to_string(),
                }
            }
            Req::ReadRegs { fc, start, count } => {
                let table = fc - 1;
                let mut vals = Vec::new();
                let mut excs: Vec<u8> = Vec::new();
                for i in 0..*count {
                    let a = start + i;
                    match app.read_reg(table, a) {
                        Ok(v) => vals.push((a, v)),
                        Err(e) => {
                            if excs.is_empty() {
                                excs.push(e)
                            }
                        }
                    }
                }
                let replies = if excs.is_empty() {
                    vec![encode_reply(&req, &Values::Regs(vals))]
                } else {
                    excs.iter().map(|e| encode_exception(*fc, *e)).collect()
                };
                Expect {
                    replies,
                    calls,
                    read_scope: Some((unit, table, *start, *count)),
                    class: if excs.is_empty() { "read-ok" } else { "read-exception" }.to_string(),
                }
            }
            _ => {
                let (res, call) = Self::apply_write(app, unit, &req);
                calls.push(call);
                let reply = match res {
                    Err(code) => encode_exception(fc, code),
                    Ok(()) => {
                        let v = match &req {
                            Req::WriteSingleCoil { addr, value } => Values::EchoCoil(*addr, *value),
                            Req::WriteSingleReg { addr, value } => Values::EchoReg(*addr, *value),
                            _ => {
                                let (s, c) = req.span();
                                Values::EchoRange(s, c)
                            }
                        };
                        encode_reply(&req, &v)
                    }
                };
                Expect {
                    replies: vec![reply],
                    calls,
                    read_scope: None,
                    class: if res.is_ok() { "write-ok" } else { "write-exception" }.to_string(),
                }
            }
        }
    }

    fn apply_write(app: &mut App, unit: u8, req: &Req) -> (Result<(), u8>, Call) {
        match req {
            Req::WriteSingleCoil { addr, value } => (
                app.write_single_coil(*addr, *value),
                Call::WriteSingleCoil {
                    unit,
                    addr: *addr,
                    value: *value,
                },
            ),
            Req::WriteSingleReg { addr, value } => (
                app.write_single_reg(*addr, *value),
                Call::WriteSingleReg {
                    unit,
                    addr: *addr,
                    value: *value,
                },
            ),
            Req::WriteMultiCoils { start, values } => {
                let items: Vec<(u16, bool)> = values
                    .iter()
                    .enumerate()
                    .map(|(i, v)| (start + i as u16, *v))
                    .collect();
                (
                    app.write_multi_coils(&items),
                    Call::WriteMultiCoils {
                        unit,
                        start: *start,
                        count: values.len() as u16,
                        len: items.len(),
                        items,
                    },
                )
            }
            Req::WriteMultiRegs { start, values } => {
                let items: Vec<(u16, u16)> = values
                    .iter()
                    .enumerate()
                    .map(|(i, v)| (start + i as u16, *v))
                    .collect();
                (
                    app.write_multi_regs(&items),
                    Call::WriteMultiRegs {
                        unit,
                        start: *start,
                        count: values.len() as u16,
                        len: items.len(),
                        items,
                    },
                )
            }
            _ => unreachable!(),
        }
    }
}

//! Reference model of the Modbus application protocol (the eight functions rodbus implements).
//! Written from the Modbus Application Protocol specification; shares no code with rodbus.

pub const FUNCTIONS: [u8; 8] = [1, 2, 3, 4, 5, 6, 15, 16];

pub const MAX_READ_BITS: u32 = 2000;
pub const MAX_READ_REGS: u32 = 125;
pub const MAX_WRITE_COILS: u32 = 1968;
pub const MAX_WRITE_REGS: u32 = 123;

#[derive(Clone, Debug, PartialEq, Eq, Hash)]
pub enum Req {
    /// table: 0 coils, 1 discrete inputs
    ReadBits { fc: u8, start: u16, count: u16 },
    /// fc 3 holding, 4 input
    ReadRegs { fc: u8, start: u16, count: u16 },
    WriteSingleCoil { addr: u16, value: bool },
    WriteSingleReg { addr: u16, value: u16 },
    WriteMultiCoils { start: u16, values: Vec<bool> },
    WriteMultiRegs { start: u16, values: Vec<u16> },
}

impl Req {
    pub fn fc(&self) -> u8 {
        match self {
            Req::ReadBits { fc, .. } => *fc,
            Req::ReadRegs { fc, .. } => *fc,
            Req::WriteSingleCoil { .. } => 5,
            Req::WriteSingleReg { .. } => 6,
            Req::WriteMultiCoils { .. } => 15,
            Req::WriteMultiRegs { .. } => 16,
        }
    }
    pub fn is_write(&self) -> bool {
        self.fc() >= 5
    }
    /// (start, count) for ranged requests, (index, 0) for single writes
    pub fn span(&self) -> (u16, u16) {
        match self {
            Req::ReadBits { start, count, .. } | Req::ReadRegs { start, count, .. } => {
                (*start, *count)
            }
            Req::WriteSingleCoil { addr, .. } | Req::WriteSingleReg { addr, .. } => (*addr, 0),
            Req::WriteMultiCoils { start, values } => (*start, values.len() as u16),
            Req::WriteMultiRegs { start, values } => (*start, values.len() as u16),
        }
    }
}

#[derive(Clone, Debug, PartialEq, Eq)]
pub enum ReqDecode {
    /// PDU has no function byte
    Empty,
    /// function code not one of the eight
    UnknownFunction(u8),
    /// function known, body malformed or beyond protocol limits: exception 03
    Invalid(u8, &'static str),
    Ok(Req),
}

pub fn range_ok(start: u16, count: u32, max: u32) -> bool {
    range_check(start, count, max).is_ok()
}

pub fn range_check(start: u16, count: u32, max: u32) -> Result<(), &'static str> {
    if count == 0 {
        return Err("count-zero");
    }
    if (start as u32) + count - 1 > 0xFFFF {
        return Err("address-overflow");
    }
    if count > max {
        return Err("over-limit");
    }
    Ok(())
}

fn be16(b: &[u8]) -> u16 {
    ((b[0] as u16) << 8) | b[1] as u16
}

pub fn unpack_bits(data: &[u8], count: usize) -> Vec<bool> {
    (0..count)
        .map(|i| (data[i / 8] >> (i % 8)) & 1 == 1)
        .collect()
}

pub fn pack_bits(bits: &[bool]) -> Vec<u8> {
    let mut out = vec![0u8; bits.len().div_ceil(8)];
    for (i, b) in bits.iter().enumerate() {
        if *b {
            out[i / 8] |= 1 << (i % 8);
        }
    }
    out
}

/// Server-side decoding of a request PDU (function byte + body)
pub fn decode_request(pdu: &[u8]) -> ReqDecode {
    if pdu.is_empty() {
        return ReqDecode::Empty;
    }
    let fc = pdu[0];
    let body = &pdu[1..];
    match fc {
        1 | 2 | 3 | 4 => {
            if body.len() != 4 {
                return ReqDecode::Invalid(fc, "length");
            }
            let start = be16(&body[0..2]);
            let count = be16(&body[2..4]);
            let max = if fc <= 2 { MAX_READ_BITS } else { MAX_READ_REGS };
            if let Err(why) = range_check(start, count as u32, max) {
                return ReqDecode::Invalid(fc, why);
            }
            if fc <= 2 {
                ReqDecode::Ok(Req::ReadBits { fc, start, count })
            } else {
                ReqDecode::Ok(Req::ReadRegs { fc, start, count })
            }
        }
        5 => {
            if body.len() != 4 {
                return ReqDecode::Invalid(fc, "length");
            }
            let addr = be16(&body[0..2]);
            match be16(&body[2..4]) {
                0xFF00 => ReqDecode::Ok(Req::WriteSingleCoil { addr, value: true }),
                0x0000 => ReqDecode::Ok(Req::WriteSingleCoil { addr, value: false }),
                _ => ReqDecode::Invalid(fc, "coil-value"),
            }
        }
        6 => {
            if body.len() != 4 {
                return ReqDecode::Invalid(fc, "length");
            }
            ReqDecode::Ok(Req::WriteSingleReg {
                addr: be16(&body[0..2]),
                value: be16(&body[2..4]),
            })
        }
        15 | 16 => {
            if body.len() < 5 {
                return ReqDecode::Invalid(fc, "length");
            }
            let start = be16(&body[0..2]);
            let qty = be16(&body[2..4]);
            // body[4] is the byte count: the length of the data is what is validated
            let data = &body[5..];
            if fc == 15 {
                if let Err(why) = range_check(start, qty as u32, MAX_WRITE_COILS) {
                    return ReqDecode::Invalid(fc, why);
                }
                if data.len() != (qty as usize).div_ceil(8) {
                    return ReqDecode::Invalid(fc, "length");
                }
                ReqDecode::Ok(Req::WriteMultiCoils {
                    start,
                    values: unpack_bits(data, qty as usize),
                })
            } else {
                if let Err(why) = range_check(start, qty as u32, MAX_WRITE_REGS) {
                    return ReqDecode::Invalid(fc, why);
                }
                if data.len() != 2 * qty as usize {
                    return ReqDecode::Invalid(fc, "length");
                }
                ReqDecode::Ok(Req::WriteMultiRegs {
                    start,
                    values: data.chunks(2).map(be16).collect(),
                })
            }
        }
        _ => ReqDecode::UnknownFunction(fc),
    }
}

/// For a well-formed write-multiple request: does the byte-count field agree with the data?
/// (a request where it does not is unspecified: processing it and answering exception 03 are
/// both acceptable)
pub fn byte_count_consistent(pdu: &[u8]) -> bool {
    if pdu.len() >= 6 && (pdu[0] == 15 || pdu[0] == 16) {
        pdu[5] as usize == pdu.len() - 6
    } else {
        true
    }
}

/// Is this request inside the protocol limits (what a client is allowed to transmit)?
pub fn request_within_limits(req: &Req) -> bool {
    match req {
        Req::ReadBits { start, count, .. } => range_ok(*start, *count as u32, MAX_READ_BITS),
        Req::ReadRegs { start, count, .. } => range_ok(*start, *count as u32, MAX_READ_REGS),
        Req::WriteSingleCoil { .. } | Req::WriteSingleReg { .. } => true,
        Req::WriteMultiCoils { start, values } => {
            range_ok(*start, values.len() as u32, MAX_WRITE_COILS)
        }
        Req::WriteMultiRegs { start, values } => {
            range_ok(*start, values.len() as u32, MAX_WRITE_REGS)
        }
    }
}

/// Client-side encoding of a request PDU
pub fn encode_request(req: &Req) -> Vec<u8> {
    let mut out = vec![req.fc()];
    match req {
        Req::ReadBits { start, count, .. } | Req::ReadRegs { start, count, .. } => {
            out.extend_from_slice(&start.to_be_bytes());
            out.extend_from_slice(&count.to_be_bytes());
        }
        Req::WriteSingleCoil { addr, value } => {
            out.extend_from_slice(&addr.to_be_bytes());
            out.extend_from_slice(if *value { &[0xFF, 0x00] } else { &[0x00, 0x00] });
        }
        Req::WriteSingleReg { addr, value } => {
            out.extend_from_slice(&addr.to_be_bytes());
            out.extend_from_slice(&value.to_be_bytes());
        }
        Req::WriteMultiCoils { start, values } => {
            out.extend_from_slice(&start.to_be_bytes());
            out.extend_from_slice(&(values.len() as u16).to_be_bytes());
            let data = pack_bits(values);
            out.push(data.len() as u8);
            out.extend_from_slice(&data);
        }
        Req::WriteMultiRegs { start, values } => {
            out.extend_from_slice(&start.to_be_bytes());
            out.extend_from_slice(&(values.len() as u16).to_be_bytes());
            out.push((2 * values.len()) as u8);
            for v in values {
                out.extend_from_slice(&v.to_be_bytes());
            }
        }
    }
    out
}

#[derive(Clone, Debug, PartialEq, Eq, Hash)]
pub enum Values {
    Bits(Vec<(u16, bool)>),
    Regs(Vec<(u16, u16)>),
    EchoCoil(u16, bool),
    EchoReg(u16, u16),
    EchoRange(u16, u16),
}

/// Server-side encoding of a success reply
pub fn encode_reply(req: &Req, values: &Values) -> Vec<u8> {
    let mut out = vec![req.fc()];
    match values {
        Values::Bits(v) => {
            let bits: Vec<bool> = v.iter().map(|x| x.1).collect();
            let data = pack_bits(&bits);
            out.push(data.len() as u8);
            out.extend_from_slice(&data);
        }
        Values::Regs(v) => {
            out.push((2 * v.len()) as u8);
            for (_, x) in v {
                out.extend_from_slice(&x.to_be_bytes());
            }
        }
        Values::EchoCoil(a, v) => {
            out.extend_from_slice(&a.to_be_bytes());
            out.extend_from_slice(if *v { &[0xFF, 0x00] } else { &[0x00, 0x00] });
        }
        Values::EchoReg(a, v) => {
            out.extend_from_slice(&a.to_be_bytes());
            out.extend_from_slice(&v.to_be_bytes());
        }
        Values::EchoRange(s, c) => {
            out.extend_from_slice(&s.to_be_bytes());
            out.extend_from_slice(&c.to_be_bytes());
        }
    }
    out
}

pub fn encode_exception(fc: u8, code: u8) -> Vec<u8> {
    vec![fc | 0x80, code]
}

#[derive(Clone, Debug, PartialEq, Eq, Hash)]
pub enum ReplyDecode {
    Ok(Values),
    /// the reply has exactly the length implied by the request but its byte-count field says
    /// something else: the property neither demands nor forbids acceptance, so either these
    /// values or a non-exception error is acceptable
    OkLenient(Values),
    Exception(u8),
    /// anything else: the request must fail with an error that is not an exception
    Other,
}

/// Client-side decoding of a reply PDU against the request it answers
pub fn decode_reply(req: &Req, pdu: &[u8]) -> ReplyDecode {
    if pdu.is_empty() {
        return ReplyDecode::Other;
    }
    let fc = req.fc();
    let body = &pdu[1..];
    if pdu[0] == (fc | 0x80) {
        return if body.len() == 1 {
            ReplyDecode::Exception(body[0])
        } else {
            ReplyDecode::Other
        };
    }
    if pdu[0] != fc {
        return ReplyDecode::Other;
    }
    match req {
        Req::ReadBits { start, count, .. } => {
            let n = *count as usize;
            if body.len() != 1 + n.div_ceil(8) {
                return ReplyDecode::Other;
            }
            let bits = unpack_bits(&body[1..], n);
            let v = Values::Bits(
                bits.into_iter()
                    .enumerate()
                    .map(|(i, b)| (start.wrapping_add(i as u16), b))
                    .collect(),
            );
            if body[0] as usize == n.div_ceil(8) {
                ReplyDecode::Ok(v)
            } else {
                ReplyDecode::OkLenient(v)
            }
        }
        Req::ReadRegs { start, count, .. } => {
            let n = *count as usize;
            if body.len() != 1 + 2 * n {
                return ReplyDecode::Other;
            }
            let v = Values::Regs(
                body[1..]
                    .chunks(2)
                    .enumerate()
                    .map(|(i, c)| (start.wrapping_add(i as u16), be16(c)))
                    .collect(),
            );
            if body[0] as usize == 2 * n {
                ReplyDecode::Ok(v)
            } else {
                ReplyDecode::OkLenient(v)
            }
        }
        Req::WriteSingleCoil { addr, value } => {
            let expect: [u8; 2] = if *value { [0xFF, 0x00] } else { [0x00, 0x00] };
            if body.len() == 4 && be16(&body[0..2]) == *addr && body[2..4] == expect {
                ReplyDecode::Ok(Values::EchoCoil(*addr, *value))
            } else {
                ReplyDecode::Other
            }
        }
        Req::WriteSingleReg { addr, value } => {
            if body.len() == 4 && be16(&body[0..2]) == *addr && be16(&body[2..4]) == *value {
                ReplyDecode::Ok(Values::EchoReg(*addr, *value))
            } else {
                ReplyDecode::Other
            }
        }
        Req::WriteMultiCoils { .. } | Req::WriteMultiRegs { .. } => {
            let (start, count) = req.span();
            if body.len() == 4 && be16(&body[0..2]) == start && be16(&body[2..4]) == count {
                ReplyDecode::Ok(Values::EchoRange(start, count))
            } else {
                ReplyDecode::Other
            }
        }
    }
}

// ---------------------------------------------------------------------------------------------
// framing
// ---------------------------------------------------------------------------------------------

pub fn mbap_frame(tx: u16, unit: u8, pdu: &[u8]) -> Vec<u8> {
    let mut out = Vec::with_capacity(7 + pdu.len());
    out.extend_from_slice(&tx.to_be_bytes());
    out.extend_from_slice(&[0, 0]);
    out.extend_from_slice(&((pdu.len() + 1) as u16).to_be_bytes());
    out.push(unit);
    out.extend_from_slice(pdu);
    out
}

/// arbitrary header fields (for malformed frames)
pub fn mbap_raw(tx: u16, proto: u16, len_field: u16, unit: u8, pdu: &[u8]) -> Vec<u8> {
    let mut out = Vec::with_capacity(7 + pdu.len());
    out.extend_from_slice(&tx.to_be_bytes());
    out.extend_from_slice(&proto.to_be_bytes());
    out.extend_from_slice(&len_field.to_be_bytes());
    out.push(unit);
    out.extend_from_slice(pdu);
    out
}

#[derive(Clone, Debug, PartialEq, Eq, Hash)]
pub struct Frame {
    pub tx: Option<u16>,
    pub unit: u8,
    pub pdu: Vec<u8>,
}

#[derive(Clone, Debug, PartialEq, Eq, Hash)]
pub enum StreamEnd {
    /// all complete frames consumed; this many bytes of an incomplete frame remain
    NeedMore(usize),
    /// a framing error at this byte offset ends the session
    Error(usize),
}

/// MBAP framing of a whole byte stream: frames depend only on the length field
pub fn parse_mbap_stream(bytes: &[u8]) -> (Vec<Frame>, StreamEnd) {
    let mut frames = Vec::new();
    let mut pos = 0usize;
    loop {
        let rest = &bytes[pos..];
        if rest.len() < 7 {
            return (frames, StreamEnd::NeedMore(rest.len()));
        }
        let tx = be16(&rest[0..2]);
        let proto = be16(&rest[2..4]);
        let len = be16(&rest[4..6]) as usize;
        let unit = rest[6];
        if proto != 0 || len == 0 || len > 254 {
            return (frames, StreamEnd::Error(pos));
        }
        let pdu_len = len - 1;
        if rest.len() < 7 + pdu_len {
            return (frames, StreamEnd::NeedMore(rest.len()));
        }
        frames.push(Frame {
            tx: Some(tx),
            unit,
            pdu: rest[7..7 + pdu_len].to_vec(),
        });
        pos += 7 + pdu_len;
    }
}

/// CRC-16/MODBUS, bit by bit (poly 0xA001 reflected, init 0xFFFF)
pub fn crc16(data: &[u8]) -> u16 {
    let mut crc: u16 = 0xFFFF;
    for b in data {
        crc ^= *b as u16;
        for _ in 0..8 {
            if crc & 1 == 1 {
                crc = (crc >> 1) ^ 0xA001;
            } else {
                crc >>= 1;
            }
        }
    }
    crc
}

pub fn rtu_frame(unit: u8, pdu: &[u8]) -> Vec<u8> {
    let mut out = Vec::with_capacity(3 + pdu.len());
    out.push(unit);
    out.extend_from_slice(pdu);
    let crc = crc16(&out);
    out.push((crc & 0xFF) as u8);
    out.push((crc >> 8) as u8);
    out
}

#[derive(Clone, Copy, Debug, PartialEq, Eq)]
pub enum RtuRole {
    /// parsing requests (server side)
    Request,
    /// parsing responses (client side)
    Response,
}

/// length of the PDU body after the function code, or how to find it
enum RtuLen {
    Fixed(usize),
    /// read `n` more bytes after the function code; the last one is the count of extra bytes
    CountAt(usize),
    Unknown,
}

fn rtu_len(role: RtuRole, fc: u8) -> RtuLen {
    if role == RtuRole::Response && fc & 0x80 != 0 {
        return RtuLen::Fixed(1);
    }
    match (role, fc) {
        (RtuRole::Request, 1..=6) => RtuLen::Fixed(4),
        (RtuRole::Request, 15 | 16) => RtuLen::CountAt(5),
        (RtuRole::Response, 1..=4) => RtuLen::CountAt(1),
        (RtuRole::Response, 5 | 6 | 15 | 16) => RtuLen::Fixed(4),
        _ => RtuLen::Unknown,
    }
}

/// RTU framing of a whole byte stream: the length of a frame is derived from its function code
/// and byte count; a frame is accepted only if its CRC verifies
pub fn parse_rtu_stream(role: RtuRole, bytes: &[u8]) -> (Vec<Frame>, StreamEnd) {
    let mut frames = Vec::new();
    let mut pos = 0usize;
    loop {
        let rest = &bytes[pos..];
        if rest.len() < 2 {
            return (frames, StreamEnd::NeedMore(rest.len()));
        }
        let unit = rest[0];
        let fc = rest[1];
        let body_len = match rtu_len(role, fc) {
            RtuLen::Unknown => return (frames, StreamEnd::Error(pos)),
            RtuLen::Fixed(n) => n,
            RtuLen::CountAt(n) => {
                if rest.len() < 2 + n {
                    return (frames, StreamEnd::NeedMore(rest.len()));
                }
                n + rest[1 + n] as usize
            }
        };
        // function code + body must fit the 253-byte PDU
        if 1 + body_len > 253 {
            return (frames, StreamEnd::Error(pos));
        }
        let total = 1 + 1 + body_len + 2;
        if rest.len() < total {
            return (frames, StreamEnd::NeedMore(rest.len()));
        }
        let crc = crc16(&rest[..total - 2]);
        let got = rest[total - 2] as u16 | ((rest[total - 1] as u16) << 8);
        if crc != got {
            return (frames, StreamEnd::Error(pos));
        }
        frames.push(Frame {
            tx: None,
            unit,
            pdu: rest[1..total - 2].to_vec(),
        });
        pos += total;
    }
}

pub mod pdu;
pub mod server;

pub mod client;
pub mod pdu;
pub mod server;

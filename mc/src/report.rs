//! Evidence files, violation / known-finding reporting, exit codes.

use serde_json::{json, Value};
use std::collections::{BTreeMap, HashSet};
use std::hash::{Hash, Hasher};
use std::time::Instant;

pub const VERIF_DIR: &str = "/verif";

static CURRENT_PROPERTY: std::sync::Mutex<String> = std::sync::Mutex::new(String::new());
static CURRENT_LEVEL: std::sync::Mutex<&'static str> = std::sync::Mutex::new("other");

/// the level of the check that is running (for the evidence written when the watchdog ends a run)
pub fn current_level() -> &'static str {
    *CURRENT_LEVEL.lock().unwrap()
}

/// the property whose check is running (for replay files written by self-guarding runners)
pub fn current_property() -> String {
    CURRENT_PROPERTY.lock().unwrap().clone()
}

#[derive(Clone, Debug)]
pub struct Violation {
    /// stable identity used to match known findings
    pub signature: String,
    pub summary: String,
    /// everything `mc replay` needs to re-execute exactly this case
    pub replay: Value,
}

/// Statistics of one worker / one phase; merged into the report
#[derive(Default)]
pub struct Stats {
    pub evaluations: u64,
    pub transitions: u64,
    pub traces: u64,
    pub states: HashSet<u64>,
    /// hashes of observations, to count distinct non-trivial cases
    pub distinct: HashSet<u64>,
    pub classes: BTreeMap<String, u64>,
    pub violations: Vec<Violation>,
    pub suppressed_violations: u64,
    pub samples: Vec<Value>,
    pub audits: u64,
}

pub fn hash_of<T: Hash>(x: &T) -> u64 {
    let mut h = std::collections::hash_map::DefaultHasher::new();
    x.hash(&mut h);
    h.finish()
}

impl Stats {
    pub fn class(&mut self, c: &str) {
        *self.classes.entry(c.to_string()).or_insert(0) += 1;
    }
    pub fn state<T: Hash>(&mut self, s: &T) {
        self.states.insert(hash_of(s));
    }
    pub fn observe<T: Hash>(&mut self, s: &T) {
        self.distinct.insert(hash_of(s));
    }
    /// (signature, summary) of the violations recorded (for replays of whole phases)
    pub fn violations_as_pairs(&self) -> Vec<(String, String)> {
        self.violations.iter().map(|v| (v.signature.clone(), v.summary.clone())).collect()
    }

    pub fn violation(&mut self, v: Violation) {
        // keep the first few of each signature
        let same = self
            .violations
            .iter()
            .filter(|x| x.signature == v.signature)
            .count();
        if same < 3 && self.violations.len() < 200 {
            self.violations.push(v);
        } else {
            self.suppressed_violations += 1;
        }
    }
    pub fn sample(&mut self, v: Value) {
        if self.samples.len() < 4 {
            self.samples.push(v);
        }
    }
    pub fn merge(&mut self, o: Stats) {
        self.evaluations += o.evaluations;
        self.transitions += o.transitions;
        self.traces += o.traces;
        self.states.extend(o.states);
        self.distinct.extend(o.distinct);
        for (k, v) in o.classes {
            *self.classes.entry(k).or_insert(0) += v;
        }
        for v in o.violations {
            self.violation(v);
        }
        self.suppressed_violations += o.suppressed_violations;
        for s in o.samples {
            if self.samples.len() < 8 {
                self.samples.push(s);
            }
        }
        self.audits += o.audits;
    }
}

pub struct Report {
    pub id: String,
    pub tier: String,
    pub level: &'static str,
    pub rule: String,
    pub start: Instant,
    pub stats: Stats,
    pub bounds: Value,
    pub exhaustive: bool,
    pub caps_hit: Vec<String>,
    pub assumptions: Vec<String>,
    pub phases: Vec<Value>,
    pub machinery_errors: Vec<String>,
    /// classes that must have been observed at least once (vacuity guard)
    pub required_classes: Vec<String>,
}

impl Report {
    pub fn new(id: &str, tier: &str, level: &'static str, rule: &str) -> Self {
        *CURRENT_PROPERTY.lock().unwrap() = id.to_string();
        *CURRENT_LEVEL.lock().unwrap() = level;
        Self {
            id: id.to_string(),
            tier: tier.to_string(),
            level,
            rule: rule.to_string(),
            start: Instant::now(),
            stats: Stats::default(),
            bounds: json!({}),
            exhaustive: true,
            caps_hit: vec![],
            assumptions: vec![],
            phases: vec![],
            machinery_errors: vec![],
            required_classes: vec![],
        }
    }

    pub fn thorough(&self) -> bool {
        self.tier == "thorough"
    }

    /// merge the stats of a named phase and remember its size
    pub fn phase(&mut self, name: &str, s: Stats, detail: Value) {
        self.phases.push(json!({
            "phase": name,
            "evaluations": s.evaluations,
            "transitions": s.transitions,
            "traces": s.traces,
            "violations": s.violations.len() as u64 + s.suppressed_violations,
            "detail": detail,
            "at_s": self.start.elapsed().as_secs_f64(),
        }));
        self.stats.merge(s);
    }

    pub fn require_class(&mut self, c: &str) {
        self.required_classes.push(c.to_string());
    }

    fn known_findings() -> Vec<(String, String, String)> {
        let path = format!("{VERIF_DIR}/known_findings.json");
        let mut out = vec![];
        if let Ok(s) = std::fs::read_to_string(&path) {
            if let Ok(v) = serde_json::from_str::<Value>(&s) {
                if let Some(a) = v.get("findings").and_then(|x| x.as_array()) {
                    for f in a {
                        out.push((
                            f["property"].as_str().unwrap_or("").to_string(),
                            f["signature"].as_str().unwrap_or("").to_string(),
                            f["what_fails"].as_str().unwrap_or("").to_string(),
                        ));
                    }
                }
            }
        }
        out
    }

    /// write the evidence file, print the protocol lines, return the exit code
    pub fn finish(mut self) -> i32 {
        let wall = self.start.elapsed().as_secs_f64();
        // vacuity guards
        for c in &self.required_classes {
            if !self.stats.classes.contains_key(c) {
                self.machinery_errors
                    .push(format!("vacuity guard: class '{c}' was never observed"));
            }
        }
        let known = Self::known_findings();
        let mut unknown: Vec<&Violation> = vec![];
        let mut known_hit: BTreeMap<String, (String, u64)> = BTreeMap::new();
        for v in &self.stats.violations {
            if let Some(k) = known
                .iter()
                .find(|k| k.0 == self.id && k.1 == v.signature)
            {
                let e = known_hit
                    .entry(k.1.clone())
                    .or_insert((k.2.clone(), 0));
                e.1 += 1;
            } else {
                unknown.push(v);
            }
        }
        let _ = std::fs::create_dir_all(format!("{VERIF_DIR}/replays"));
        let _ = std::fs::create_dir_all(format!("{VERIF_DIR}/evidence"));
        let mut lines = vec![];
        for (sig, (what, _n)) in &known_hit {
            lines.push(format!(
                "KNOWN-FINDING: property={} {} [{}]",
                self.id, what, sig
            ));
        }
        let mut seen_sig: HashSet<String> = HashSet::new();
        let mut replay_paths = vec![];
        for v in &unknown {
            let h = hash_of(&(v.signature.clone(), v.summary.clone()));
            let path = format!("{VERIF_DIR}/replays/{}-{:016x}.json", self.id, h);
            let doc = json!({
                "property": self.id,
                "signature": v.signature,
                "summary": v.summary,
                "scenario": v.replay,
            });
            let _ = std::fs::write(&path, serde_json::to_string_pretty(&doc).unwrap());
            replay_paths.push(path.clone());
            if seen_sig.insert(v.signature.clone()) {
                lines.push(format!("VIOLATION property={} replay={}", self.id, path));
                eprintln!("  [{}] {}", v.signature, v.summary);
            }
        }
        let n_viol = unknown.len() as u64 + self.stats.suppressed_violations;
        let mut coverage = json!({
            "evaluations": self.stats.evaluations,
            "distinct_nontrivial": self.stats.distinct.len() as u64,
            "rule": self.rule,
            "samples": self.stats.samples,
            "exhaustive": self.exhaustive && self.caps_hit.is_empty(),
            "bounds": self.bounds,
            "caps_hit": self.caps_hit,
            "outcome_classes": self.stats.classes,
            "phases": self.phases,
            "determinism_audits": self.stats.audits,
            "known_findings_reproduced": known_hit.iter().map(|(k, v)| json!({"signature": k, "count": v.1})).collect::<Vec<_>>(),
            "machinery_errors": self.machinery_errors,
        });
        if self.level == "model_checking" {
            coverage["states"] = json!(self.stats.states.len() as u64);
            coverage["transitions"] = json!(self.stats.transitions);
            coverage["traces_validated_against_impl"] = json!(self.stats.traces);
        }
        let ev = json!({
            "property_id": self.id,
            "tier": self.tier,
            "seed": std::env::var("VERIF_SEED").ok().and_then(|x| x.parse::<i64>().ok()).unwrap_or(0),
            "level": self.level,
            "coverage": coverage,
            "assumptions": self.assumptions,
            "wall_s": wall,
            "violations": n_viol,
        });
        let path = format!("{VERIF_DIR}/evidence/{}.json", self.id);
        if let Err(e) = std::fs::write(&path, serde_json::to_string_pretty(&ev).unwrap()) {
            eprintln!("cannot write evidence {path}: {e}");
            return 2;
        }
        for l in &lines {
            println!("{l}");
        }
        eprintln!(
            "{} {}: evaluations={} states={} transitions={} traces={} distinct={} violations={} known={} wall={:.1}s",
            self.id,
            self.tier,
            self.stats.evaluations,
            self.stats.states.len(),
            self.stats.transitions,
            self.stats.traces,
            self.stats.distinct.len(),
            n_viol,
            known_hit.len(),
            wall
        );
        for (k, v) in &self.stats.classes {
            eprintln!("    class {k}: {v}");
        }
        for e in &self.machinery_errors {
            eprintln!("MACHINERY ERROR: {e}");
        }
        // a violation is a verdict even if the run was cut short by it (vacuity guards only
        // matter for a run that claims the property held)
        if n_viol > 0 {
            1
        } else if !self.machinery_errors.is_empty() {
            2
        } else {
            0
        }
    }
}

/// run `f(index)` for every index in 0..n on `threads` worker threads; results merged in
/// index order so the outcome does not depend on scheduling
pub fn parallel<F>(n: usize, f: F) -> Stats
where
    F: Fn(usize, &mut Stats) + Sync,
{
    let threads = std::thread::available_parallelism()
        .map(|x| x.get())
        .unwrap_or(4)
        .min(16)
        .max(1);
    let next = std::sync::atomic::AtomicUsize::new(0);
    let results: std::sync::Mutex<Vec<(usize, Stats)>> = std::sync::Mutex::new(vec![]);
    std::thread::scope(|s| {
        for _ in 0..threads {
            s.spawn(|| {
                // every worker polls the futures under test inside its own paused runtime
                crate::sim::enter_thread_runtime();
                let mut local: Vec<(usize, Stats)> = vec![];
                loop {
                    let i = next.fetch_add(1, std::sync::atomic::Ordering::SeqCst);
                    if i >= n {
                        break;
                    }
                    let mut st = Stats::default();
                    // catch-all: 20 watchdog limits without any case-level guard being entered or left
                    let describe = || ("job".to_string(), format!("job {i} of {n} of a parallel phase of {} made no progress", current_property()), json!({"kind": "job", "index": i}));
                    crate::sim::watchdog::guard_with(20, &describe, || f(i, &mut st));
                    local.push((i, st));
                }
                results.lock().unwrap().extend(local);
            });
        }
    });
    let mut all = results.into_inner().unwrap();
    all.sort_by_key(|x| x.0);
    let mut total = Stats::default();
    for (_, s) in all {
        total.merge(s);
    }
    total
}

//! E2: the unmodified public rodbus API over real loopback sockets, with peers that the harness
//! builds itself (raw TCP, independent rustls endpoints). Everything that waits has a ceiling.

use crate::hserver::{AppSpec, Log, RecHandler};
use rodbus::server::*;
use rodbus::*;
use std::net::SocketAddr;
use std::path::PathBuf;
use std::sync::{Arc, Mutex, OnceLock};
use std::time::Duration;
use tokio::io::{AsyncReadExt, AsyncWriteExt};
use tokio::net::{TcpListener, TcpStream};
use tokio_rustls::rustls;
use tokio_rustls::rustls::pki_types::pem::PemObject;
use tokio_rustls::rustls::pki_types::{CertificateDer, PrivateKeyDer, ServerName, UnixTime};

pub const CERTS: &str = "/verif/certs";

/// names starting with '@' are certificates minted at run time (see `mint_validity`)
pub fn cert_path(name: &str) -> PathBuf {
    match name.strip_prefix('@') {
        Some(n) => minted_dir().join(format!("{n}_cert.pem")),
        None => PathBuf::from(format!("{CERTS}/{name}_cert.pem")),
    }
}

pub fn key_path(name: &str) -> PathBuf {
    match name.strip_prefix('@') {
        Some(n) => minted_dir().join(format!("{n}_key.pem")),
        None => PathBuf::from(format!("{CERTS}/{name}_key.pem")),
    }
}

/// remove this process' run-time certificates
pub fn cleanup_minted() {
    let _ = std::fs::remove_dir_all(format!("/verif/.target/minted/{}", std::process::id()));
}

fn minted_dir() -> PathBuf {
    let d = PathBuf::from(format!("/verif/.target/minted/{}", std::process::id()));
    let _ = std::fs::create_dir_all(&d);
    d
}

/// (tag, header length, content length) of the DER element starting at `at`
fn der_tlv(b: &[u8], at: usize) -> (u8, usize, usize) {
    let tag = b[at];
    let l0 = b[at + 1] as usize;
    if l0 < 0x80 {
        (tag, 2, l0)
    } else {
        let n = l0 & 0x7F;
        let mut len = 0usize;
        for k in 0..n {
            len = (len << 8) | b[at + 2 + k] as usize;
        }
        (tag, 2 + n, len)
    }
}

fn utc_time(unix: i64) -> String {
    // civil-from-days (Howard Hinnant)
    let days = unix.div_euclid(86400);
    let secs = unix.rem_euclid(86400);
    let z = days + 719468;
    let era = z.div_euclid(146097);
    let doe = z.rem_euclid(146097);
    let yoe = (doe - doe / 1460 + doe / 36524 - doe / 146096) / 365;
    let y = yoe + era * 400;
    let doy = doe - (365 * yoe + yoe / 4 - yoe / 100);
    let mp = (5 * doy + 2) / 153;
    let d = doy - (153 * mp + 2) / 5 + 1;
    let m = if mp < 10 { mp + 3 } else { mp - 9 };
    let y = if m <= 2 { y + 1 } else { y };
    format!("{:02}{:02}{:02}{:02}{:02}{:02}Z", y % 100, m, d, secs / 3600, (secs % 3600) / 60, secs % 60)
}

/// Copy of the pre-minted certificate `base` whose validity period is [now + nb, now + na]
/// seconds, signed again with the RSA key `signer` (its issuer for CA-issued certificates, its own
/// key for self-signed ones). Only the two UTCTime values and the signature change, so no length
/// in the DER structure moves. Returns the name under which `cert_path` / `key_path` find it.
pub fn mint_validity(base: &str, signer: &str, nb: i64, na: i64, tag: &str) -> Result<String, String> {
    let chain = load_chain(base);
    let mut der = chain.first().ok_or("no certificate")?.as_ref().to_vec();
    // Certificate ::= SEQUENCE { tbs, sigAlg, sig }
    let (_, h0, _) = der_tlv(&der, 0);
    let tbs_at = h0;
    let (_, tbs_h, tbs_len) = der_tlv(&der, tbs_at);
    // tbs: [0] version, serial, signature, issuer, validity
    let mut at = tbs_at + tbs_h;
    for _ in 0..4 {
        let (_, h, l) = der_tlv(&der, at);
        at += h + l;
    }
    let (vtag, vh, _) = der_tlv(&der, at);
    if vtag != 0x30 {
        return Err("validity not found".into());
    }
    let now = std::time::SystemTime::now().duration_since(std::time::UNIX_EPOCH).map_err(|e| e.to_string())?.as_secs() as i64;
    let mut t_at = at + vh;
    for off in [nb, na] {
        let (ttag, th, tl) = der_tlv(&der, t_at);
        if ttag != 0x17 || tl != 13 {
            return Err("validity is not a UTCTime".into());
        }
        der[t_at + th..t_at + th + 13].copy_from_slice(utc_time(now + off).as_bytes());
        t_at += th + tl;
    }
    // sign the TBS again
    let tbs = der[tbs_at..tbs_at + tbs_h + tbs_len].to_vec();
    let sig = sign_tbs(signer, &tbs)?;
    // signature BIT STRING is the last element: 03 82 01 01 00 <256 bytes>
    let n = der.len();
    if sig.len() > n || der[n - sig.len() - 1] != 0 {
        return Err("unexpected signature layout".into());
    }
    der[n - sig.len()..].copy_from_slice(&sig);
    write_minted(base, tag, &der)
}

fn sign_tbs(signer: &str, tbs: &[u8]) -> Result<Vec<u8>, String> {
    let key = load_key(signer);
    let pkcs8 = match &key {
        PrivateKeyDer::Pkcs8(k) => k.secret_pkcs8_der().to_vec(),
        _ => return Err("signer key is not PKCS#8".into()),
    };
    let pair = ring::signature::RsaKeyPair::from_pkcs8(&pkcs8).map_err(|e| format!("key: {e}"))?;
    let mut sig = vec![0u8; pair.public().modulus_len()];
    pair.sign(&ring::signature::RSA_PKCS1_SHA256, &ring::rand::SystemRandom::new(), tbs, &mut sig).map_err(|e| format!("sign: {e}"))?;
    Ok(sig)
}

fn write_minted(base: &str, tag: &str, der: &[u8]) -> Result<String, String> {
    let name = format!("{base}-{tag}");
    let b64 = {
        const T: &[u8; 64] = b"ABCDEFGHIJKLMNOPQRSTUVWXYZabcdefghijklmnopqrstuvwxyz0123456789+/";
        let mut o = String::new();
        for c in der.chunks(3) {
            let v = [c[0], *c.get(1).unwrap_or(&0), *c.get(2).unwrap_or(&0)];
            o.push(T[(v[0] >> 2) as usize] as char);
            o.push(T[(((v[0] & 3) << 4) | (v[1] >> 4)) as usize] as char);
            o.push(if c.len() > 1 { T[(((v[1] & 15) << 2) | (v[2] >> 6)) as usize] as char } else { '=' });
            o.push(if c.len() > 2 { T[(v[2] & 63) as usize] as char } else { '=' });
        }
        o
    };
    let mut pem = String::from("-----BEGIN CERTIFICATE-----\n");
    for line in b64.as_bytes().chunks(64) {
        pem.push_str(std::str::from_utf8(line).unwrap());
        pem.push('\n');
    }
    pem.push_str("-----END CERTIFICATE-----\n");
    std::fs::write(minted_dir().join(format!("{name}_cert.pem")), pem).map_err(|e| e.to_string())?;
    std::fs::copy(key_path(base), minted_dir().join(format!("{name}_key.pem"))).map_err(|e| e.to_string())?;
    Ok(format!("@{name}"))
}

/// Copy of the server certificate `base` whose subjectAltName is the single DNS name `name`
/// (any length), signed again with `signer`.
pub fn mint_san(base: &str, signer: &str, name: &str, tag: &str) -> Result<String, String> {
    let chain = load_chain(base);
    let der = chain.first().ok_or("no certificate")?.as_ref().to_vec();
    let (_, h0, _) = der_tlv(&der, 0);
    let (_, tbs_h, tbs_len) = der_tlv(&der, h0);
    let tbs_content = &der[h0 + tbs_h..h0 + tbs_h + tbs_len];
    let after_tbs = &der[h0 + tbs_h + tbs_len..];
    let mut at = 0usize;
    let mut elems: Vec<&[u8]> = vec![];
    while at < tbs_content.len() {
        let (_, h, l) = der_tlv(tbs_content, at);
        elems.push(&tbs_content[at..at + h + l]);
        at += h + l;
    }
    let ext_wrapper = *elems.last().ok_or("empty tbs")?;
    if ext_wrapper[0] != 0xA3 {
        return Err("no extensions".into());
    }
    let (_, wh, _) = der_tlv(ext_wrapper, 0);
    let seq = &ext_wrapper[wh..];
    let (_, sh, sl) = der_tlv(seq, 0);
    let exts = &seq[sh..sh + sl];
    // subjectAltName: OID 2.5.29.17 = 06 03 55 1D 11
    const SAN_OID: [u8; 5] = [0x06, 0x03, 0x55, 0x1D, 0x11];
    let mut at = 0usize;
    let mut out_exts: Vec<u8> = vec![];
    let mut found = false;
    while at < exts.len() {
        let (_, h, l) = der_tlv(exts, at);
        let ext = &exts[at..at + h + l];
        at += h + l;
        if ext[h..].starts_with(&SAN_OID) {
            found = true;
            let names = der_wrap(0x30, &der_wrap(0x82, name.as_bytes()));
            let mut content = SAN_OID.to_vec();
            content.extend(der_wrap(0x04, &names));
            out_exts.extend(der_wrap(0x30, &content));
        } else {
            out_exts.extend_from_slice(ext);
        }
    }
    if !found {
        return Err("subjectAltName not found".into());
    }
    let new_wrapper = der_wrap(0xA3, &der_wrap(0x30, &out_exts));
    let mut new_tbs_content: Vec<u8> = vec![];
    for e in &elems[..elems.len() - 1] {
        new_tbs_content.extend_from_slice(e);
    }
    new_tbs_content.extend(new_wrapper);
    let tbs = der_wrap(0x30, &new_tbs_content);
    let sig = sign_tbs(signer, &tbs)?;
    let (_, ah, al) = der_tlv(after_tbs, 0);
    let alg = &after_tbs[..ah + al];
    let mut bits = vec![0u8];
    bits.extend(sig);
    let mut body = tbs;
    body.extend_from_slice(alg);
    body.extend(der_wrap(0x03, &bits));
    write_minted(base, tag, &der_wrap(0x30, &body))
}

fn der_wrap(tag: u8, content: &[u8]) -> Vec<u8> {
    let mut out = vec![tag];
    let n = content.len();
    if n < 0x80 {
        out.push(n as u8);
    } else if n < 0x100 {
        out.extend([0x81, n as u8]);
    } else {
        out.extend([0x82, (n >> 8) as u8, n as u8]);
    }
    out.extend_from_slice(content);
    out
}

/// Copy of the client certificate `base` (which carries the Modbus role extension once, with the
/// 8-character role "operator") in which that extension appears twice; `roles` gives the text of
/// the first and the second copy (8 characters each). Signed again with `signer`.
pub fn mint_two_roles(base: &str, signer: &str, roles: (&str, &str), tag: &str) -> Result<String, String> {
    mint_roles(base, signer, &[roles.0, roles.1], tag)
}

/// the same with any number of copies of the role extension (one copy: the certificate of `base`
/// with another role - same subject, same key, same everything else)
pub fn mint_roles(base: &str, signer: &str, roles: &[&str], tag: &str) -> Result<String, String> {
    let chain = load_chain(base);
    let der = chain.first().ok_or("no certificate")?.as_ref().to_vec();
    let (_, h0, _) = der_tlv(&der, 0);
    let (_, tbs_h, tbs_len) = der_tlv(&der, h0);
    let tbs_content = &der[h0 + tbs_h..h0 + tbs_h + tbs_len];
    let after_tbs = &der[h0 + tbs_h + tbs_len..];
    // elements of the TBS; the last one is [3] extensions
    let mut at = 0usize;
    let mut elems: Vec<&[u8]> = vec![];
    while at < tbs_content.len() {
        let (_, h, l) = der_tlv(tbs_content, at);
        elems.push(&tbs_content[at..at + h + l]);
        at += h + l;
    }
    let ext_wrapper = *elems.last().ok_or("empty tbs")?;
    if ext_wrapper[0] != 0xA3 {
        return Err("no extensions".into());
    }
    let (_, wh, _) = der_tlv(ext_wrapper, 0);
    let seq = &ext_wrapper[wh..];
    let (_, sh, sl) = der_tlv(seq, 0);
    let exts = &seq[sh..sh + sl];
    const ROLE_OID_TAIL: [u8; 6] = [0x83, 0x89, 0x0C, 0x86, 0x22, 0x01];
    let mut at = 0usize;
    let mut out_exts: Vec<u8> = vec![];
    let mut found = false;
    while at < exts.len() {
        let (_, h, l) = der_tlv(exts, at);
        let ext = &exts[at..at + h + l];
        at += h + l;
        if ext.windows(6).any(|w| w == ROLE_OID_TAIL) {
            found = true;
            for role in roles.iter().copied() {
                if role.len() != 8 {
                    return Err("roles must have 8 characters".into());
                }
                let mut copy = ext.to_vec();
                let pos = copy.windows(8).position(|w| w == b"operator").ok_or("role text not found")?;
                copy[pos..pos + 8].copy_from_slice(role.as_bytes());
                out_exts.extend(copy);
            }
        } else {
            out_exts.extend_from_slice(ext);
        }
    }
    if !found {
        return Err("role extension not found".into());
    }
    let new_wrapper = der_wrap(0xA3, &der_wrap(0x30, &out_exts));
    let mut new_tbs_content: Vec<u8> = vec![];
    for e in &elems[..elems.len() - 1] {
        new_tbs_content.extend_from_slice(e);
    }
    new_tbs_content.extend(new_wrapper);
    let tbs = der_wrap(0x30, &new_tbs_content);
    let sig = sign_tbs(signer, &tbs)?;
    // after the TBS: signatureAlgorithm, then the BIT STRING
    let (_, ah, al) = der_tlv(after_tbs, 0);
    let alg = &after_tbs[..ah + al];
    let mut bits = vec![0u8];
    bits.extend(sig);
    let mut body = tbs;
    body.extend_from_slice(alg);
    body.extend(der_wrap(0x03, &bits));
    write_minted(base, tag, &der_wrap(0x30, &body))
}

/// the real-time multi-threaded runtime used by the net engine
pub fn rt() -> &'static tokio::runtime::Runtime {
    static RT: OnceLock<tokio::runtime::Runtime> = OnceLock::new();
    RT.get_or_init(|| {
        tokio::runtime::Builder::new_multi_thread()
            .worker_threads(8)
            .enable_all()
            .build()
            .expect("net runtime")
    })
}

pub fn provider() -> Arc<rustls::crypto::CryptoProvider> {
    Arc::new(rustls::crypto::ring::default_provider())
}

pub fn load_chain(name: &str) -> Vec<CertificateDer<'static>> {
    // "a+b": the certificate(s) of a followed by those of b (the key is a's)
    if let Some((a, b)) = name.split_once('+') {
        let mut v = load_chain(a);
        v.extend(load_chain(b));
        return v;
    }
    CertificateDer::pem_file_iter(cert_path(name))
        .expect("cert file")
        .map(|c| c.expect("cert"))
        .collect()
}

pub fn load_key(name: &str) -> PrivateKeyDer<'static> {
    let name = name.split_once('+').map(|x| x.0).unwrap_or(name);
    PrivateKeyDer::from_pem_file(key_path(name)).expect("key file")
}

#[derive(Clone, Copy, Debug, PartialEq, Eq, Hash, serde::Serialize, serde::Deserialize)]
pub enum PeerVersions {
    Tls12Only,
    Tls13Only,
    Both,
}

impl PeerVersions {
    pub fn list(&self) -> Vec<&'static rustls::SupportedProtocolVersion> {
        match self {
            PeerVersions::Tls12Only => vec![&rustls::version::TLS12],
            PeerVersions::Tls13Only => vec![&rustls::version::TLS13],
            PeerVersions::Both => vec![&rustls::version::TLS12, &rustls::version::TLS13],
        }
    }
}

/// accepts any server certificate: the verdict under test is rodbus', not the peer's
#[derive(Debug)]
struct AcceptAnyServer(Arc<rustls::crypto::CryptoProvider>);

impl rustls::client::danger::ServerCertVerifier for AcceptAnyServer {
    fn verify_server_cert(
        &self,
        _end_entity: &CertificateDer<'_>,
        _intermediates: &[CertificateDer<'_>],
        _server_name: &ServerName<'_>,
        _ocsp: &[u8],
        _now: UnixTime,
    ) -> Result<rustls::client::danger::ServerCertVerified, rustls::Error> {
        Ok(rustls::client::danger::ServerCertVerified::assertion())
    }
    fn verify_tls12_signature(
        &self,
        message: &[u8],
        cert: &CertificateDer<'_>,
        dss: &rustls::DigitallySignedStruct,
    ) -> Result<rustls::client::danger::HandshakeSignatureValid, rustls::Error> {
        rustls::crypto::verify_tls12_signature(message, cert, dss, &self.0.signature_verification_algorithms)
    }
    fn verify_tls13_signature(
        &self,
        message: &[u8],
        cert: &CertificateDer<'_>,
        dss: &rustls::DigitallySignedStruct,
    ) -> Result<rustls::client::danger::HandshakeSignatureValid, rustls::Error> {
        rustls::crypto::verify_tls13_signature(message, cert, dss, &self.0.signature_verification_algorithms)
    }
    fn supported_verify_schemes(&self) -> Vec<rustls::SignatureScheme> {
        self.0.signature_verification_algorithms.supported_schemes()
    }
}

/// requests a client certificate and accepts whatever is presented
#[derive(Debug)]
struct AcceptAnyClient(Arc<rustls::crypto::CryptoProvider>);

impl rustls::server::danger::ClientCertVerifier for AcceptAnyClient {
    fn root_hint_subjects(&self) -> &[rustls::DistinguishedName] {
        &[]
    }
    fn verify_client_cert(
        &self,
        _end_entity: &CertificateDer<'_>,
        _intermediates: &[CertificateDer<'_>],
        _now: UnixTime,
    ) -> Result<rustls::server::danger::ClientCertVerified, rustls::Error> {
        Ok(rustls::server::danger::ClientCertVerified::assertion())
    }
    fn client_auth_mandatory(&self) -> bool {
        false
    }
    fn verify_tls12_signature(
        &self,
        message: &[u8],
        cert: &CertificateDer<'_>,
        dss: &rustls::DigitallySignedStruct,
    ) -> Result<rustls::client::danger::HandshakeSignatureValid, rustls::Error> {
        rustls::crypto::verify_tls12_signature(message, cert, dss, &self.0.signature_verification_algorithms)
    }
    fn verify_tls13_signature(
        &self,
        message: &[u8],
        cert: &CertificateDer<'_>,
        dss: &rustls::DigitallySignedStruct,
    ) -> Result<rustls::client::danger::HandshakeSignatureValid, rustls::Error> {
        rustls::crypto::verify_tls13_signature(message, cert, dss, &self.0.signature_verification_algorithms)
    }
    fn supported_verify_schemes(&self) -> Vec<rustls::SignatureScheme> {
        self.0.signature_verification_algorithms.supported_schemes()
    }
}

/// an independent TLS client (peer of a rodbus server)
pub fn peer_client_config(versions: PeerVersions, cert: &str) -> Arc<rustls::ClientConfig> {
    let p = provider();
    let cfg = rustls::ClientConfig::builder_with_provider(p.clone())
        .with_protocol_versions(&versions.list())
        .expect("versions")
        .dangerous()
        .with_custom_certificate_verifier(Arc::new(AcceptAnyServer(p)))
        .with_client_auth_cert(load_chain(cert), load_key(cert))
        .expect("client cert");
    Arc::new(cfg)
}

/// an independent TLS server (peer of a rodbus client)
pub fn peer_server_config(versions: PeerVersions, cert: &str) -> Arc<rustls::ServerConfig> {
    let p = provider();
    let cfg = rustls::ServerConfig::builder_with_provider(p.clone())
        .with_protocol_versions(&versions.list())
        .expect("versions")
        .with_client_cert_verifier(Arc::new(AcceptAnyClient(p)))
        .with_single_cert(load_chain(cert), load_key(cert))
        .expect("server cert");
    Arc::new(cfg)
}

pub fn version_name(v: Option<rustls::ProtocolVersion>) -> String {
    match v {
        Some(rustls::ProtocolVersion::TLSv1_2) => "1.2".into(),
        Some(rustls::ProtocolVersion::TLSv1_3) => "1.3".into(),
        Some(x) => format!("{x:?}"),
        None => "none".into(),
    }
}

pub const STEP_TIMEOUT: Duration = Duration::from_secs(5);

/// read exactly n bytes or report what happened within the ceiling
#[derive(Debug, PartialEq, Eq, Clone)]
pub enum ReadOutcome {
    Bytes(Vec<u8>),
    Eof(Vec<u8>),
    Error(String, Vec<u8>),
    Timeout(Vec<u8>),
}

pub async fn read_n<R: AsyncReadExt + Unpin>(r: &mut R, n: usize, ceiling: Duration) -> ReadOutcome {
    let mut buf = vec![0u8; n];
    let mut got = 0usize;
    let deadline = tokio::time::Instant::now() + ceiling;
    while got < n {
        match tokio::time::timeout_at(deadline, r.read(&mut buf[got..])).await {
            Err(_) => return ReadOutcome::Timeout(buf[..got].to_vec()),
            Ok(Ok(0)) => return ReadOutcome::Eof(buf[..got].to_vec()),
            Ok(Ok(k)) => got += k,
            Ok(Err(e)) => return ReadOutcome::Error(format!("{:?}", e.kind()), buf[..got].to_vec()),
        }
    }
    ReadOutcome::Bytes(buf)
}

/// instrumented application shared by the net checks
pub struct NetApp {
    pub log: Log,
    pub map: ServerHandlerMap<RecHandler>,
    pub handlers: Vec<(u8, Arc<Mutex<Box<RecHandler>>>)>,
}

pub fn net_app(units: &[u8]) -> NetApp {
    let log: Log = Arc::new(Mutex::new(vec![]));
    let mut map = ServerHandlerMap::new();
    let mut handlers = vec![];
    for u in units {
        let h = RecHandler { unit: *u, app: AppSpec::dense().build(), log: log.clone() }.wrap();
        map.add(UnitId::new(*u), h.clone());
        handlers.push((*u, h));
    }
    NetApp { log, map, handlers }
}

/// bind a listener on an address with an OS-chosen port
pub async fn listen(ip: &str) -> (TcpListener, SocketAddr) {
    let l = TcpListener::bind(format!("{ip}:0").parse::<SocketAddr>().unwrap())
        .await
        .expect("bind loopback");
    let a = l.local_addr().unwrap();
    (l, a)
}

/// connect from a specific local (source) address
pub async fn connect_from(src_ip: &str, dst: SocketAddr) -> std::io::Result<TcpStream> {
    let src: SocketAddr = format!("{src_ip}:0").parse().unwrap();
    let sock = if src.is_ipv4() { tokio::net::TcpSocket::new_v4()? } else { tokio::net::TcpSocket::new_v6()? };
    sock.bind(src)?;
    // a small fixed receive buffer: a peer that stops reading blocks the server's writes quickly
    let _ = sock.set_recv_buffer_size(8192);
    // and a small send buffer: a peer that pipelines until the server stops reading has little in flight
    let _ = sock.set_send_buffer_size(32 * 1024);
    match tokio::time::timeout(STEP_TIMEOUT, sock.connect(dst)).await {
        Ok(r) => r,
        Err(_) => Err(std::io::Error::from(std::io::ErrorKind::TimedOut)),
    }
}

pub async fn write_all<W: AsyncWriteExt + Unpin>(w: &mut W, b: &[u8]) -> bool {
    matches!(
        tokio::time::timeout(STEP_TIMEOUT, async {
            w.write_all(b).await?;
            w.flush().await
        })
        .await,
        Ok(Ok(()))
    )
}

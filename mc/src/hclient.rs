//! Client-side harness: the production `ClientLoop` / `TcpChannelTask` over the scripted
//! transport, with harness-owned connection outcomes, virtual time and request bookkeeping.

use crate::refmodel::pdu::{Req, Values};
use crate::sim::*;
use rodbus::client::*;
use rodbus::*;
use std::sync::{Arc, Mutex};
use std::time::Duration;
use tokio::time::Instant;

#[derive(Clone, Debug, PartialEq, Eq, Hash)]
pub enum ErrClass {
    Exception(u8),
    Io(String),
    BadFrame,
    BadResponse,
    BadRequest,
    Internal,
    Timeout,
    NoConnection,
    Shutdown,
}

#[derive(Clone, Debug, PartialEq, Eq, Hash)]
pub enum Outcome {
    Ok(Values),
    Err(ErrClass),
}

pub fn classify(e: RequestError) -> ErrClass {
    match e {
        RequestError::Io(k) => ErrClass::Io(format!("{k:?}")),
        // by name (the number table is written out here, the library's own is under test); an
        // `Unknown(n)` carrying the number of a named code is reported as 0x100-proof nonsense: 0
        RequestError::Exception(x) => ErrClass::Exception(match x {
            ExceptionCode::IllegalFunction => 0x01,
            ExceptionCode::IllegalDataAddress => 0x02,
            ExceptionCode::IllegalDataValue => 0x03,
            ExceptionCode::ServerDeviceFailure => 0x04,
            ExceptionCode::Acknowledge => 0x05,
            ExceptionCode::ServerDeviceBusy => 0x06,
            ExceptionCode::MemoryParityError => 0x08,
            ExceptionCode::GatewayPathUnavailable => 0x0A,
            ExceptionCode::GatewayTargetDeviceFailedToRespond => 0x0B,
            ExceptionCode::Unknown(n) if matches!(n, 1..=6 | 8 | 0x0A | 0x0B) => 0,
            ExceptionCode::Unknown(n) => n,
        }),
        RequestError::BadRequest(_) => ErrClass::BadRequest,
        RequestError::BadFrame(_) => ErrClass::BadFrame,
        RequestError::BadResponse(_) => ErrClass::BadResponse,
        RequestError::Internal(_) => ErrClass::Internal,
        RequestError::ResponseTimeout => ErrClass::Timeout,
        RequestError::NoConnection => ErrClass::NoConnection,
        RequestError::Shutdown => ErrClass::Shutdown,
    }
}

#[derive(Clone, Copy, Debug, PartialEq, Eq, Hash, serde::Serialize, serde::Deserialize)]
pub enum Style {
    Future,
    Callback,
    Ffi,
}

/// (request id, outcome, virtual ms since harness start)
pub type Completions = Arc<Mutex<Vec<(usize, Outcome, u64)>>>;

pub struct Clock {
    pub t0: Instant,
}

impl Clock {
    pub fn now_ms(&self) -> u64 {
        (Instant::now() - self.t0).as_millis() as u64
    }
}

fn bits_out(r: Result<Vec<Indexed<bool>>, RequestError>) -> Outcome {
    match r {
        Ok(v) => Outcome::Ok(Values::Bits(v.into_iter().map(|x| (x.index, x.value)).collect())),
        Err(e) => Outcome::Err(classify(e)),
    }
}

fn regs_out(r: Result<Vec<Indexed<u16>>, RequestError>) -> Outcome {
    match r {
        Ok(v) => Outcome::Ok(Values::Regs(v.into_iter().map(|x| (x.index, x.value)).collect())),
        Err(e) => Outcome::Err(classify(e)),
    }
}

fn bits_it_out(r: Result<BitIterator, RequestError>) -> Outcome {
    match r {
        Ok(v) => Outcome::Ok(Values::Bits(v.map(|x| (x.index, x.value)).collect())),
        Err(e) => Outcome::Err(classify(e)),
    }
}

fn regs_it_out(r: Result<RegisterIterator, RequestError>) -> Outcome {
    match r {
        Ok(v) => Outcome::Ok(Values::Regs(v.map(|x| (x.index, x.value)).collect())),
        Err(e) => Outcome::Err(classify(e)),
    }
}

fn coil_out(r: Result<Indexed<bool>, RequestError>) -> Outcome {
    match r {
        Ok(x) => Outcome::Ok(Values::EchoCoil(x.index, x.value)),
        Err(e) => Outcome::Err(classify(e)),
    }
}

fn reg_out(r: Result<Indexed<u16>, RequestError>) -> Outcome {
    match r {
        Ok(x) => Outcome::Ok(Values::EchoReg(x.index, x.value)),
        Err(e) => Outcome::Err(classify(e)),
    }
}

fn range_out(r: Result<AddressRange, RequestError>) -> Outcome {
    match r {
        Ok(x) => Outcome::Ok(Values::EchoRange(x.start, x.count)),
        Err(e) => Outcome::Err(classify(e)),
    }
}

/// Why a request could not even be handed to the channel
#[derive(Clone, Debug, PartialEq, Eq, Hash)]
pub enum Rejected {
    /// `AddressRange::try_from` / `WriteMultiple::from` refused the arguments
    AtConstruction,
    /// the call itself returned an error synchronously (FfiChannel)
    AtCall(String),
}

/// A request in flight from the caller's point of view
pub struct Submitted {
    pub id: usize,
    pub style: Style,
    /// the caller's future (future style: resolves with the outcome; callback style: the
    /// `send` future). None for the synchronous FfiChannel style.
    pub task: Option<Task<()>>,
}

impl Pollable for Submitted {
    fn poll_if_woken(&mut self) -> bool {
        match self.task.as_mut() {
            Some(t) => t.poll_if_woken(),
            None => false,
        }
    }
}

#[allow(deprecated)]
pub fn submit(
    ch: &Channel,
    id: usize,
    req: &Req,
    unit: u8,
    timeout_ms: u64,
    style: Style,
    done: &Completions,
    t0: Instant,
) -> Result<Submitted, Rejected> {
    let param = RequestParam::new(UnitId::new(unit), Duration::from_millis(timeout_ms));
    let range = |s: u16, c: u16| AddressRange::try_from(s, c).map_err(|_| Rejected::AtConstruction);
    let done = done.clone();
    let push = move |o: Outcome| {
        let ms = (Instant::now() - t0).as_millis() as u64;
        done.lock().unwrap().push((id, o, ms));
    };
    match style {
        Style::Future => {
            let ch = ch.clone();
            let task: Task<()> = match req.clone() {
                Req::ReadBits { fc, start, count } => {
                    let r = range(start, count)?;
                    Task::new(async move {
                        let o = if fc == 1 { ch.read_coils(param, r).await } else { ch.read_discrete_inputs(param, r).await };
                        push(bits_out(o));
                    })
                }
                Req::ReadRegs { fc, start, count } => {
                    let r = range(start, count)?;
                    Task::new(async move {
                        let o = if fc == 3 { ch.read_holding_registers(param, r).await } else { ch.read_input_registers(param, r).await };
                        push(regs_out(o));
                    })
                }
                Req::WriteSingleCoil { addr, value } => Task::new(async move {
                    push(coil_out(ch.write_single_coil(param, Indexed::new(addr, value)).await));
                }),
                Req::WriteSingleReg { addr, value } => Task::new(async move {
                    push(reg_out(ch.write_single_register(param, Indexed::new(addr, value)).await));
                }),
                Req::WriteMultiCoils { start, values } => {
                    let w = WriteMultiple::from(start, values).map_err(|_| Rejected::AtConstruction)?;
                    Task::new(async move {
                        push(range_out(ch.write_multiple_coils(param, w).await));
                    })
                }
                Req::WriteMultiRegs { start, values } => {
                    let w = WriteMultiple::from(start, values).map_err(|_| Rejected::AtConstruction)?;
                    Task::new(async move {
                        push(range_out(ch.write_multiple_registers(param, w).await));
                    })
                }
            };
            Ok(Submitted { id, style, task: Some(task) })
        }
        Style::Callback => {
            let mut s = CallbackSession::new(ch.clone(), param);
            let task: Task<()> = match req.clone() {
                Req::ReadBits { fc, start, count } => {
                    let r = range(start, count)?;
                    Task::new(async move {
                        if fc == 1 {
                            s.read_coils(r, move |x| push(bits_it_out(x))).await
                        } else {
                            s.read_discrete_inputs(r, move |x| push(bits_it_out(x))).await
                        }
                    })
                }
                Req::ReadRegs { fc, start, count } => {
                    let r = range(start, count)?;
                    Task::new(async move {
                        if fc == 3 {
                            s.read_holding_registers(r, move |x| push(regs_it_out(x))).await
                        } else {
                            s.read_input_registers(r, move |x| push(regs_it_out(x))).await
                        }
                    })
                }
                Req::WriteSingleCoil { addr, value } => Task::new(async move {
                    s.write_single_coil(Indexed::new(addr, value), move |x| push(coil_out(x))).await
                }),
                Req::WriteSingleReg { addr, value } => Task::new(async move {
                    s.write_single_register(Indexed::new(addr, value), move |x| push(reg_out(x))).await
                }),
                Req::WriteMultiCoils { start, values } => {
                    let w = WriteMultiple::from(start, values).map_err(|_| Rejected::AtConstruction)?;
                    Task::new(async move { s.write_multiple_coils(w, move |x| push(range_out(x))).await })
                }
                Req::WriteMultiRegs { start, values } => {
                    let w = WriteMultiple::from(start, values).map_err(|_| Rejected::AtConstruction)?;
                    Task::new(async move { s.write_multiple_registers(w, move |x| push(range_out(x))).await })
                }
            };
            Ok(Submitted { id, style, task: Some(task) })
        }
        Style::Ffi => {
            let mut f = FfiChannel::new(ch.clone());
            let res = match req.clone() {
                Req::ReadBits { fc, start, count } => {
                    let r = range(start, count)?;
                    if fc == 1 {
                        f.read_coils(param, r, move |x| push(bits_it_out(x)))
                    } else {
                        f.read_discrete_inputs(param, r, move |x| push(bits_it_out(x)))
                    }
                }
                Req::ReadRegs { fc, start, count } => {
                    let r = range(start, count)?;
                    if fc == 3 {
                        f.read_holding_registers(param, r, move |x| push(regs_it_out(x)))
                    } else {
                        f.read_input_registers(param, r, move |x| push(regs_it_out(x)))
                    }
                }
                Req::WriteSingleCoil { addr, value } => {
                    f.write_single_coil(param, Indexed::new(addr, value), move |x| push(coil_out(x)))
                }
                Req::WriteSingleReg { addr, value } => {
                    f.write_single_register(param, Indexed::new(addr, value), move |x| push(reg_out(x)))
                }
                Req::WriteMultiCoils { start, values } => {
                    let w = WriteMultiple::from(start, values).map_err(|_| Rejected::AtConstruction)?;
                    f.write_multiple_coils(param, w, move |x| push(range_out(x)))
                }
                Req::WriteMultiRegs { start, values } => {
                    let w = WriteMultiple::from(start, values).map_err(|_| Rejected::AtConstruction)?;
                    f.write_multiple_registers(param, w, move |x| push(range_out(x)))
                }
            };
            match res {
                Ok(()) => Ok(Submitted { id, style, task: None }),
                Err(e) => Err(Rejected::AtCall(format!("{e:?}"))),
            }
        }
    }
}

// ---------------------------------------------------------------------------------------------
// one connection: the production ClientLoop over a scripted transport
// ---------------------------------------------------------------------------------------------

pub struct ClientSessionHarness {
    pub channel: Option<Channel>,
    pub task: Task<rodbus::verif::SessionEnd>,
    pub io: IoHandle,
    pub done: Completions,
    pub pending: Vec<Submitted>,
    pub next_id: usize,
    pub t0: Instant,
    pub rtu: bool,
}

pub const CLIENT_POLL_BUDGET: u64 = 200_000;

impl ClientSessionHarness {
    pub fn new(rtu: bool, decode: DecodeLevel, max_timeouts: Option<usize>, queue: usize) -> Self {
        let framing = if rtu { rodbus::verif::Framing::Rtu } else { rodbus::verif::Framing::Tcp };
        let (channel, mut session) = rodbus::verif::client_session(
            framing,
            queue,
            decode,
            max_timeouts.and_then(std::num::NonZeroUsize::new),
        );
        let (sio, io) = script_io();
        let task = Task::new(async move { session.run(Box::new(sio)).await });
        Self {
            channel: Some(channel),
            task,
            io,
            done: Arc::new(Mutex::new(vec![])),
            pending: vec![],
            next_id: 0,
            t0: Instant::now(),
            rtu,
        }
    }

    pub fn settle(&mut self) -> bool {
        let mut polls = 0u64;
        loop {
            let mut any = false;
            for p in self.pending.iter_mut() {
                if p.poll_if_woken() {
                    any = true;
                    polls += 1;
                }
            }
            if self.task.poll_if_woken() {
                any = true;
                polls += 1;
            }
            if polls > CLIENT_POLL_BUDGET {
                return false;
            }
            if !any {
                break;
            }
        }
        self.pending.retain(|p| match &p.task {
            Some(t) => !t.is_done(),
            None => false,
        });
        true
    }

    pub fn submit(&mut self, req: &Req, unit: u8, timeout_ms: u64, style: Style) -> Result<usize, Rejected> {
        let id = self.next_id;
        self.next_id += 1;
        let ch = self.channel.as_ref().expect("channel");
        let s = submit(ch, id, req, unit, timeout_ms, style, &self.done, self.t0)?;
        self.pending.push(s);
        Ok(id)
    }

    pub fn take_done(&self) -> Vec<(usize, Outcome, u64)> {
        std::mem::take(&mut *self.done.lock().unwrap())
    }

    pub fn now_ms(&self) -> u64 {
        (Instant::now() - self.t0).as_millis() as u64
    }
}

// ---------------------------------------------------------------------------------------------
// the whole TCP client task with harness-owned connection attempts
// ---------------------------------------------------------------------------------------------

pub struct ConnShared {
    /// every transport handed to the task so far
    pub ios: Vec<IoHandle>,
    /// `Disabled` announcements made while the last transport was still open
    pub disabled_before_close: u32,
    /// virtual ms of every connection attempt
    pub attempts: Vec<u64>,
    pub pending: Option<tokio::sync::oneshot::Sender<std::io::Result<Box<dyn rodbus::verif::Io>>>>,
    pub t0: Instant,
}

pub struct HarnessConnector(pub Arc<Mutex<ConnShared>>);

impl rodbus::verif::Connector for HarnessConnector {
    fn connect(&mut self) -> rodbus::verif::ConnectFuture {
        let (tx, rx) = tokio::sync::oneshot::channel();
        {
            let mut s = self.0.lock().unwrap();
            let ms = (Instant::now() - s.t0).as_millis() as u64;
            s.attempts.push(ms);
            s.pending = Some(tx);
        }
        Box::pin(async move {
            match rx.await {
                Ok(x) => x,
                Err(_) => Err(std::io::Error::from(std::io::ErrorKind::ConnectionAborted)),
            }
        })
    }
}

pub type StateLog = Arc<Mutex<Vec<(ClientState, u64)>>>;

struct RecListener {
    log: StateLog,
    t0: Instant,
    conn: Arc<Mutex<ConnShared>>,
}

impl Listener<ClientState> for RecListener {
    fn update(&mut self, value: ClientState) -> MaybeAsync<()> {
        let ms = (Instant::now() - self.t0).as_millis() as u64;
        if value == ClientState::Disabled {
            // "Disabled after a disable, which also closes an open connection": by the time the
            // application hears Disabled the connection is gone
            let mut c = self.conn.lock().unwrap();
            if c.ios.last().map(|io| !io.is_dropped()).unwrap_or(false) {
                c.disabled_before_close += 1;
            }
        }
        self.log.lock().unwrap().push((value, ms));
        MaybeAsync::ready(())
    }
}

pub struct ClientTaskHarness {
    /// handles held by the application (index = handle number); None once dropped
    pub handles: Vec<Option<Channel>>,
    pub task: Task<()>,
    pub conn: Arc<Mutex<ConnShared>>,
    pub states: StateLog,
    pub done: Completions,
    /// (handle index, submitted request)
    pub pending: Vec<(usize, Submitted)>,
    pub next_id: usize,
    pub t0: Instant,
    /// transports of the connections established so far
    pub ios: Vec<IoHandle>,
}

pub struct ClientTaskCfg {
    pub queue: usize,
    pub max_timeouts: Option<usize>,
    pub retry_min_ms: u64,
    pub retry_max_ms: u64,
    pub decode: DecodeLevel,
    pub handles: usize,
}

impl ClientTaskHarness {
    pub fn new(cfg: &ClientTaskCfg) -> Self {
        let t0 = Instant::now();
        let conn = Arc::new(Mutex::new(ConnShared { ios: vec![], disabled_before_close: 0, attempts: vec![], pending: None, t0 }));
        let states: StateLog = Arc::new(Mutex::new(vec![]));
        let options = ClientOptions::default()
            .decode_level(cfg.decode)
            .max_queued_requests(cfg.queue)
            .max_response_timeouts(cfg.max_timeouts.and_then(std::num::NonZeroUsize::new));
        let (channel, task) = rodbus::verif::tcp_client(
            Box::new(HarnessConnector(conn.clone())),
            doubling_retry_strategy(
                Duration::from_millis(cfg.retry_min_ms),
                Duration::from_millis(cfg.retry_max_ms),
            ),
            Some(Box::new(RecListener { log: states.clone(), t0, conn: conn.clone() })),
            options,
        );
        let mut handles = vec![];
        for _ in 1..cfg.handles {
            handles.push(Some(channel.clone()));
        }
        handles.insert(0, Some(channel));
        Self {
            handles,
            task: Task::new(task.run()),
            conn,
            states,
            done: Arc::new(Mutex::new(vec![])),
            pending: vec![],
            next_id: 0,
            t0,
            ios: vec![],
        }
    }

    pub fn settle(&mut self) -> bool {
        let mut polls = 0u64;
        loop {
            let mut any = false;
            for (_, p) in self.pending.iter_mut() {
                if p.poll_if_woken() {
                    any = true;
                    polls += 1;
                }
            }
            if self.task.poll_if_woken() {
                any = true;
                polls += 1;
            }
            if polls > CLIENT_POLL_BUDGET {
                return false;
            }
            if !any {
                break;
            }
        }
        self.pending.retain(|(_, p)| match &p.task {
            Some(t) => !t.is_done(),
            None => false,
        });
        true
    }

    /// poll only the tasks of callers (requests, handle calls): what they send is queued for the
    /// client task, which is not polled
    pub fn settle_callers(&mut self) -> bool {
        let mut polls = 0u64;
        loop {
            let mut any = false;
            for (_, p) in self.pending.iter_mut() {
                if p.poll_if_woken() {
                    any = true;
                    polls += 1;
                }
            }
            if polls > CLIENT_POLL_BUDGET {
                return false;
            }
            if !any {
                return true;
            }
        }
    }

    pub fn now_ms(&self) -> u64 {
        (Instant::now() - self.t0).as_millis() as u64
    }

    pub fn take_done(&self) -> Vec<(usize, Outcome, u64)> {
        std::mem::take(&mut *self.done.lock().unwrap())
    }

    pub fn take_states(&self) -> Vec<(ClientState, u64)> {
        std::mem::take(&mut *self.states.lock().unwrap())
    }

    pub fn take_attempts(&self) -> Vec<u64> {
        std::mem::take(&mut self.conn.lock().unwrap().attempts)
    }

    /// is a connection attempt waiting for the environment's answer?
    pub fn attempt_pending(&self) -> bool {
        match &self.conn.lock().unwrap().pending {
            Some(tx) => !tx.is_closed(),
            None => false,
        }
    }

    /// answer the pending attempt with a new scripted transport
    pub fn connect_ok(&mut self) -> bool {
        let tx = self.conn.lock().unwrap().pending.take();
        match tx {
            Some(tx) => {
                let (sio, io) = script_io();
                let ok = tx.send(Ok(Box::new(sio) as Box<dyn rodbus::verif::Io>)).is_ok();
                if ok {
                    self.conn.lock().unwrap().ios.push(io.clone());
                    self.ios.push(io);
                }
                ok
            }
            None => false,
        }
    }

    pub fn connect_fail(&mut self, kind: std::io::ErrorKind) -> bool {
        let tx = self.conn.lock().unwrap().pending.take();
        match tx {
            Some(tx) => tx.send(Err(std::io::Error::from(kind))).is_ok(),
            None => false,
        }
    }

    pub fn io(&self) -> Option<&IoHandle> {
        self.ios.last()
    }

    pub fn submit(&mut self, handle: usize, req: &Req, unit: u8, timeout_ms: u64, style: Style) -> Result<usize, Rejected> {
        let id = self.next_id;
        self.next_id += 1;
        let ch = self.handles[handle].as_ref().expect("handle alive");
        let s = submit(ch, id, req, unit, timeout_ms, style, &self.done, self.t0)?;
        self.pending.push((handle, s));
        Ok(id)
    }
}

//! Server-side harness: the production `SessionTask` over the scripted transport, with an
//! instrumented application, plus the step oracle that compares it with `RefServer`.

use crate::refmodel::pdu::{self, Frame};
use crate::refmodel::server::*;
use crate::sim::*;
use rodbus::server::*;
use rodbus::*;
use serde::{Deserialize, Serialize};
use std::collections::BTreeMap;
use std::sync::{Arc, Mutex};

pub type Log = Arc<Mutex<Vec<Call>>>;

pub struct RecHandler {
    pub unit: u8,
    pub app: App,
    pub log: Log,
}

fn ex(code: u8) -> ExceptionCode {
    // the named variants by their numbers in the Modbus application protocol (written out here: the
    // library's own number table is part of what is checked)
    match code {
        0x01 => ExceptionCode::IllegalFunction,
        0x02 => ExceptionCode::IllegalDataAddress,
        0x03 => ExceptionCode::IllegalDataValue,
        0x04 => ExceptionCode::ServerDeviceFailure,
        0x05 => ExceptionCode::Acknowledge,
        0x06 => ExceptionCode::ServerDeviceBusy,
        0x08 => ExceptionCode::MemoryParityError,
        0x0A => ExceptionCode::GatewayPathUnavailable,
        0x0B => ExceptionCode::GatewayTargetDeviceFailedToRespond,
        x => ExceptionCode::Unknown(x),
    }
}

impl RequestHandler for RecHandler {
    fn read_coil(&self, address: u16) -> Result<bool, ExceptionCode> {
        self.log.lock().unwrap().push(Call::Read { unit: self.unit, table: T_COIL, addr: address });
        self.app.read_bit(T_COIL, address).map_err(ex)
    }
    fn read_discrete_input(&self, address: u16) -> Result<bool, ExceptionCode> {
        self.log.lock().unwrap().push(Call::Read { unit: self.unit, table: T_DISCRETE, addr: address });
        self.app.read_bit(T_DISCRETE, address).map_err(ex)
    }
    fn read_holding_register(&self, address: u16) -> Result<u16, ExceptionCode> {
        self.log.lock().unwrap().push(Call::Read { unit: self.unit, table: T_HOLDING, addr: address });
        self.app.read_reg(T_HOLDING, address).map_err(ex)
    }
    fn read_input_register(&self, address: u16) -> Result<u16, ExceptionCode> {
        self.log.lock().unwrap().push(Call::Read { unit: self.unit, table: T_INPUT, addr: address });
        self.app.read_reg(T_INPUT, address).map_err(ex)
    }
    fn write_single_coil(&mut self, value: Indexed<bool>) -> Result<(), ExceptionCode> {
        self.log.lock().unwrap().push(Call::WriteSingleCoil { unit: self.unit, addr: value.index, value: value.value });
        self.app.write_single_coil(value.index, value.value).map_err(ex)
    }
    fn write_single_register(&mut self, value: Indexed<u16>) -> Result<(), ExceptionCode> {
        self.log.lock().unwrap().push(Call::WriteSingleReg { unit: self.unit, addr: value.index, value: value.value });
        self.app.write_single_reg(value.index, value.value).map_err(ex)
    }
    fn write_multiple_coils(&mut self, values: WriteCoils) -> Result<(), ExceptionCode> {
        let len = values.iterator.len();
        let items: Vec<(u16, bool)> = values.iterator.map(|x| (x.index, x.value)).collect();
        self.log.lock().unwrap().push(Call::WriteMultiCoils {
            unit: self.unit,
            start: values.range.start,
            count: values.range.count,
            items: items.clone(),
            len,
        });
        self.app.write_multi_coils(&items).map_err(ex)
    }
    fn write_multiple_registers(&mut self, values: WriteRegisters) -> Result<(), ExceptionCode> {
        let len = values.iterator.len();
        let items: Vec<(u16, u16)> = values.iterator.map(|x| (x.index, x.value)).collect();
        self.log.lock().unwrap().push(Call::WriteMultiRegs {
            unit: self.unit,
            start: values.range.start,
            count: values.range.count,
            items: items.clone(),
            len,
        });
        self.app.write_multi_regs(&items).map_err(ex)
    }
}

// ---------------------------------------------------------------------------------------------
// authorization policies (application code, shared by the model and the adapter)
// ---------------------------------------------------------------------------------------------

#[derive(Clone, Debug, PartialEq, Eq, Hash, Serialize, Deserialize)]
pub enum PolicySpec {
    /// bit i set = function FUNCTIONS[i] allowed
    FcMask(u8),
    UnitIs(u8),
    StartBelow(u16),
    CountAtMost(u16),
    IndexEven,
    RoleIs(String),
    /// allow exactly the first query, deny all later ones
    FirstOnly,
    /// allow, deny, allow, deny, ...
    Alternate,
    /// rodbus' own ReadOnlyAuthorizationHandler
    BuiltinReadOnly,
}

pub struct PolicyState {
    pub spec: PolicySpec,
    pub n: u32,
}

impl Policy for PolicyState {
    fn decide(&mut self, unit: u8, fc: u8, a: u16, b: u16, role: &str) -> bool {
        let n = self.n;
        self.n += 1;
        match &self.spec {
            PolicySpec::FcMask(m) => {
                let idx = pdu::FUNCTIONS.iter().position(|x| *x == fc).unwrap();
                (m >> idx) & 1 == 1
            }
            PolicySpec::UnitIs(u) => unit == *u,
            PolicySpec::StartBelow(x) => a < *x,
            // single writes have no count: treated as one point
            PolicySpec::CountAtMost(x) => b.max(1) <= *x,
            PolicySpec::IndexEven => a % 2 == 0,
            PolicySpec::RoleIs(r) => role == r,
            PolicySpec::FirstOnly => n == 0,
            PolicySpec::Alternate => n % 2 == 0,
            // the documented behaviour of the built-in policy
            PolicySpec::BuiltinReadOnly => fc <= 4,
        }
    }
}

struct AuthAdapter {
    policy: Mutex<PolicyState>,
    builtin: Option<Arc<dyn AuthorizationHandler>>,
    log: Log,
}

impl AuthAdapter {
    fn q(&self, unit: UnitId, fc: u8, a: u16, b: u16, role: &str) -> Authorization {
        let allow = match &self.builtin {
            Some(h) => {
                let r = match fc {
                    1 => h.read_coils(unit, AddressRange { start: a, count: b }, role),
                    2 => h.read_discrete_inputs(unit, AddressRange { start: a, count: b }, role),
                    3 => h.read_holding_registers(unit, AddressRange { start: a, count: b }, role),
                    4 => h.read_input_registers(unit, AddressRange { start: a, count: b }, role),
                    5 => h.write_single_coil(unit, a, role),
                    6 => h.write_single_register(unit, a, role),
                    15 => h.write_multiple_coils(unit, AddressRange { start: a, count: b }, role),
                    _ => h.write_multiple_registers(unit, AddressRange { start: a, count: b }, role),
                };
                r == Authorization::Allow
            }
            None => self.policy.lock().unwrap().decide(unit.value, fc, a, b, role),
        };
        self.log.lock().unwrap().push(Call::Auth {
            unit: unit.value,
            fc,
            a,
            b,
            role: role.to_string(),
            allow,
        });
        if allow {
            Authorization::Allow
        } else {
            Authorization::Deny
        }
    }
}

impl AuthorizationHandler for AuthAdapter {
    fn read_coils(&self, u: UnitId, r: AddressRange, role: &str) -> Authorization {
        self.q(u, 1, r.start, r.count, role)
    }
    fn read_discrete_inputs(&self, u: UnitId, r: AddressRange, role: &str) -> Authorization {
        self.q(u, 2, r.start, r.count, role)
    }
    fn read_holding_registers(&self, u: UnitId, r: AddressRange, role: &str) -> Authorization {
        self.q(u, 3, r.start, r.count, role)
    }
    fn read_input_registers(&self, u: UnitId, r: AddressRange, role: &str) -> Authorization {
        self.q(u, 4, r.start, r.count, role)
    }
    fn write_single_coil(&self, u: UnitId, idx: u16, role: &str) -> Authorization {
        self.q(u, 5, idx, 0, role)
    }
    fn write_single_register(&self, u: UnitId, idx: u16, role: &str) -> Authorization {
        self.q(u, 6, idx, 0, role)
    }
    fn write_multiple_coils(&self, u: UnitId, r: AddressRange, role: &str) -> Authorization {
        self.q(u, 15, r.start, r.count, role)
    }
    fn write_multiple_registers(&self, u: UnitId, r: AddressRange, role: &str) -> Authorization {
        self.q(u, 16, r.start, r.count, role)
    }
}

// ---------------------------------------------------------------------------------------------
// configuration
// ---------------------------------------------------------------------------------------------

#[derive(Clone, Debug, PartialEq, Eq, Hash, Serialize, Deserialize)]
pub struct AppSpec {
    /// explicit points: (table, address, value)
    pub points: Vec<(u8, u16, u16)>,
    pub exc: Vec<(u8, u16, u8)>,
    pub write_exc: [Option<u8>; 4],
    pub dense: bool,
    #[serde(default)]
    pub transform: bool,
}

impl AppSpec {
    pub fn build(&self) -> App {
        let mut app = App {
            dense: self.dense,
            write_exc: self.write_exc,
            transform: self.transform,
            ..Default::default()
        };
        for (t, a, v) in &self.points {
            if *t < 2 {
                app.bits[*t as usize].insert(*a, *v != 0);
            } else {
                app.regs[(*t - 2) as usize].insert(*a, *v);
            }
        }
        for (t, a, c) in &self.exc {
            app.exc.insert((*t, *a), *c);
        }
        app
    }
    pub fn dense() -> Self {
        AppSpec { points: vec![], exc: vec![], write_exc: [None; 4], dense: true, transform: false }
    }
}

#[derive(Clone, Debug, PartialEq, Eq, Hash, Serialize, Deserialize)]
pub struct ServerCfg {
    pub rtu: bool,
    pub units: Vec<(u8, AppSpec)>,
    pub auth: Option<(PolicySpec, String)>,
    /// (app, frame, phys) as 0..3, 0..2, 0..2
    pub decode: (u8, u8, u8),
}

pub fn decode_level(d: (u8, u8, u8)) -> DecodeLevel {
    DecodeLevel {
        app: match d.0 {
            0 => AppDecodeLevel::Nothing,
            1 => AppDecodeLevel::FunctionCode,
            2 => AppDecodeLevel::DataHeaders,
            _ => AppDecodeLevel::DataValues,
        },
        frame: match d.1 {
            0 => FrameDecodeLevel::Nothing,
            1 => FrameDecodeLevel::Header,
            _ => FrameDecodeLevel::Payload,
        },
        physical: match d.2 {
            0 => PhysDecodeLevel::Nothing,
            1 => PhysDecodeLevel::Length,
            _ => PhysDecodeLevel::Data,
        },
    }
}

impl ServerCfg {
    pub fn framing(&self) -> Framing {
        if self.rtu {
            Framing::Rtu
        } else {
            Framing::Tcp
        }
    }
    pub fn model(&self) -> RefServer {
        self.model_with(false)
    }
    pub fn model_with(&self, strict_byte_count: bool) -> RefServer {
        RefServer {
            strict_byte_count,
            framing: self.framing(),
            apps: self.units.iter().map(|(u, a)| (*u, a.build())).collect(),
            auth: self.auth.as_ref().map(|(p, r)| {
                (
                    Box::new(PolicyState { spec: p.clone(), n: 0 }) as Box<dyn Policy>,
                    r.clone(),
                )
            }),
        }
    }
}

// ---------------------------------------------------------------------------------------------
// the harness
// ---------------------------------------------------------------------------------------------

pub struct ServerHarness {
    pub task: Task<RequestError>,
    pub io: IoHandle,
    pub handle: Option<ServerHandle>,
    pub log: Log,
    pub handlers: Vec<(u8, Arc<Mutex<Box<RecHandler>>>)>,
    pub rtu: bool,
}

pub const POLL_BUDGET: u64 = 100_000;

impl ServerHarness {
    pub fn new(cfg: &ServerCfg) -> Self {
        let log: Log = Arc::new(Mutex::new(vec![]));
        let mut map = ServerHandlerMap::new();
        let mut handlers = vec![];
        for (u, spec) in &cfg.units {
            let h = RecHandler { unit: *u, app: spec.build(), log: log.clone() }.wrap();
            map.add(UnitId::new(*u), h.clone());
            handlers.push((*u, h));
        }
        let auth = cfg.auth.as_ref().map(|(p, role)| {
            let a: Arc<dyn AuthorizationHandler> = Arc::new(AuthAdapter {
                policy: Mutex::new(PolicyState { spec: p.clone(), n: 0 }),
                builtin: if *p == PolicySpec::BuiltinReadOnly {
                    Some(ReadOnlyAuthorizationHandler::create())
                } else {
                    None
                },
                log: log.clone(),
            });
            (a, role.clone())
        });
        let framing = if cfg.rtu { rodbus::verif::Framing::Rtu } else { rodbus::verif::Framing::Tcp };
        let (handle, mut session) =
            rodbus::verif::server_session(framing, map, auth, decode_level(cfg.decode));
        let (sio, io) = script_io();
        let task = Task::new(async move { session.run(Box::new(sio)).await });
        Self { task, io, handle: Some(handle), log, handlers, rtu: cfg.rtu }
    }

    /// run to quiescence; false = poll budget exceeded
    pub fn settle(&mut self) -> bool {
        run_until_quiescent(&mut [&mut self.task], POLL_BUDGET).is_some()
    }

    pub fn take_calls(&self) -> Vec<Call> {
        std::mem::take(&mut *self.log.lock().unwrap())
    }

    pub fn apps(&self) -> BTreeMap<u8, App> {
        self.handlers
            .iter()
            .map(|(u, h)| (*u, h.lock().unwrap().app.clone()))
            .collect()
    }

    pub fn frame(&self, tx: u16, unit: u8, pdu: &[u8]) -> Vec<u8> {
        if self.rtu {
            pdu::rtu_frame(unit, pdu)
        } else {
            pdu::mbap_frame(tx, unit, pdu)
        }
    }
}

/// What was observed after delivering one well-framed request
pub struct StepObs {
    pub written: Vec<Vec<u8>>,
    pub calls: Vec<Call>,
    pub ended: Option<String>,
    pub panicked: Option<String>,
    pub budget_exceeded: bool,
}

impl ServerHarness {
    pub fn deliver_and_observe(&mut self, bytes: &[u8]) -> StepObs {
        self.io.deliver(bytes);
        let ok = self.settle();
        StepObs {
            written: self.io.take_written(),
            calls: self.take_calls(),
            ended: self.task.output.as_ref().map(|e| format!("{e:?}")),
            panicked: self.task.panicked.clone(),
            budget_exceeded: !ok,
        }
    }
}

/// Compare one step with the reference expectation. Returns a list of (signature, description).
pub fn judge_step(
    rtu: bool,
    frame: &Frame,
    expect: &Expect,
    obs: &StepObs,
) -> Vec<(String, String)> {
    let mut out = vec![];
    if let Some(p) = &obs.panicked {
        out.push(("panic".to_string(), format!("session panicked: {p}")));
    } else if obs.budget_exceeded {
        out.push(("busy-loop".to_string(), "poll budget exceeded".to_string()));
    } else if let Some(e) = &obs.ended {
        out.push((
            format!("session-ended:{}", expect.class),
            format!("session ended ({e}) on a well-framed request"),
        ));
    }
    // a session that died is reported as such, not through its missing reply; the handler calls
    // it made before dying are judged like any others
    let died = !out.is_empty();
    // reply bytes
    let written: Vec<u8> = obs.written.concat();
    let acceptable: Vec<Vec<u8>> = if expect.replies.is_empty() {
        vec![vec![]]
    } else {
        expect
            .replies
            .iter()
            .map(|p| {
                if rtu {
                    pdu::rtu_frame(frame.unit, p)
                } else {
                    pdu::mbap_frame(frame.tx.unwrap_or(0), frame.unit, p)
                }
            })
            .collect()
    };
    if died {
    } else if !acceptable.iter().any(|a| *a == written) {
        let kind = if expect.replies.is_empty() {
            "unexpected-reply"
        } else if written.is_empty() {
            "missing-reply"
        } else {
            "wrong-reply"
        };
        out.push((
            format!("{kind}:{}", expect.class),
            format!(
                "class {}: expected {} got {}",
                expect.class,
                acceptable.iter().map(|x| hex(x)).collect::<Vec<_>>().join(" | "),
                hex(&written)
            ),
        ));
    } else if !written.is_empty() && obs.written.len() != 1 {
        // the reply must be one frame; AcceptAtMost write modes are not used by this oracle
        out.push((
            format!("reply-split:{}", expect.class),
            format!("reply written in {} pieces", obs.written.len()),
        ));
    }
    // calls: exact for authorization + writes, scope for reads
    let mut non_reads: Vec<&Call> = obs.calls.iter().filter(|c| !c.is_read()).collect();
    let mut exp_refs: Vec<&Call> = expect.calls.iter().collect();
    if expect.class == "broadcast-write" {
        // "applied exactly once to every configured unit": the order of the fan-out is not specified
        non_reads.sort_by_key(|c| format!("{c:?}"));
        exp_refs.sort_by_key(|c| format!("{c:?}"));
    }
    if non_reads != exp_refs {
        out.push((
            format!("handler-calls:{}", expect.class),
            format!(
                "class {}: expected calls {:?} got {:?}",
                expect.class,
                trunc(&format!("{:?}", expect.calls)),
                trunc(&format!("{:?}", non_reads))
            ),
        ));
    }
    for c in obs.calls.iter().filter(|c| c.is_read()) {
        if let Call::Read { unit, table, addr } = c {
            let ok = match expect.read_scope {
                None => false,
                Some((u, t, s, n)) => {
                    *unit == u && *table == t && *addr >= s && (*addr as u32) < s as u32 + n as u32
                }
            };
            if !ok {
                out.push((
                    format!("read-out-of-scope:{}", expect.class),
                    format!("read call {:?} outside {:?}", c, expect.read_scope),
                ));
                break;
            }
        }
    }
    // an authorization query, if any, must precede every other call
    if let Some(pos) = obs.calls.iter().position(|c| matches!(c, Call::Auth { .. })) {
        if pos != 0 {
            out.push((
                format!("auth-not-first:{}", expect.class),
                "authorization was queried after a point handler call".to_string(),
            ));
        }
    }
    out
}

pub fn hex(b: &[u8]) -> String {
    if b.is_empty() {
        return "<nothing>".to_string();
    }
    let mut s = String::new();
    for (i, x) in b.iter().enumerate() {
        if i >= 48 {
            s.push_str(&format!("..(+{})", b.len() - i));
            break;
        }
        s.push_str(&format!("{x:02x}"));
    }
    s
}

pub fn trunc(s: &str) -> String {
    if s.len() > 300 {
        format!("{}...", &s[..300])
    } else {
        s.to_string()
    }
}

//! E3 helpers: calling the `extern "C"` functions of rodbus-ffi the way a C program would.
//!
//! NOTE: the C ABI refuses to block inside a tokio context, so everything here must be called
//! from plain threads (never from a thread that entered one of the harness runtimes).

use rodbus_ffi::ffi;
use std::ffi::{c_void, CString};
use std::os::raw::c_int;
use std::ptr::null_mut;
use std::sync::{Arc, Mutex};

pub const OK: c_int = 0;

pub struct FfiRuntime(pub *mut rodbus_ffi::Runtime);
unsafe impl Send for FfiRuntime {}
unsafe impl Sync for FfiRuntime {}

impl FfiRuntime {
    pub fn new(threads: u16) -> Self {
        let mut out: *mut rodbus_ffi::Runtime = null_mut();
        let rc = unsafe { ffi::rodbus_runtime_create(ffi::RuntimeConfig { num_core_threads: threads }, &mut out) };
        assert_eq!(rc, OK, "runtime_create");
        unsafe { ffi::rodbus_runtime_set_shutdown_timeout(out, 2) };
        FfiRuntime(out)
    }
}

impl Drop for FfiRuntime {
    fn drop(&mut self) {
        unsafe { ffi::rodbus_runtime_destroy(self.0) }
    }
}

pub fn decode(app: c_int, frame: c_int, physical: c_int) -> ffi::DecodeLevel {
    ffi::DecodeLevel { app, frame, physical }
}

pub fn decode_nothing() -> ffi::DecodeLevel {
    decode(0, 0, 0)
}

/// shared state behind a `void* ctx`; `on_destroy` is counted and frees the box
pub struct Ctx<T> {
    pub state: Arc<Mutex<T>>,
    pub destroyed: Arc<Mutex<u32>>,
}

pub fn ctx_new<T>(state: Arc<Mutex<T>>, destroyed: Arc<Mutex<u32>>) -> *mut c_void {
    Box::into_raw(Box::new(Ctx { state, destroyed })) as *mut c_void
}

pub unsafe fn ctx_ref<'a, T>(ctx: *mut c_void) -> &'a Ctx<T> {
    &*(ctx as *const Ctx<T>)
}

/// `on_destroy`: counted; the allocation is deliberately never freed, so that a (buggy) second
/// call or a late callback still finds valid memory and shows up in the counters instead of
/// corrupting the harness
pub extern "C" fn ctx_destroy<T>(ctx: *mut c_void) {
    let c: &Ctx<T> = unsafe { ctx_ref(ctx) };
    *c.destroyed.lock().unwrap() += 1;
}

// ---------------------------------------------------------------------------------------------
// databases and servers
// ---------------------------------------------------------------------------------------------

/// operations performed on a `Database*` inside a callback, with their results
#[derive(Clone, Debug, PartialEq, Eq, Hash, serde::Serialize, serde::Deserialize)]
pub enum DbOp {
    Add(u8, u16, u16),
    Update(u8, u16, u16),
    Delete(u8, u16),
    Get(u8, u16),
}

#[derive(Clone, Debug, PartialEq, Eq, Hash)]
pub enum DbResult {
    Bool(bool),
    Value(u16),
    Error(c_int),
}

pub unsafe fn db_apply(db: *mut rodbus_ffi::Database, op: &DbOp) -> DbResult {
    match *op {
        DbOp::Add(0, i, v) => DbResult::Bool(ffi::rodbus_database_add_coil(db, i, v != 0)),
        DbOp::Add(1, i, v) => DbResult::Bool(ffi::rodbus_database_add_discrete_input(db, i, v != 0)),
        DbOp::Add(2, i, v) => DbResult::Bool(ffi::rodbus_database_add_holding_register(db, i, v)),
        DbOp::Add(_, i, v) => DbResult::Bool(ffi::rodbus_database_add_input_register(db, i, v)),
        DbOp::Update(0, i, v) => DbResult::Bool(ffi::rodbus_database_update_coil(db, i, v != 0)),
        DbOp::Update(1, i, v) => DbResult::Bool(ffi::rodbus_database_update_discrete_input(db, i, v != 0)),
        DbOp::Update(2, i, v) => DbResult::Bool(ffi::rodbus_database_update_holding_register(db, i, v)),
        DbOp::Update(_, i, v) => DbResult::Bool(ffi::rodbus_database_update_input_register(db, i, v)),
        DbOp::Delete(0, i) => DbResult::Bool(ffi::rodbus_database_delete_coil(db, i)),
        DbOp::Delete(1, i) => DbResult::Bool(ffi::rodbus_database_delete_discrete_input(db, i)),
        DbOp::Delete(2, i) => DbResult::Bool(ffi::rodbus_database_delete_holding_register(db, i)),
        DbOp::Delete(_, i) => DbResult::Bool(ffi::rodbus_database_delete_input_register(db, i)),
        DbOp::Get(t, i) if t < 2 => {
            let mut out = false;
            let rc = if t == 0 { ffi::rodbus_database_get_coil(db, i, &mut out) } else { ffi::rodbus_database_get_discrete_input(db, i, &mut out) };
            if rc == OK {
                DbResult::Value(out as u16)
            } else {
                DbResult::Error(rc)
            }
        }
        DbOp::Get(t, i) => {
            let mut out = 0u16;
            let rc = if t == 2 { ffi::rodbus_database_get_holding_register(db, i, &mut out) } else { ffi::rodbus_database_get_input_register(db, i, &mut out) };
            if rc == OK {
                DbResult::Value(out)
            } else {
                DbResult::Error(rc)
            }
        }
    }
}

/// a database callback that runs a closure
pub struct DbScript {
    pub f: Box<dyn FnMut(*mut rodbus_ffi::Database) + Send>,
}

extern "C" fn db_script_cb(db: *mut rodbus_ffi::Database, ctx: *mut c_void) {
    let c: &Ctx<DbScript> = unsafe { ctx_ref(ctx) };
    (c.state.lock().unwrap().f)(db);
}

pub fn db_callback(f: Box<dyn FnMut(*mut rodbus_ffi::Database) + Send>) -> (ffi::DatabaseCallback, Arc<Mutex<u32>>) {
    let destroyed = Arc::new(Mutex::new(0));
    let state = Arc::new(Mutex::new(DbScript { f }));
    (
        ffi::DatabaseCallback { callback: Some(db_script_cb), on_destroy: Some(ctx_destroy::<DbScript>), ctx: ctx_new(state, destroyed.clone()) },
        destroyed,
    )
}

/// what the application's write callbacks return, and what they saw
#[derive(Default)]
pub struct WriteState {
    /// result returned by each of the four callbacks: (success, exception, raw)
    pub results: [Option<(bool, c_int, u8)>; 4],
    pub calls: Vec<String>,
    /// apply successful writes to the database (like the C examples do)
    pub apply: bool,
}

fn wr(r: (bool, c_int, u8)) -> ffi::WriteResult {
    ffi::WriteResult { success: r.0, exception: r.1, raw_exception: r.2 }
}

extern "C" fn w_single_coil(index: u16, value: bool, db: *mut rodbus_ffi::Database, ctx: *mut c_void) -> ffi::WriteResult {
    let c: &Ctx<WriteState> = unsafe { ctx_ref(ctx) };
    let mut s = c.state.lock().unwrap();
    s.calls.push(format!("wsc {index} {value}"));
    let r = s.results[0].unwrap_or((true, 1, 0));
    if r.0 && s.apply {
        unsafe { ffi::rodbus_database_update_coil(db, index, value) };
    }
    wr(r)
}

extern "C" fn w_single_reg(index: u16, value: u16, db: *mut rodbus_ffi::Database, ctx: *mut c_void) -> ffi::WriteResult {
    let c: &Ctx<WriteState> = unsafe { ctx_ref(ctx) };
    let mut s = c.state.lock().unwrap();
    s.calls.push(format!("wsr {index} {value}"));
    let r = s.results[1].unwrap_or((true, 1, 0));
    if r.0 && s.apply {
        unsafe { ffi::rodbus_database_update_holding_register(db, index, value) };
    }
    wr(r)
}

extern "C" fn w_multi_coils(start: u16, it: *mut rodbus_ffi::BitValueIterator, db: *mut rodbus_ffi::Database, ctx: *mut c_void) -> ffi::WriteResult {
    let c: &Ctx<WriteState> = unsafe { ctx_ref(ctx) };
    let mut s = c.state.lock().unwrap();
    let mut items = vec![];
    loop {
        let p = unsafe { ffi::rodbus_bit_value_iterator_next(it) };
        if p.is_null() {
            break;
        }
        let v = unsafe { &*p };
        items.push((v.index, v.value));
    }
    s.calls.push(format!("wmc {start} {items:?}"));
    let r = s.results[2].unwrap_or((true, 1, 0));
    if r.0 && s.apply {
        for (i, v) in items {
            unsafe { ffi::rodbus_database_update_coil(db, i, v) };
        }
    }
    wr(r)
}

extern "C" fn w_multi_regs(start: u16, it: *mut rodbus_ffi::RegisterValueIterator, db: *mut rodbus_ffi::Database, ctx: *mut c_void) -> ffi::WriteResult {
    let c: &Ctx<WriteState> = unsafe { ctx_ref(ctx) };
    let mut s = c.state.lock().unwrap();
    let mut items = vec![];
    loop {
        let p = unsafe { ffi::rodbus_register_value_iterator_next(it) };
        if p.is_null() {
            break;
        }
        let v = unsafe { &*p };
        items.push((v.index, v.value));
    }
    s.calls.push(format!("wmr {start} {items:?}"));
    let r = s.results[3].unwrap_or((true, 1, 0));
    if r.0 && s.apply {
        for (i, v) in items {
            unsafe { ffi::rodbus_database_update_holding_register(db, i, v) };
        }
    }
    wr(r)
}

/// `set`: which of the four callbacks are set (None = callback not provided by the application)
pub fn write_handler(state: Arc<Mutex<WriteState>>, set: [bool; 4]) -> (ffi::WriteHandler, Arc<Mutex<u32>>) {
    let destroyed = Arc::new(Mutex::new(0));
    (
        ffi::WriteHandler {
            write_single_coil: if set[0] { Some(w_single_coil) } else { None },
            write_single_register: if set[1] { Some(w_single_reg) } else { None },
            write_multiple_coils: if set[2] { Some(w_multi_coils) } else { None },
            write_multiple_registers: if set[3] { Some(w_multi_regs) } else { None },
            on_destroy: Some(ctx_destroy::<WriteState>),
            ctx: ctx_new(state, destroyed.clone()),
        },
        destroyed,
    )
}

pub struct FfiServer(pub *mut rodbus_ffi::Server);
unsafe impl Send for FfiServer {}
unsafe impl Sync for FfiServer {}

impl Drop for FfiServer {
    fn drop(&mut self) {
        unsafe { ffi::rodbus_server_destroy(self.0) }
    }
}

pub fn cstr(s: &str) -> CString {
    CString::new(s).unwrap()
}

/// a free TCP port on the given address (bind, read, release). Another socket may be handed the
/// same port before the caller binds it: callers retry when their bind fails
pub fn free_port(ip: &str) -> u16 {
    let l = std::net::TcpListener::bind(format!("{ip}:0")).expect("bind");
    l.local_addr().unwrap().port()
}

/// a loopback port on which connects are refused for as long as the value lives: the socket is
/// bound (so the OS hands the port to nobody else) and never listens
pub struct RefusingPort {
    fd: c_int,
    pub port: u16,
}

impl RefusingPort {
    pub fn new() -> RefusingPort {
        unsafe {
            let fd = libc::socket(libc::AF_INET, libc::SOCK_STREAM, 0);
            assert!(fd >= 0, "socket");
            let mut sa: libc::sockaddr_in = std::mem::zeroed();
            sa.sin_family = libc::AF_INET as libc::sa_family_t;
            sa.sin_port = 0;
            sa.sin_addr = libc::in_addr { s_addr: u32::from_ne_bytes([127, 0, 0, 1]) };
            let rc = libc::bind(fd, &sa as *const _ as *const libc::sockaddr, std::mem::size_of::<libc::sockaddr_in>() as libc::socklen_t);
            assert_eq!(rc, 0, "bind");
            let mut out: libc::sockaddr_in = std::mem::zeroed();
            let mut len = std::mem::size_of::<libc::sockaddr_in>() as libc::socklen_t;
            let rc = libc::getsockname(fd, &mut out as *mut _ as *mut libc::sockaddr, &mut len);
            assert_eq!(rc, 0, "getsockname");
            RefusingPort { fd, port: u16::from_be(out.sin_port) }
        }
    }
}

impl Drop for RefusingPort {
    fn drop(&mut self) {
        unsafe {
            libc::close(self.fd);
        }
    }
}

/// build an address filter through the C ABI from a textual description: "any", or a list of
/// strings (first = create, rest = add)
pub fn ffi_filter(parts: &[String]) -> Result<*mut rodbus_ffi::AddressFilter, c_int> {
    unsafe {
        if parts.is_empty() {
            return Ok(ffi::rodbus_address_filter_any());
        }
        let mut out: *mut rodbus_ffi::AddressFilter = null_mut();
        let rc = ffi::rodbus_address_filter_create(cstr(&parts[0]).as_ptr(), &mut out);
        if rc != OK {
            return Err(rc);
        }
        for p in &parts[1..] {
            let rc = ffi::rodbus_address_filter_add(out, cstr(p).as_ptr());
            if rc != OK {
                ffi::rodbus_address_filter_destroy(out);
                return Err(rc);
            }
        }
        Ok(out)
    }
}

/// device map with one endpoint whose database is filled by `ops`
pub fn device_map(unit: u8, handler: ffi::WriteHandler, ops: Vec<DbOp>) -> (*mut rodbus_ffi::DeviceMap, Vec<DbResult>) {
    let results: Arc<Mutex<Vec<DbResult>>> = Arc::new(Mutex::new(vec![]));
    let r2 = results.clone();
    let (cb, _d) = db_callback(Box::new(move |db| {
        for op in &ops {
            let r = unsafe { db_apply(db, op) };
            r2.lock().unwrap().push(r);
        }
    }));
    let map = unsafe { ffi::rodbus_device_map_create() };
    let ok = unsafe { ffi::rodbus_device_map_add_endpoint(map, unit, handler, cb) };
    assert!(ok, "device_map_add_endpoint");
    let r = results.lock().unwrap().clone();
    (map, r)
}

/// run a transaction on a running server
pub fn update_database(server: &FfiServer, unit: u8, f: Box<dyn FnMut(*mut rodbus_ffi::Database) + Send>) -> c_int {
    let (cb, _d) = db_callback(f);
    unsafe { ffi::rodbus_server_update_database(server.0, unit, cb) }
}

//! Deterministic single-threaded driver for the production rodbus futures.
//!
//! * Futures under test are never spawned: the harness owns them, wraps them in
//!   `tokio::task::unconstrained` and polls them by hand with a flag waker until no flag is set
//!   (quiescence).
//! * Time is tokio's paused clock; only `advance_ms` moves it. The top-level `block_on` future
//!   never awaits anything except `advance`/`yield_now`, so the runtime never really parks and
//!   tokio's auto-advance never triggers.
//! * The transport is `ScriptIo`: reads return exactly the chunk that the explorer delivered,
//!   each `poll_write` is logged separately.

use std::collections::VecDeque;
use std::future::Future;
use std::io::ErrorKind;
use std::pin::Pin;
use std::sync::atomic::{AtomicBool, Ordering};
use std::sync::{Arc, Mutex};
use std::task::{Context, Poll, Wake, Waker};

use tokio::io::{AsyncRead, AsyncWrite, ReadBuf};

thread_local! {
    /// true while the code under test is being polled (its panics are caught and attributed)
    pub static IN_POLL: std::cell::Cell<bool> = const { std::cell::Cell::new(false) };
}

pub struct Flag(AtomicBool);

impl Wake for Flag {
    fn wake(self: Arc<Self>) {
        self.0.store(true, Ordering::SeqCst);
    }
    fn wake_by_ref(self: &Arc<Self>) {
        self.0.store(true, Ordering::SeqCst);
    }
}

/// A hand-polled future
pub struct Task<T> {
    fut: Option<Pin<Box<dyn Future<Output = T>>>>,
    flag: Arc<Flag>,
    pub output: Option<T>,
    pub polls: u64,
    pub panicked: Option<String>,
}

impl<T> Task<T> {
    pub fn new<F: Future<Output = T> + 'static>(f: F) -> Self {
        Self {
            fut: Some(Box::pin(tokio::task::unconstrained(f))),
            flag: Arc::new(Flag(AtomicBool::new(true))),
            output: None,
            polls: 0,
            panicked: None,
        }
    }

    pub fn is_done(&self) -> bool {
        self.fut.is_none()
    }

    pub fn woken(&self) -> bool {
        self.flag.0.load(Ordering::SeqCst)
    }

    /// drop the future without completing it (task cancellation)
    pub fn abort(&mut self) {
        self.fut = None;
    }

    /// poll once if the wake flag is set; returns true if it was polled
    pub fn poll_if_woken(&mut self) -> bool {
        if self.fut.is_none() {
            return false;
        }
        if !self.flag.0.swap(false, Ordering::SeqCst) {
            return false;
        }
        let waker = Waker::from(self.flag.clone());
        let mut cx = Context::from_waker(&waker);
        self.polls += 1;
        let fut = self.fut.as_mut().unwrap();
        IN_POLL.with(|f| f.set(true));
        let res = std::panic::catch_unwind(std::panic::AssertUnwindSafe(|| {
            fut.as_mut().poll(&mut cx)
        }));
        IN_POLL.with(|f| f.set(false));
        match res {
            Ok(Poll::Ready(x)) => {
                self.output = Some(x);
                self.fut = None;
            }
            Ok(Poll::Pending) => {}
            Err(p) => {
                let msg = if let Some(s) = p.downcast_ref::<&str>() {
                    s.to_string()
                } else if let Some(s) = p.downcast_ref::<String>() {
                    s.clone()
                } else {
                    "panic".to_string()
                };
                self.panicked = Some(msg);
                // a future that panicked must not be polled again
                // (leak it: dropping a half-poisoned future may panic again)
                let f = self.fut.take();
                std::mem::forget(f);
            }
        }
        true
    }
}

pub trait Pollable {
    fn poll_if_woken(&mut self) -> bool;
}

impl<T> Pollable for Task<T> {
    fn poll_if_woken(&mut self) -> bool {
        Task::poll_if_woken(self)
    }
}

/// poll every task until none is flagged; returns the number of polls performed,
/// or None if the budget was exceeded (a busy loop in the code under test)
pub fn run_until_quiescent(tasks: &mut [&mut dyn Pollable], budget: u64) -> Option<u64> {
    let mut polls = 0u64;
    loop {
        let mut any = false;
        for t in tasks.iter_mut() {
            if t.poll_if_woken() {
                any = true;
                polls += 1;
                if polls > budget {
                    return None;
                }
            }
        }
        if !any {
            return Some(polls);
        }
    }
}

/// Build the paused current-thread runtime used for every execution
pub fn runtime() -> tokio::runtime::Runtime {
    tokio::runtime::Builder::new_current_thread()
        .enable_time()
        .start_paused(true)
        .build()
        .expect("runtime")
}

pub async fn advance_ms(ms: u64) {
    tokio::time::advance(std::time::Duration::from_millis(ms)).await;
}

thread_local! {
    static RT: std::cell::Cell<Option<&'static tokio::runtime::Runtime>> = const { std::cell::Cell::new(None) };
}

/// Give the calling thread its own paused runtime and enter it for the rest of the thread's
/// life (the runtime is leaked: worker threads are short-lived and few).
pub fn enter_thread_runtime() {
    if RT.with(|r| r.get()).is_some() {
        return;
    }
    let rt: &'static tokio::runtime::Runtime = Box::leak(Box::new(runtime()));
    let guard = rt.enter();
    std::mem::forget(guard);
    RT.with(|r| r.set(Some(rt)));
}

/// Advance the virtual clock of this thread's runtime and let the timer wheel fire.
/// Hand-polled tasks are only flagged here; the caller polls them afterwards.
pub fn advance(ms: u64) {
    let rt = RT.with(|r| r.get()).expect("thread runtime");
    rt.block_on(advance_ms(ms));
}

// ---------------------------------------------------------------------------------------------
// scripted transport
// ---------------------------------------------------------------------------------------------

#[derive(Clone, Copy, Debug, PartialEq, Eq)]
pub enum WriteMode {
    Accept,
    /// accept at most n bytes per poll_write call
    AcceptAtMost(usize),
    Error(ErrorKind),
    Pending,
    /// back-pressure: accept this many more bytes, then stay pending until the mode is changed
    BlockAfter(usize),
}

pub struct IoState {
    pub inbound: VecDeque<Vec<u8>>,
    pub read_error: Option<ErrorKind>,
    pub eof: bool,
    pub read_waker: Option<Waker>,
    pub write_mode: WriteMode,
    pub write_waker: Option<Waker>,
    /// one entry per poll_write call that accepted bytes
    pub writes: Vec<Vec<u8>>,
    /// number of poll_read calls that returned data / total calls
    pub reads_returned: u64,
    pub read_calls: u64,
    pub dropped: bool,
    pub shutdown_called: bool,
}

#[derive(Clone)]
pub struct IoHandle(pub Arc<Mutex<IoState>>);

pub struct ScriptIo(Arc<Mutex<IoState>>);

pub fn script_io() -> (ScriptIo, IoHandle) {
    let st = Arc::new(Mutex::new(IoState {
        inbound: VecDeque::new(),
        read_error: None,
        eof: false,
        read_waker: None,
        write_mode: WriteMode::Accept,
        write_waker: None,
        writes: Vec::new(),
        reads_returned: 0,
        read_calls: 0,
        dropped: false,
        shutdown_called: false,
    }));
    (ScriptIo(st.clone()), IoHandle(st))
}

impl IoHandle {
    /// queue one chunk: a single poll_read will never return bytes from two chunks
    pub fn deliver(&self, bytes: &[u8]) {
        if bytes.is_empty() {
            return;
        }
        let mut st = self.0.lock().unwrap();
        st.inbound.push_back(bytes.to_vec());
        if let Some(w) = st.read_waker.take() {
            w.wake();
        }
    }
    pub fn read_error(&self, kind: ErrorKind) {
        let mut st = self.0.lock().unwrap();
        st.read_error = Some(kind);
        if let Some(w) = st.read_waker.take() {
            w.wake();
        }
    }
    pub fn eof(&self) {
        let mut st = self.0.lock().unwrap();
        st.eof = true;
        if let Some(w) = st.read_waker.take() {
            w.wake();
        }
    }
    pub fn set_write_mode(&self, mode: WriteMode) {
        let mut st = self.0.lock().unwrap();
        st.write_mode = mode;
        if let Some(w) = st.write_waker.take() {
            w.wake();
        }
    }
    /// take everything written so far (concatenated) and the number of poll_write calls
    pub fn take_written(&self) -> Vec<Vec<u8>> {
        let mut st = self.0.lock().unwrap();
        std::mem::take(&mut st.writes)
    }
    pub fn take_written_flat(&self) -> Vec<u8> {
        self.take_written().concat()
    }
    pub fn is_dropped(&self) -> bool {
        self.0.lock().unwrap().dropped
    }
    pub fn pending_inbound(&self) -> usize {
        self.0.lock().unwrap().inbound.iter().map(|x| x.len()).sum()
    }
}

impl Drop for ScriptIo {
    fn drop(&mut self) {
        self.0.lock().unwrap().dropped = true;
    }
}

impl AsyncRead for ScriptIo {
    fn poll_read(
        self: Pin<&mut Self>,
        cx: &mut Context<'_>,
        buf: &mut ReadBuf<'_>,
    ) -> Poll<std::io::Result<()>> {
        let mut st = self.0.lock().unwrap();
        st.read_calls += 1;
        if let Some(front) = st.inbound.front_mut() {
            let n = std::cmp::min(front.len(), buf.remaining());
            if n == 0 {
                // zero-capacity read: report as zero bytes (the caller treats this as EOF)
                return Poll::Ready(Ok(()));
            }
            buf.put_slice(&front[..n]);
            if n == front.len() {
                st.inbound.pop_front();
            } else {
                front.drain(..n);
            }
            st.reads_returned += 1;
            return Poll::Ready(Ok(()));
        }
        if let Some(kind) = st.read_error.take() {
            return Poll::Ready(Err(std::io::Error::from(kind)));
        }
        if st.eof {
            return Poll::Ready(Ok(()));
        }
        st.read_waker = Some(cx.waker().clone());
        Poll::Pending
    }
}

impl AsyncWrite for ScriptIo {
    fn poll_write(
        self: Pin<&mut Self>,
        cx: &mut Context<'_>,
        buf: &[u8],
    ) -> Poll<std::io::Result<usize>> {
        let mut st = self.0.lock().unwrap();
        match st.write_mode {
            WriteMode::Accept => {
                st.writes.push(buf.to_vec());
                Poll::Ready(Ok(buf.len()))
            }
            WriteMode::AcceptAtMost(n) => {
                let n = std::cmp::min(n.max(1), buf.len());
                st.writes.push(buf[..n].to_vec());
                Poll::Ready(Ok(n))
            }
            WriteMode::Error(kind) => Poll::Ready(Err(std::io::Error::from(kind))),
            WriteMode::Pending | WriteMode::BlockAfter(0) => {
                st.write_waker = Some(cx.waker().clone());
                Poll::Pending
            }
            WriteMode::BlockAfter(n) => {
                let k = std::cmp::min(n, buf.len());
                st.writes.push(buf[..k].to_vec());
                st.write_mode = WriteMode::BlockAfter(n - k);
                Poll::Ready(Ok(k))
            }
        }
    }
    fn poll_flush(self: Pin<&mut Self>, _cx: &mut Context<'_>) -> Poll<std::io::Result<()>> {
        Poll::Ready(Ok(()))
    }
    fn poll_shutdown(self: Pin<&mut Self>, _cx: &mut Context<'_>) -> Poll<std::io::Result<()>> {
        self.0.lock().unwrap().shutdown_called = true;
        Poll::Ready(Ok(()))
    }
}

// ---------------------------------------------------------------------------------------------
// tracing sink: formats every event so that Display / Loggable code paths really execute
// ---------------------------------------------------------------------------------------------

pub mod trace {
    use std::cell::RefCell;
    use std::fmt::Write;
    use tracing_core::span::{Attributes, Id, Record};
    use tracing_core::{Event, Field, Metadata, Subscriber};

    thread_local! {
        static BYTES: RefCell<(u64, u64)> = const { RefCell::new((0, 0)) };
        static KEEP: RefCell<Option<Vec<String>>> = const { RefCell::new(None) };
    }

    /// process-wide capture (events of every thread, e.g. the worker threads of an FFI runtime)
    static GLOBAL: std::sync::Mutex<Option<Vec<String>>> = std::sync::Mutex::new(None);
    static GLOBAL_TIMED: std::sync::Mutex<Option<Vec<(std::time::Instant, String)>>> = std::sync::Mutex::new(None);

    pub fn global_capture(on: bool) -> Vec<String> {
        let mut g = GLOBAL.lock().unwrap();
        let old = g.take().unwrap_or_default();
        *g = if on { Some(Vec::new()) } else { None };
        old
    }

    /// like `global_capture`, with the instant at which each event was emitted
    pub fn timed_capture(on: bool) -> Vec<(std::time::Instant, String)> {
        let mut g = GLOBAL_TIMED.lock().unwrap();
        let old = g.take().unwrap_or_default();
        *g = if on { Some(Vec::new()) } else { None };
        old
    }

    pub fn timed_snapshot() -> Vec<(std::time::Instant, String)> {
        GLOBAL_TIMED.lock().unwrap().clone().unwrap_or_default()
    }

    struct Vis<'a>(&'a mut String);
    impl tracing_core::field::Visit for Vis<'_> {
        fn record_debug(&mut self, field: &Field, value: &dyn std::fmt::Debug) {
            let _ = write!(self.0, "{}={:?} ", field.name(), value);
        }
    }

    pub struct Sink;

    impl Subscriber for Sink {
        fn enabled(&self, _metadata: &Metadata<'_>) -> bool {
            true
        }
        fn new_span(&self, span: &Attributes<'_>) -> Id {
            let mut s = String::new();
            span.record(&mut Vis(&mut s));
            BYTES.with(|b| {
                let mut b = b.borrow_mut();
                b.0 += 1;
                b.1 += s.len() as u64;
            });
            Id::from_u64(1)
        }
        fn record(&self, _span: &Id, values: &Record<'_>) {
            let mut s = String::new();
            values.record(&mut Vis(&mut s));
        }
        fn record_follows_from(&self, _span: &Id, _follows: &Id) {}
        fn event(&self, event: &Event<'_>) {
            let mut s = String::new();
            event.record(&mut Vis(&mut s));
            BYTES.with(|b| {
                let mut b = b.borrow_mut();
                b.0 += 1;
                b.1 += s.len() as u64;
            });
            KEEP.with(|k| {
                if let Some(v) = k.borrow_mut().as_mut() {
                    v.push(format!("{} {}", event.metadata().level(), s));
                }
            });
            if let Ok(mut g) = GLOBAL.lock() {
                if let Some(v) = g.as_mut() {
                    v.push(format!("{} {}", event.metadata().level(), s));
                }
            }
            if let Ok(mut g) = GLOBAL_TIMED.lock() {
                if let Some(v) = g.as_mut() {
                    v.push((std::time::Instant::now(), format!("{} {}", event.metadata().level(), s)));
                }
            }
        }
        fn enter(&self, _span: &Id) {}
        fn exit(&self, _span: &Id) {}
    }

    /// install the sink as the process-wide default (call once)
    pub fn install() {
        let _ = tracing::dispatcher::set_global_default(tracing::Dispatch::new(Sink));
    }

    /// (events, formatted bytes) seen on this thread since the last call
    pub fn take_counts() -> (u64, u64) {
        BYTES.with(|b| std::mem::take(&mut *b.borrow_mut()))
    }

    /// start/stop keeping formatted lines on this thread
    pub fn keep(on: bool) {
        KEEP.with(|k| *k.borrow_mut() = if on { Some(Vec::new()) } else { None });
    }

    pub fn take_lines() -> Vec<String> {
        KEEP.with(|k| k.borrow_mut().as_mut().map(std::mem::take).unwrap_or_default())
    }
}

// ---------------------------------------------------------------------------------------------
// watchdog: a busy loop *inside one poll* cannot be preempted from the polling thread, so a
// separate thread watches how long each worker has been inside its current case
// ---------------------------------------------------------------------------------------------

pub mod watchdog {
    use serde_json::Value;
    use std::sync::{Arc, Mutex, OnceLock};
    use std::time::{Duration, Instant};

    /// describes the case a worker is executing: (signature, summary, replay scenario)
    pub type Describe<'a> = dyn Fn() -> (String, String, Value) + Sync + 'a;

    struct Slot {
        /// how many watchdog limits this case may take (1 for a single case, more for the
        /// catch-all guard around a whole job)
        factor: u32,
        since: Instant,
        // lifetime-erased pointer to a closure on the worker's stack; only dereferenced while the
        // slot lock is held and the worker is still inside `guard`
        desc: Option<*const Describe<'static>>,
    }
    unsafe impl Send for Slot {}

    static SLOTS: OnceLock<Mutex<Vec<Arc<Mutex<Slot>>>>> = OnceLock::new();

    thread_local! {
        static MY: Arc<Mutex<Slot>> = {
            let s = Arc::new(Mutex::new(Slot { factor: 1, since: Instant::now(), desc: None }));
            SLOTS.get_or_init(|| Mutex::new(vec![])).lock().unwrap().push(s.clone());
            s
        };
    }

    /// run `f` as one case; if it does not return within the watchdog limit the watchdog thread
    /// reports `desc()` as a violation and ends the process
    pub fn guard<R>(desc: &Describe<'_>, f: impl FnOnce() -> R) -> R {
        guard_with(1, desc, f)
    }

    /// like `guard`, with `factor` times the limit: the catch-all around a whole job of `parallel`,
    /// so that a spin in code that no case-level guard surrounds still ends with a verdict
    pub fn guard_with<R>(factor: u32, desc: &Describe<'_>, f: impl FnOnce() -> R) -> R {
        let ptr: *const Describe<'_> = desc;
        // erase the lifetime: the pointer is cleared before this function returns
        let ptr: *const Describe<'static> = unsafe { std::mem::transmute(ptr) };
        // guards nest (an explorer's guard around a self-guarding runner): the outer one is
        // restored, with its own starting time, when the inner one ends
        let prev = MY.with(|m| {
            let mut s = m.lock().unwrap();
            let prev = (s.since, s.desc, s.factor);
            s.since = Instant::now();
            s.desc = Some(ptr);
            s.factor = factor;
            prev
        });
        let r = f();
        MY.with(|m| {
            let mut s = m.lock().unwrap();
            s.since = prev.0;
            s.desc = prev.1;
            s.factor = prev.2;
            if prev.1.is_some() {
                // the time the inner case took is not charged to the outer one
                s.since = Instant::now();
            }
        });
        r
    }

    /// start the watchdog thread for a check (or a replay, with `property` taken from the file)
    pub fn start(property: &str, tier: &str, limit: Duration, replay_of: Option<String>) {
        let property = property.to_string();
        let tier = tier.to_string();
        std::thread::spawn(move || loop {
            std::thread::sleep(Duration::from_millis(250));
            let slots: Vec<Arc<Mutex<Slot>>> = SLOTS.get_or_init(|| Mutex::new(vec![])).lock().unwrap().clone();
            for s in slots {
                let g = s.lock().unwrap();
                if let Some(p) = g.desc {
                    if g.since.elapsed() > limit * g.factor {
                        let (sig, summary, scenario) = unsafe { (*p)() };
                        let sig = format!("no-progress:{sig}");
                        let summary = format!("a single case did not return within {limit:?} (spin without progress): {summary}");
                        eprintln!("  [{sig}] {summary}");
                        if let Some(path) = &replay_of {
                            println!("replay: [{sig}] {summary}");
                            println!("VIOLATION property={property} replay={path}");
                            std::process::exit(1);
                        }
                        let h = crate::report::hash_of(&(sig.clone(), summary.clone()));
                        let path = format!("{}/replays/{}-{:016x}.json", crate::report::VERIF_DIR, property, h);
                        let _ = std::fs::create_dir_all(format!("{}/replays", crate::report::VERIF_DIR));
                        let doc = serde_json::json!({"property": property, "signature": sig, "summary": summary, "scenario": scenario});
                        let _ = std::fs::write(&path, serde_json::to_string_pretty(&doc).unwrap());
                        // the run cannot be completed: evidence says so instead of inventing counts
                        // the record keeps the level of the check and carries the keys that level
                        // requires; what was covered before the abort is not known to this thread: 0
                        let ev = serde_json::json!({
                            "property_id": property, "tier": tier, "seed": 0, "level": crate::report::current_level(),
                            "coverage": {
                                "explanation": format!("run aborted by the watchdog: {summary}; replay {path}"),
                                "exhaustive": false,
                                "evaluations": 1, "distinct_nontrivial": 0,
                                "rule": "run aborted by the watchdog before the counts were collected: one case did not return (see explanation)",
                                "samples": [scenario],
                                // the case that did not return: the state it was in, the step it was taking
                                "states": 1, "transitions": 1, "traces_validated_against_impl": 0
                            },
                            "wall_s": 0.0, "violations": 1
                        });
                        let _ = std::fs::write(format!("{}/evidence/{}.json", crate::report::VERIF_DIR, property), serde_json::to_string_pretty(&ev).unwrap());
                        println!("VIOLATION property={property} replay={path}");
                        std::process::exit(1);
                    }
                }
            }
        });
    }
}

#!/usr/bin/env python3
"""Regenerates /verif/MANIFEST.json from the table below (keeps it valid at all times)."""
import json,subprocess
props=[json.loads(l) for l in open('/verif/properties.jsonl')]
MC="explicit-state bounded model checking of the implementation: stateless exhaustive enumeration of event sequences / input spaces on the real rodbus tasks under a deterministic driver (hand-polled futures, paused clock, scripted transport), reference-model oracle on every step"
EX="bounded exhaustive enumeration of an input / fault space on the real rodbus code under the deterministic driver, reference-model oracle per case"
done={
 'C01':('model_checking',MC,"all request sequences up to depth D over a 24-symbol alphabet plus the full single-request sweep, TCP and RTU, 3 unit maps, compared byte for byte with a reference server after every request"),
 'C02':('model_checking',MC,"same executions as C01; the instrumented handler log and the final application state are compared with the reference server, with and without authorization"),
 'C03':('exploration',EX,"finite argument spaces enumerated completely (quick: boundary lattice, thorough: all 2^32 constructor arguments); every poll_write of the production client loop compared with the reference encoder"),
 'C04':('exploration',EX,"reply space per request kind enumerated (all function bytes x lengths, all 1-byte deviations, all echo values in thorough) and judged by a reference reply decoder"),
 'C05':('model_checking',MC,"all concatenations of <= N library frames x all chunkings in the bound (uniform sizes, <= 2 cuts at every position, all partitions of short streams), both roles, judged by a stream-level reference framer"),
 'C06':('fault_enumeration',EX,"every 1-bit, 2-bit and <=16-bit burst corruption (within stated windows for long frames) of a request/response library, both roles; independent bit-wise CRC-16 in the reference framer"),
 'C07':('exploration',EX,"exhaustive 1-deviation (thorough: 2-deviation) neighbourhood of valid traffic plus all short byte strings, 4 role x framing combinations, decode levels, with panics caught per poll, a poll budget, a wall-clock watchdog for spins inside one poll, and a shutdown check"),
 'C08':('model_checking',MC,"all request sequences up to depth D x policy set (all 256 per-function masks in thorough) x roles; interleaved authorization/handler log, replies and state compared with the reference server"),
 'C09':('exploration',"exhaustive enumeration of the finite TLS configuration grid (all 336 cells plus extra probes) over real loopback sockets against independent rustls peers; reference admission predicate per cell","finite configuration space enumerated completely; rustls/webpki/OS trusted; verdict observed through answered Modbus requests, negotiated version and the role seen by the authorization handler"),
 'C10':('model_checking',MC,"all event sequences up to depth D with <= K deviations over a 23-symbol alphabet on the production TcpChannelTask (2 handles, 3 submit styles, queue capacity 2/16, N none/1/2), each extended by an epilogue to a finite horizon; completions compared with the reference client model after every event"),
 'C11':('model_checking',MC,"all sequences up to depth D over submit / matching / stale / future / duplicate / idle frames / partial replies / reconnect, wire log and results compared with the reference client model; plus a 65,600-round path across the transaction-id wrap"),
 'C12':('model_checking',MC,"all sequences up to depth D over submits with timeouts 1/7/1000 ms, reply variants and clock advances to, before and past the deadline, for N in none/1/2/3, under tokio's paused clock; completion instants and connection drops compared with the reference client model"),
 'C13':('model_checking',MC,"all command/environment sequences up to depth D on the production TcpChannelTask (connector seam); listener path, fast NoConnection failures, connect attempts, transport closure and task termination compared with the reference automaton"),
 'C14':('model_checking',MC,"strategy object: all lattice (min,max) pairs x all call sequences up to length L; task level: all connect-outcome sequences up to depth D under the paused clock, announced delay = reference delay = delay actually waited"),
 'C15':('model_checking',"explicit-state bounded model checking against real sockets: all lock-step histories up to depth D over an 11-symbol connection/command alphabet are executed against the unmodified TCP/TLS server tasks, every connection is probed after every event and compared with a reference session tracker","histories are exhaustive within the stated depth / deviation bound; the kernel scheduler is real, so events are applied in lock-step with observable gates and a failing history must fail three times before it is reported"),
 'C16':('exploration',"exhaustive enumeration: all strings up to length L over an 11-symbol alphabet for the wildcard parser, the full wildcard x address lattice for the matcher, and every cell of {TCP, TLS, TLS+authz} x {create_*, spawn_*, C ABI} x filters x source addresses over real loopback aliases","finite spaces enumerated completely within the stated alphabet / lattice; server cells run on real sockets and a failing cell must fail twice"),
 'C17':('model_checking',MC,"all 256 destinations x 27 request kinds x 4 unit maps x 2 framings on fresh sessions plus all sequences up to depth D over a 12-symbol broadcast/unicast alphabet"),
 'C18':('exploration',"differential exhaustive enumeration over finite tables: every client operation x outcome class x exception code, every write callback x WriteResult value, every decode level and observable enum value is run through the extern \"C\" functions and through the Rust API against identical scripted loopback peers","finite tables enumerated completely (thorough: all 256 exception codes for all 8 operations and all 256 raw codes); real sockets and real time, so timing assertions are one-sided with generous ceilings"),
 'C19':('model_checking',"(1) explicit-state exploration of all operation sequences up to depth D on the real C-ABI database against a reference map; (2) stateless model checking of thread interleavings: a cooperative scheduler with scheduling points at every handler-mutex acquisition and database read enumerates every schedule of four two-actor scenarios by DFS on the real code","map part: bounded depth, small index set; atomicity part: exhaustive over all schedules at the stated point granularity (the property text says stress-sampled; this replaces sampling by exhaustive scheduling)"),
 'C20':('model_checking',MC,"differential and reference-model oracle: every explored server sequence, framing stream (each chunking) and client event path is re-executed at the lowest and highest decode level and with a set_decode_level command inserted at every position (also between two chunks of one frame and during an outstanding transaction); all observations must be identical"),
}
commits=subprocess.run(['git','-C','/repo','log','--format=%h %s'],capture_output=True,text=True).stdout.splitlines()
hooks=[c.split()[0] for c in commits if c.split(' ',1)[1].startswith('verif-hooks')]
m={
 "version":1,
 "setup_cmd":"cd /verif/mc && CARGO_NET_OFFLINE=true cargo build --release --offline",
 "hooks":{
   "guard":"cargo feature verif-hooks (crate rodbus; forwarded by rodbus-ffi where used)",
   "enable":"the harness crate /verif/mc path-depends on /repo/rodbus with features=[\"verif-hooks\",\"ffi\"]; ./check runs `cargo build --release --offline` first, so every check rebuilds from /repo's current working tree",
   "baseline_off_cmd":"cd /repo && cargo nextest run --workspace --no-fail-fast --offline --test-threads 8",
   "source_commits":list(reversed(hooks)),
   "add_only":True
 },
 "engines":[{"name":"mc","path":"/verif/mc","serves_properties":sorted(done),"kind_free_text":"stateless bounded exhaustive exploration of the production rodbus tasks (hand-polled futures, paused tokio clock, scripted in-memory transport, harness-owned connect outcomes) against reference models written in Rust; every explored path is an implementation trace"}],
 "checks":[],
 "not_applicable":[],
 "notes":"See DESIGN.md: all twenty properties are claimed, not_applicable is empty; sections 9 (defects found and repaired), 11 (what detects what) and 16 (what was built)."
}
for p in props:
    i=p['id']
    if i in done:
        cat,tech,text=done[i]
        if i=='C09':
            tech,text=done[i][1],done[i][2]
        m['checks'].append({
          "property_id":i,
          "quick_cmd":f"./check {i} quick",
          "thorough_cmd":f"./check {i} thorough",
          "evidence_file":f"/verif/evidence/{i}.json",
          "replay_cmd_template":"./check replay {path}",
          "engine":"mc",
          "level_claimed":{"category":cat,"text":text,"design_ref":"DESIGN.md section 7, "+i},
          "level_note":"trusted base: rustc, tokio, std, the harness' reference models; coverage is bounded as stated in the evidence file (depth, lattices); hooks only replace the transport and connect outcomes",
          "technique":tech
        })
    else:
        m['not_applicable'].append({"property_id":i,"reason":"not built yet in this commit (work in progress, see DESIGN.md)"})
json.dump(m,open('/verif/MANIFEST.json','w'),indent=1)
print("claimed:",sorted(done))

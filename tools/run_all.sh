#!/bin/bash
# runs every registered quick (or thorough) check once and prints one line each
tier=${1:-quick}
for c in C01 C02 C03 C04 C05 C06 C07 C08 C09 C10 C11 C12 C13 C14 C15 C16 C17 C18 C19 C20; do
  s=$(date +%s.%N); out=$(timeout 7200 /verif/check $c $tier 2>/verif/logs/all_$c.err); code=$?; e=$(date +%s.%N)
  printf "%s %s exit=%d %.1fs %s\n" $c $tier $code $(echo "$e - $s" | bc) "$(echo "$out" | head -1 | cut -c1-120)"
done

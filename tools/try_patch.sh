#!/bin/bash
# usage: try_patch.sh <patch.diff> <check-id>...   applies the patch to /repo, runs the quick checks, reverts
set -u
patch=$1; shift
if ! git -C /repo diff --quiet; then echo "/repo has uncommitted changes"; exit 2; fi
git -C /repo apply "$patch" || { echo "patch does not apply"; exit 2; }
for c in "$@"; do
  tier=quick
  out=$(timeout 900 /verif/check $c $tier 2>/verif/logs/try_$c.err); code=$?
  echo "$c: exit=$code $(echo "$out" | head -2 | tr '\n' ' ') $(grep -a -E '^\s+\[' /verif/logs/try_$c.err | head -2 | cut -c1-220)"
done
git -C /repo checkout -- . 

#!/bin/bash
# usage: eval_seed.sh <seed-name> <worktree> <property> <check ids to run...>
# 1. validates the seeded change in its scratch worktree (suite passes with it, demo fails with it and passes without)
# 2. stores it under /verif/seeded/<seed-name>/
# 3. applies it to /repo, runs the given quick checks, reverts
set -u
name=$1; wt=$2; prop=$3; shift 3
# the worktree must exist and must not be /verif or /repo: the steps below run `git checkout` and
# `git clean` in it (a failed `cd` once ran them in /verif and wiped uncommitted work)
if [ ! -f "$wt/_out/patch.diff" ] || [ "$(cd "$wt" 2>/dev/null && git rev-parse --show-toplevel)" != "$wt" ]; then echo "no such seed worktree: $wt"; exit 2; fi
case "$wt" in /verif*|/repo*) echo "refusing to work in $wt"; exit 2;; esac
out=/verif/seeded/$name; mkdir -p $out
cp $wt/_out/patch.diff $out/patch.diff
rm -rf $out/demo; cp -r $wt/_out/demo $out/demo
[ -f $wt/_out/notes.md ] && cp $wt/_out/notes.md $out/notes.md
cd $wt || exit 2
git checkout -q -- . 2>/dev/null; git clean -fdq -e _out -e target 2>/dev/null
# bring the worktree to /repo's HEAD so that the patch is validated against the current tree
git checkout -q --detach $(git -C /repo rev-parse HEAD) 2>/dev/null
log=$out/validation.log; : > $log
echo "== demo on the unchanged tree" >> $log
bash $out/demo/run.sh $wt >> $log 2>&1; base=$?
git checkout -q -- . ; git clean -fdq -e _out -e target
if ! git apply $out/patch.diff; then echo "PATCH DOES NOT APPLY to current HEAD" | tee -a $log; exit 2; fi
echo "== test suite with the change" >> $log
timeout 1200 cargo nextest run --workspace --no-fail-fast --offline --test-threads 8 >> $log 2>&1; suite=$?
echo "== demo with the change" >> $log
bash $out/demo/run.sh $wt >> $log 2>&1; with=$?
git checkout -q -- . ; git clean -fdq -e _out -e target
echo "seed $name: demo-without=$base suite-with=$suite demo-with=$with"
valid=no; [ $base -eq 0 ] && [ $suite -eq 0 ] && [ $with -ne 0 ] && valid=yes
# detection
cd /verif
if ! git -C /repo diff --quiet; then echo "/repo dirty"; exit 2; fi
git -C /repo apply $out/patch.diff || { echo "patch does not apply to /repo"; exit 2; }
det=""
for c in "$@"; do
  o=$(timeout 1500 /verif/check $c quick 2>/verif/logs/seed_${name}_$c.err); code=$?
  sig=$(grep -a -E '^\s+\[' /verif/logs/seed_${name}_$c.err | head -1 | sed 's/^\s*//' | cut -c1-160)
  echo "   $c: exit=$code $sig"
  det="$det{\"check\":\"$c\",\"exit\":$code,\"first_signature\":$(python3 -c 'import json,sys; print(json.dumps(sys.argv[1]))' "$sig")},"
done
git -C /repo checkout -- .
python3 - "$out" "$name" "$prop" "$valid" "$base" "$suite" "$with" "[${det%,}]" <<'PY'
import json,sys
out,name,prop,valid,base,suite,withc,det=sys.argv[1:]
meta={"seed":name,"breaks_property":prop,"validated":valid=="yes",
 "demo_exit_on_unchanged_tree":int(base),"test_suite_exit_with_change":int(suite),"demo_exit_with_change":int(withc),
 "ran":["sh demo/run.sh <worktree> on the unchanged tree","git apply patch.diff","cargo nextest run --workspace --no-fail-fast --offline --test-threads 8","sh demo/run.sh <worktree> with the change","git -C /repo apply patch.diff; ./check <ID> quick; git -C /repo checkout -- ."],
 "detection":json.loads(det)}
try:
    old=json.load(open(out+'/meta.json'))
    for k in ("needs_to_manifest","origin","summary"):
        if k in old: meta[k]=old[k]
except Exception: pass
json.dump(meta,open(out+'/meta.json','w'),indent=1)
PY

#!/bin/bash
# usage: stress.sh <rounds> [ids...]   runs the given quick checks (default: all) concurrently, <rounds> times,
# and prints every non-zero exit with its first signature: a harness that is sensitive to machine load shows up here
rounds=${1:-3}; shift
ids=${@:-C01 C02 C03 C04 C05 C06 C07 C08 C09 C10 C11 C12 C13 C14 C15 C16 C17 C18 C19 C20}
mkdir -p /verif/logs/stress
for r in $(seq 1 $rounds); do
  pids=""
  for c in $ids; do
    ( /verif/.target/release/mc check $c quick > /verif/logs/stress/$c.$r.out 2>/verif/logs/stress/$c.$r.err; code=$?
      if [ $code -ne 0 ]; then echo "round $r $c exit=$code $(grep -E '^\s+\[' /verif/logs/stress/$c.$r.err | head -2 | cut -c1-400)"; fi ) &
  done
  wait
  echo "round $r done"
done 2>&1 | grep -v "Done"

#!/bin/bash
# Mints the certificate set used by the C09 / C15 / C16 checks. Run once; the output is committed
# (the checks never need openssl). Needs an openssl >= 3 binary (found at /root/miniconda/bin/openssl
# in the image this was made on).
set -e
O=${OPENSSL:-/root/miniconda/bin/openssl}
cd "$(dirname "$0")"
ROLE_OID=1.3.6.1.4.1.50316.802.1
VALID_FROM=20200101000000Z; VALID_TO=20491231235959Z
OLD_FROM=20000101000000Z;   OLD_TO=20010101000000Z
FUT_FROM=20480101000000Z;   FUT_TO=20491231235959Z
key() { $O genpkey -algorithm RSA -pkeyopt rsa_keygen_bits:2048 -out "$1" 2>/dev/null; }
ca() { # name
  key $1_key.pem
  $O req -x509 -new -key $1_key.pem -subj "/O=verif/CN=$1" -not_before $VALID_FROM -not_after $VALID_TO \
     -addext "basicConstraints=critical,CA:TRUE" -addext "keyUsage=critical,keyCertSign,cRLSign" -out $1_cert.pem
}
leaf() { # name ca from to san role
  key $1_key.pem
  $O req -new -key $1_key.pem -subj "/O=verif/CN=$1" -out $1.csr
  { echo "basicConstraints=CA:FALSE"; echo "keyUsage=digitalSignature,keyEncipherment";
    echo "extendedKeyUsage=serverAuth,clientAuth";
    [ -n "$5" ] && echo "subjectAltName=DNS:$5";
    [ -n "$6" ] && echo "$ROLE_OID=ASN1:UTF8String:$6"; } > $1.ext
  $O x509 -req -in $1.csr -CA $2_cert.pem -CAkey $2_key.pem -set_serial 0x$(echo -n $1 | md5sum | cut -c1-16) \
     -not_before $3 -not_after $4 -extfile $1.ext -out $1_cert.pem 2>/dev/null
  rm -f $1.csr $1.ext
}
selfsigned() { # name from to san role
  key $1_key.pem
  { echo "[req]"; echo "distinguished_name=dn"; echo "x509_extensions=ext"; echo "prompt=no"; echo "[dn]"; echo "O=verif"; echo "CN=$1";
    echo "[ext]"; echo "basicConstraints=CA:FALSE"; echo "keyUsage=digitalSignature,keyEncipherment"; echo "extendedKeyUsage=serverAuth,clientAuth";
    [ -n "$4" ] && echo "subjectAltName=DNS:$4";
    [ -n "$5" ] && echo "$ROLE_OID=ASN1:UTF8String:$5"; } > $1.cnf
  $O req -x509 -new -key $1_key.pem -config $1.cnf -not_before $2 -not_after $3 -out $1_cert.pem
  rm -f $1.cnf
}
ca ca_a
ca ca_b
# server certificates (peer of a rodbus client), authority mode
leaf srv_valid      ca_a $VALID_FROM $VALID_TO test.com ""
leaf srv_wrong_ca   ca_b $VALID_FROM $VALID_TO test.com ""
leaf srv_wrong_name ca_a $VALID_FROM $VALID_TO other.example ""
leaf srv_expired    ca_a $OLD_FROM   $OLD_TO   test.com ""
leaf srv_future     ca_a $FUT_FROM   $FUT_TO   test.com ""
# client certificates (peer of a rodbus server), authority mode
leaf cli_operator   ca_a $VALID_FROM $VALID_TO client.test operator
leaf cli_viewer     ca_a $VALID_FROM $VALID_TO client.test viewer
leaf cli_norole     ca_a $VALID_FROM $VALID_TO client.test ""
leaf cli_wrong_ca   ca_b $VALID_FROM $VALID_TO client.test operator
leaf cli_expired    ca_a $OLD_FROM   $OLD_TO   client.test operator
leaf cli_future     ca_a $FUT_FROM   $FUT_TO   client.test operator
# self-signed mode
selfsigned ss_server         $VALID_FROM $VALID_TO test.com ""
selfsigned ss_server_other   $VALID_FROM $VALID_TO test.com ""
selfsigned ss_server_expired $OLD_FROM   $OLD_TO   test.com ""
selfsigned ss_server_future  $FUT_FROM   $FUT_TO   test.com ""
selfsigned ss_client          $VALID_FROM $VALID_TO "" operator
selfsigned ss_client_viewer   $VALID_FROM $VALID_TO "" viewer
selfsigned ss_client_norole   $VALID_FROM $VALID_TO "" ""
selfsigned ss_client_other    $VALID_FROM $VALID_TO "" operator
selfsigned ss_client_expired  $OLD_FROM   $OLD_TO   "" operator
selfsigned ss_client_future   $FUT_FROM   $FUT_TO   "" operator
# certificates *issued by* a pinned self-signed certificate (must not be accepted in self-signed mode)
leaf cli_child_of_ss ss_client $VALID_FROM $VALID_TO client.test operator
leaf srv_child_of_ss ss_server $VALID_FROM $VALID_TO test.com ""
rm -f *.srl
ls
# same subject / same key as the pinned self-signed certificate, but not the same bytes
# (added later with the equivalent commands: same DN + new key, and same DN + same key + another validity)
# added later with the `leaf` recipe: srv_ip (SAN IP:127.0.0.1, no DNS name), cli_oddrole (role " Operator ")
